"""Abstract interpretation of sweep loops over the *order domain*.

A sweep over one or two ascending block sequences (Chain::trim / difference / is_encompassed / contains_item and their
kin) looks at its cursors only through order comparisons, `min`/`max` of two bounds and the successor / predecessor of a
bound.  What one round of such a loop does is therefore a function of the *order type* of the bounds involved: which of
them are equal, which adjacent (differ by one), which further apart, and which sit at an end of the number space.  That
is a finite abstract domain.  `Machine` interprets the compiler's MIR of the loop body over it: every abstract state is
represented by its canonical member in a small universe 0..N (N chosen so that every order type with gaps {0, 1, >=2}
and end margins {0, >=1} of the quantities in play has a member), sequences are abstract (a few known leading elements,
then an unknown remainder whose every query forks the interpretation), outputs are symbolic (an unknown base plus what
this round appended).  Nothing of /repo is compiled or run; what is interpreted is the MIR text the driver dumped, and
only from a loop head to the next loop head or return (a loop-free fragment).

The interpreter fails closed: any construct it has no exact transfer function for raises `Unsupported`, which the
calling rule reports as "cannot establish".
"""
import re


class Unsupported(Exception):
    pass


class PanicPath(Exception):
    """The interpreted path ends in a panic (unwrap of None, unreachable!, failed assertion)."""


class _NeedChoice(Exception):
    pass


# ------------------------------------------------------------------------------------------------------------------
# values
#   int                      a bound (member of the universe) or a plain integer constant
#   bool
#   ("unit",)
#   ("tuple", (v, ...))
#   ("adt", short_adt, variant, (v, ...))          Option / Result / RangeTo / ...
#   ("ord", -1 | 0 | 1)
#   ("block", lo, hi, origin)                        a T or &T; lo / hi are ints or ("sym", ..)
#   ("sym", name)                                    an unknown scalar
#   ("lin", name, k)                                 unknown integer base + k
#   ("ref", (local, projs))                          reference to a place of the current frame
#   ("view", seq, i)                                 slice / slice iterator: elements i.. of an abstract sequence
#   ("vec", base, (items...))                        growable output; base: ("sym", n) | ("prefix", what, end) | None
#   ("chain", vec)                                   OwnedChain built from a vec
#   ("opaque", name)                                 a value only ever passed along
#   ("closure", def, (captures...))
#   ("top",)                                         unknown; looking at it is Unsupported

UNIT = ("unit",)
TOP = ("top",)


def some(v):
    return ("adt", "Option", "Some", (v,))


NONE = ("adt", "Option", "None", ())


def short_adt(path):
    return path.rsplit("::", 1)[-1]


class Seq:
    """An ascending sequence of blocks of which only a prefix is known."""

    def __init__(self, side, known=(), ended=False):
        self.side = side
        self.elems = list(known)
        self.ended = ended
        self.fresh = 0

    def get(self, i, m):
        if i < len(self.elems):
            return self.elems[i]
        if self.ended:
            return None
        if i > len(self.elems):
            raise Unsupported("sequence looked at beyond its next unknown element")
        if m.choose(2, "%s sequence: another element?" % self.side) == 0:
            self.ended = True
            return None
        self.fresh += 1
        n = "%s+%d" % (self.side, self.fresh)
        e = ("block", ("sym", n + ".min"), ("sym", n + ".max"), ("fresh", self.side, self.fresh))
        self.elems.append(e)
        return e


def is_concrete_block(v):
    return isinstance(v, tuple) and v and v[0] == "block" and isinstance(v[1], int) and isinstance(v[2], int)


class Outcome:
    def __init__(self, kind, bb, env, ret, choices, trace):
        self.kind = kind            # "cut" | "return" | "panic" | "unsupported"
        self.bb = bb
        self.env = env
        self.ret = ret
        self.choices = choices
        self.trace = trace

    def __repr__(self):
        return "<%s bb%s %s>" % (self.kind, self.bb, self.ret if self.kind != "cut" else "")


class Machine:
    def __init__(self, facts, vmax, max_steps=4000, max_depth=6):
        self.facts = facts
        self.vmax = vmax
        self.max_steps = max_steps
        self.max_depth = max_depth
        self._choices = []
        self._pos = 0
        self._arity = []
        self.events = []

    # -- nondeterminism by replay -----------------------------------------------------------------------------------
    def choose(self, n, why=""):
        if self._pos < len(self._choices):
            c = self._choices[self._pos]
        else:
            c = 0
            self._choices.append(0)
        if len(self._arity) <= self._pos:
            self._arity.append(n)
        self._pos += 1
        return c

    def explore(self, make_state, body, bb, cuts):
        """All outcomes of interpreting `body` from block `bb` until a block of `cuts` is entered (again), the function
        returns, or the path panics.  `make_state()` builds a fresh (env, aux) for every replay."""
        out = []
        pending = [[]]
        guard = 0
        while pending:
            guard += 1
            if guard > 512:
                raise Unsupported("more than 512 outcomes of one round")
            pre = pending.pop()
            self._choices = list(pre)
            self._pos = 0
            self._arity = []
            self.events = []
            env, aux = make_state()
            try:
                kind, at, env2, ret = self.run(body, bb, env, cuts)
            except PanicPath as e:
                kind, at, env2, ret = "panic", None, None, str(e)
            used = self._choices[:self._pos]
            out.append((Outcome(kind, at, env2, ret, list(used), list(self.events)), aux))
            # siblings: for every choice point beyond the prescribed prefix, the alternatives not yet taken
            for i in range(len(pre), len(used)):
                for alt in range(used[i] + 1, self._arity[i]):
                    pending.append(used[:i] + [alt])
        return out

    # -- places --------------------------------------------------------------------------------------------------------
    def _resolve(self, env, l, projs):
        """Normalise (local, projs) so that derefs of place references are followed.  Returns (local, projs, ptrval):
        the ultimate storage, and whether the path ended in a deref of a value that itself models a pointer (a block
        reference, a slice view) — then the place *is* what that value points to."""
        cur_l, cur_p = l, []
        ptrval = False
        for p in projs:
            if p[0] == "d":
                v = self._load(env, cur_l, cur_p)
                if isinstance(v, tuple) and v and v[0] == "ref":
                    cur_l, cur_p = v[1][0], [list(q) for q in v[1][1]]
                    ptrval = False
                else:
                    ptrval = True
            else:
                cur_p.append(p)
                ptrval = False
        return cur_l, cur_p, ptrval

    def _load(self, env, l, projs):
        v = env.get(l, TOP)
        for p in projs:
            if p[0] == "vi":
                if isinstance(v, tuple) and v and v[0] == "ref":
                    v = self.deref_val(env, v)
                if not (isinstance(v, tuple) and v and v[0] == "vec" and v[2]):
                    raise Unsupported("element %d of %s" % (p[1], _kind(v)))
                v = v[2][p[1]]
                continue
            if p[0] == "i":
                # element of a block sequence at a position held in a local
                ix = env.get(p[1], TOP)
                if isinstance(v, tuple) and v and v[0] == "ref":
                    v = self.deref_val(env, v)
                if not (isinstance(v, tuple) and v and v[0] == "view") or isinstance(ix, bool) or not isinstance(ix, int):
                    raise Unsupported("indexing %s by %s" % (_kind(v), _kind(ix)))
                e = v[1].get(v[2] + ix, self) if ix >= 0 else None
                if e is None:
                    raise PanicPath("index out of bounds")
                v = e
                continue
            v = self._project(v, p)
        return v

    def _project(self, v, p):
        k = p[0]
        if k == "f":
            name = p[1]
            if not isinstance(v, tuple):
                raise Unsupported("field %s of a scalar" % name)
            if v[0] == "tuple":
                return v[1][int(name)]
            if v[0] == "adt":
                try:
                    return v[3][int(name)]
                except (ValueError, IndexError):
                    raise Unsupported("field %s of %s::%s" % (name, v[1], v[2]))
            if v[0] == "opaque":
                return ("opaque", v[1] + "." + name)
            if v[0] == "block" and name in ("0", "1"):
                return v[1] if name == "0" else v[2]
            if v[0] == "chain" and name == "0":
                return v[1]
            if v[0] == "top":
                return TOP
            raise Unsupported("field %s of %s" % (name, v[0]))
        if k == "dc":
            if isinstance(v, tuple) and v[0] == "adt":
                if v[2] != p[1]:
                    raise Unsupported("downcast of %s::%s to %s" % (v[1], v[2], p[1]))
                return v
            if isinstance(v, tuple) and v[0] == "top":
                return TOP
            raise Unsupported("downcast of %r" % (v[:1],))
        if k == "d":
            return v
        if k == "i":
            raise Unsupported("index projection outside a load")
        raise Unsupported("projection %s" % k)

    def read_place(self, env, pl):
        l, projs, _ = self._resolve(env, pl["l"], pl["p"])
        return self._load(env, l, projs)

    def _store(self, v, projs, new):
        if not projs:
            return new
        p = projs[0]
        k = p[0]
        if k == "f":
            idx = int(p[1])
            if v[0] == "tuple":
                items = list(v[1])
                items[idx] = self._store(items[idx], projs[1:], new)
                return ("tuple", tuple(items))
            if v[0] == "adt":
                items = list(v[3])
                items[idx] = self._store(items[idx], projs[1:], new)
                return ("adt", v[1], v[2], tuple(items))
            raise Unsupported("store into field of %s" % v[0])
        if k == "dc":
            if v[0] == "adt" and v[2] == p[1]:
                return self._store(v, projs[1:], new)
            raise Unsupported("store through a downcast of %s" % (v[:3],))
        if k == "vi":
            if v[0] == "vec" and v[2]:
                items = list(v[2])
                items[p[1]] = self._store(items[p[1]], projs[1:], new)
                return ("vec", v[1], tuple(items))
            raise Unsupported("store into an element of %s" % v[0])
        raise Unsupported("store through %s" % k)

    def write_place(self, env, pl, val):
        l, projs, ptrval = self._resolve(env, pl["l"], pl["p"])
        if ptrval:
            raise Unsupported("write through a pointer-like value")
        if not projs:
            env[l] = val
        else:
            env[l] = self._store(env.get(l, TOP), projs, val)

    def write_ref(self, env, ref, val):
        self.write_place(env, {"l": ref[1][0], "p": [list(p) for p in ref[1][1]]}, val)

    def ref_of(self, env, pl):
        l, projs, ptrval = self._resolve(env, pl["l"], pl["p"])
        if ptrval:
            return self._load(env, l, projs)        # `&*p` of a pointer-like value is that value
        return ("ref", (l, tuple(tuple(p) for p in projs)))

    def deref_val(self, env, v):
        """The value a reference-like value stands for."""
        n = 0
        while isinstance(v, tuple) and v and v[0] == "ref":
            v = self._load(env, v[1][0], [list(p) for p in v[1][1]])
            n += 1
            if n > 8:
                raise Unsupported("reference chain")
        return v

    # -- operands / rvalues ----------------------------------------------------------------------------------------
    def operand(self, env, op, body):
        if "c" in op:
            return self.read_place(env, op["c"])
        if "m" in op:
            return self.read_place(env, op["m"])
        if "k" in op:
            k = op["k"]
            if "v" in k:
                return bool(k["v"]) if k.get("ty") == "bool" else k["v"]
            if k.get("ty") == "()":
                return UNIT
            if "fn" in k:
                return ("fnref", k)
            if "promoted" in k:
                pb = body.promoted
                if k["promoted"] < len(pb):
                    kind, at, e2, ret = self.run(pb[k["promoted"]], 0, {}, ())
                    return ret
            raise Unsupported("constant %s" % (k.get("dbg") or k.get("ty")))
        raise Unsupported("operand")

    def rvalue(self, env, rv, body):
        r = rv["r"]
        if r == "use":
            return self.operand(env, rv["op"], body)
        if r in ("ref", "rawptr"):
            return self.ref_of(env, rv["pl"])
        if r == "cast":
            return self.operand(env, rv["op"], body)
        if r == "discr":
            v = self.deref_val(env, self.read_place(env, rv["pl"]))
            return self.discriminant(v)
        if r == "agg":
            ops = tuple(self.operand(env, o, body) for o in rv["ops"])
            ak = rv["ak"]
            if ak == "tuple":
                return ("tuple", ops) if ops else UNIT
            if ak == "adt":
                return ("adt", short_adt(rv["adt"]), rv["variant"], ops)
            if ak == "closure":
                return ("closure", rv["def"], ops)
            raise Unsupported("aggregate %s" % ak)
        if r == "bin":
            a = self.deref_val(env, self.operand(env, rv["a"], body))
            b = self.deref_val(env, self.operand(env, rv["b"], body))
            return self.binop(rv["bop"], a, b)
        if r == "un":
            a = self.deref_val(env, self.operand(env, rv["a"], body))
            if rv["uop"] == "Not" and isinstance(a, bool):
                return not a
            if rv["uop"] == "PtrMetadata" and isinstance(a, tuple) and a and a[0] == "view":
                return ("len", a[1], a[2])
            raise Unsupported("unary %s" % rv["uop"])
        raise Unsupported("rvalue %s" % r)

    def discriminant(self, v):
        if isinstance(v, bool):
            return int(v)
        if isinstance(v, tuple):
            if v[0] == "adt":
                if v[1] == "Option":
                    return {"None": 0, "Some": 1}[v[2]]
                if v[1] == "Result":
                    return {"Ok": 0, "Err": 1}[v[2]]
                raise Unsupported("discriminant of %s" % v[1])
            if v[0] == "ord":
                return {-1: 255, 0: 0, 1: 1}[v[1]]
        raise Unsupported("discriminant of %r" % (v[:1] if isinstance(v, tuple) else v,))

    def _ints(self, a, b, what):
        if isinstance(a, bool) or isinstance(b, bool) or not isinstance(a, int) or not isinstance(b, int):
            raise Unsupported("%s of %s and %s" % (what, _kind(a), _kind(b)))

    def compare(self, a, b):
        if isinstance(a, tuple) and isinstance(b, tuple) and a and b and a[0] == "adt" and b[0] == "adt" and a[1] == b[1] == "Option":
            # derived order of Option: None < Some(_), payloads compared
            if a[2] != b[2]:
                return -1 if a[2] == "None" else 1
            return 0 if a[2] == "None" else self.compare(a[3][0], b[3][0])
        if isinstance(a, tuple) and isinstance(b, tuple) and a[0] == "tuple" and b[0] == "tuple" and len(a[1]) == len(b[1]):
            for x, y in zip(a[1], b[1]):
                c = self.compare(x, y)
                if c:
                    return c
            return 0
        la = isinstance(a, tuple) and a and a[0] == "len"
        lb = isinstance(b, tuple) and b and b[0] == "len"
        if la != lb:
            # a position against the (unknown) length of a sequence view: decided by asking the sequence for elements
            k, ln, sign = (b, a, -1) if la else (a, b, 1)
            if isinstance(k, bool) or not isinstance(k, int) or k < 0:
                raise Unsupported("comparison of %s with a sequence length" % _kind(k))
            seq, base = ln[1], ln[2]
            for j in range(k):
                if seq.get(base + j, self) is None:
                    return sign * 1                 # k > len
            return sign * (-1 if seq.get(base + k, self) is not None else 0)
        self._ints(a, b, "comparison")
        return (a > b) - (a < b)

    def binop(self, op, a, b):
        if op in ("Lt", "Le", "Gt", "Ge", "Eq", "Ne"):
            if isinstance(a, bool) and isinstance(b, bool) and op in ("Eq", "Ne"):
                return (a == b) == (op == "Eq")
            c = self.compare(a, b)
            return {"Lt": c < 0, "Le": c <= 0, "Gt": c > 0, "Ge": c >= 0, "Eq": c == 0, "Ne": c != 0}[op]
        if op in ("AddWithOverflow", "Add", "SubWithOverflow", "Sub"):
            sign = 1 if op.startswith("Add") else -1
            if isinstance(a, tuple) and a[0] == "lin" and isinstance(b, int) and not isinstance(b, bool):
                r = ("lin", a[1], a[2] + sign * b)
            elif isinstance(a, int) and isinstance(b, int) and not isinstance(a, bool) and not isinstance(b, bool) and 0 <= a + sign * b < 64:
                r = a + sign * b                    # small positions (an index into a sequence view)
            else:
                raise Unsupported("%s of %s and %s" % (op, _kind(a), _kind(b)))
            return ("tuple", (r, False)) if op.endswith("WithOverflow") else r
        if op in ("BitAnd", "BitOr") and isinstance(a, bool) and isinstance(b, bool):
            return (a and b) if op == "BitAnd" else (a or b)
        raise Unsupported("binary %s" % op)

    # -- running ---------------------------------------------------------------------------------------------------------
    def run(self, body, bb, env, cuts, depth=0):
        steps = 0
        first = True
        while True:
            steps += 1
            if steps > self.max_steps:
                raise Unsupported("round does not end within %d blocks" % self.max_steps)
            if not first and bb in cuts:
                return "cut", bb, env, None
            first = False
            blk = body.blocks[bb]
            for st in blk["stmts"]:
                if st["s"] == "assign":
                    self.write_place(env, st["pl"], self.rvalue(env, st["rv"], body))
                elif st["s"] == "setdiscr":
                    raise Unsupported("set discriminant")
            t = blk["term"]
            k = t["t"]
            if k == "goto":
                bb = t["target"]
            elif k == "drop":
                bb = t["target"]
            elif k == "return":
                return "return", bb, env, env.get(0, UNIT)
            elif k == "unreachable":
                raise PanicPath("unreachable")
            elif k == "switch":
                v = self.deref_val(env, self.operand(env, t["discr"], body))
                if isinstance(v, bool):
                    v = int(v)
                if not isinstance(v, int):
                    raise Unsupported("branch on %s at %s" % (_kind(v), body.where(bb)))
                nxt = t["otherwise"]
                for val, tb in t["targets"]:
                    if val == v:
                        nxt = tb
                        break
                bb = nxt
            elif k == "assert":
                v = self.deref_val(env, self.operand(env, t["cond"], body))
                if not isinstance(v, bool):
                    raise Unsupported("assertion on %s" % _kind(v))
                if v != t["expected"]:
                    raise PanicPath("assertion %s" % t.get("kind"))
                bb = t["target"]
            elif k == "call":
                res = self.call(body, bb, t, env, depth)
                self.write_place(env, t["dest"], res)
                if t["target"] is None:
                    raise PanicPath("diverging call")
                bb = t["target"]
            else:
                raise Unsupported("terminator %s" % k)

    # -- calls -----------------------------------------------------------------------------------------------------------
    def call(self, body, bb, t, env, depth):
        f = t["func"]
        k = f.get("k") if isinstance(f, dict) else None
        if not k or "fn" not in k:
            raise Unsupported("indirect call at %s" % body.where(bb))
        raw = [self.operand(env, a, body) for a in t["args"]]
        return self.apply(k, raw, env, depth, body.where(bb))

    def apply(self, k, raw, env, depth, where):
        fn = k.get("fn") or ""
        res = k.get("res") or fn
        name = k.get("name") or fn.rsplit("::", 1)[-1]
        trait = k.get("trait") or ""
        args = [self.deref_val(env, a) for a in raw]
        tl = trait.rsplit("::", 1)[-1] if trait else ""

        # ---- the Block interface ------------------------------------------------------------------------------------
        if tl == "Block":
            if name in ("min", "max") and len(args) == 1:
                b = args[0]
                if isinstance(b, tuple) and b[0] == "block":
                    return b[1] if name == "min" else b[2]
                raise Unsupported("Block::%s of %s" % (name, _kind(b)))
            if name == "new" and len(args) == 2:
                return ("block", args[0], args[1], ("new",))
            if name in ("next", "previous") and len(args) == 1:
                x = args[0]
                if isinstance(x, bool) or not isinstance(x, int):
                    raise Unsupported("Block::%s of %s" % (name, _kind(x)))
                if name == "next":
                    return NONE if x >= self.vmax else some(x + 1)
                return NONE if x <= 0 else some(x - 1)
            b = self.facts.body("repository::resources::chain::Block::" + name)
            if b is not None:
                return self.call_body(b, raw, env, depth, where)
            raise Unsupported("Block::%s" % name)
        # ---- comparisons ----------------------------------------------------------------------------------------------
        if tl in ("Ord", "PartialOrd", "PartialEq") and len(args) == 2:
            a, b = args
            if name == "cmp":
                return ("ord", self.compare(a, b))
            if name == "partial_cmp":
                return some(("ord", self.compare(a, b)))
            if name in ("lt", "le", "gt", "ge", "eq", "ne"):
                if name in ("eq", "ne") and isinstance(a, bool) and isinstance(b, bool):
                    return (a == b) == (name == "eq")
                c = self.compare(a, b)
                return {"lt": c < 0, "le": c <= 0, "gt": c > 0, "ge": c >= 0, "eq": c == 0, "ne": c != 0}[name]
            if name in ("max", "min") and tl == "Ord":
                c = self.compare(a, b)
                return (b if c <= 0 else a) if name == "max" else (a if c <= 0 else b)
        if res in ("std::cmp::max", "std::cmp::min", "core::cmp::max", "core::cmp::min") and len(args) == 2:
            c = self.compare(args[0], args[1])
            return (args[1] if c <= 0 else args[0]) if name == "max" else (args[0] if c <= 0 else args[1])
        if tl == "Ordering" or res.startswith("std::cmp::Ordering::") or res.startswith("core::cmp::Ordering::"):
            if len(args) == 1 and isinstance(args[0], tuple) and args[0][0] == "ord":
                o = args[0][1]
                tbl = {"is_lt": o < 0, "is_le": o <= 0, "is_gt": o > 0, "is_ge": o >= 0, "is_eq": o == 0, "is_ne": o != 0}
                if name in tbl:
                    return tbl[name]
                if name == "reverse":
                    return ("ord", -o)
        # ---- Option --------------------------------------------------------------------------------------------------
        if re.match(r"^(std|core)::option::Option::<[^>]*>::", res) or res.startswith("std::option::Option::") or \
                res.startswith("core::option::Option::"):
            o = args[0] if args else None
            if isinstance(o, tuple) and o[0] == "adt" and o[1] == "Option":
                is_some = o[2] == "Some"
                if name in ("unwrap", "expect"):
                    if not is_some:
                        raise PanicPath("unwrap of None at %s" % where)
                    return o[3][0]
                if name == "is_some":
                    return is_some
                if name == "is_none":
                    return not is_some
                if name in ("as_ref", "as_mut", "copied", "cloned", "as_deref"):
                    return o
                if name == "map":
                    if not is_some:
                        return NONE
                    return some(self.call_value(args[1], [o[3][0]], env, depth, where))
                if name in ("unwrap_or",):
                    return o[3][0] if is_some else args[1]
                if name in ("map_or",):
                    return self.call_value(args[2], [o[3][0]], env, depth, where) if is_some else args[1]
                if name in ("is_some_and", "is_none_or"):
                    if is_some:
                        return self.call_value(args[1], [o[3][0]], env, depth, where)
                    return name == "is_none_or"
                if name in ("and_then",):
                    return self.call_value(args[1], [o[3][0]], env, depth, where) if is_some else NONE
                if name == "filter":
                    if is_some and self.call_value(args[1], [("vref", o[3][0])], env, depth, where):
                        return o
                    return NONE
                if name == "take":
                    if raw and isinstance(raw[0], tuple) and raw[0][0] == "ref":
                        self.write_ref(env, raw[0], NONE)
                        return o
                if name == "ok_or" or name == "ok_or_else":
                    return ("adt", "Result", "Ok", (o[3][0],)) if is_some else ("adt", "Result", "Err", (TOP,))
            raise Unsupported("Option::%s of %s" % (name, _kind(o)))
        # ---- sequences -------------------------------------------------------------------------------------------------
        if name == "next" and tl in ("Iterator", "") and args and isinstance(args[0], tuple) and args[0][0] == "view":
            v = args[0]
            e = v[1].get(v[2], self)
            if raw and isinstance(raw[0], tuple) and raw[0][0] == "ref":
                if e is not None:
                    self.write_ref(env, raw[0], ("view", v[1], v[2] + 1))
            else:
                raise Unsupported("next on an iterator that is not a place")
            self.events.append(("next", v[1].side, e))
            return NONE if e is None else some(e)
        if args and isinstance(args[0], tuple) and args[0][0] == "view":
            v = args[0]
            if name in ("into_iter", "iter", "as_ref", "deref", "as_slice", "borrow", "clone", "by_ref", "copied", "cloned"):
                return v
            if name == "is_empty":
                return v[1].get(v[2], self) is None
            if name == "len":
                return ("len", v[1], v[2])
            if name == "first":
                e = v[1].get(v[2], self)
                return NONE if e is None else some(e)
            if name == "split_first":
                e = v[1].get(v[2], self)
                return NONE if e is None else some(("tuple", (e, ("view", v[1], v[2] + 1))))
            if name == "peek":
                e = v[1].get(v[2], self)
                return NONE if e is None else some(e)
            if name == "index" and len(args) == 2:
                ix = args[1]
                if isinstance(ix, int) and not isinstance(ix, bool):
                    e = v[1].get(v[2] + ix, self) if ix == 0 or v[2] + ix < len(v[1].elems) else None
                    if e is None:
                        raise PanicPath("index out of bounds at %s" % where)
                    return e
                if isinstance(ix, tuple) and ix[0] == "adt" and ix[1] == "RangeFrom" and isinstance(ix[3][0], int):
                    n = ix[3][0]
                    for j in range(n):
                        if v[1].get(v[2] + j, self) is None:
                            raise PanicPath("slice start out of bounds at %s" % where)
                    return ("view", v[1], v[2] + n)
            raise Unsupported("%s on a block sequence" % name)
        # ---- outputs -----------------------------------------------------------------------------------------------------
        if args and isinstance(args[0], tuple) and args[0][0] == "vec":
            v = args[0]
            if name in ("deref", "deref_mut", "as_slice", "as_mut_slice", "as_ref", "as_mut", "borrow", "borrow_mut") and len(args) == 1:
                return raw[0] if isinstance(raw[0], tuple) and raw[0][0] == "ref" else v        # the vector stands for its slice
            if name in ("last", "last_mut") and len(args) == 1:
                if v[2]:
                    if name == "last":
                        return some(v[2][-1])
                    if isinstance(raw[0], tuple) and raw[0][0] == "ref":
                        return some(("ref", (raw[0][1][0], tuple(raw[0][1][1]) + (("vi", -1),))))
                    raise Unsupported("last_mut of a vector that is not a place")
                if v[1] is None:
                    return NONE
                raise Unsupported("last element of an output whose content is unknown")
            if name == "is_empty" and len(args) == 1:
                if v[2]:
                    return False
                if v[1] is None:
                    return True
                raise Unsupported("emptiness of an output whose content is unknown")
        if name == "push" and len(args) == 2 and isinstance(args[0], tuple) and args[0][0] == "vec":
            if not (raw and isinstance(raw[0], tuple) and raw[0][0] == "ref"):
                raise Unsupported("push on a vector that is not a place")
            nv = ("vec", args[0][1], args[0][2] + (args[1],))
            self.write_ref(env, raw[0], nv)
            self.events.append(("push", args[1]))
            return UNIT
        if re.search(r"(^|::)Vec::<[^>]*>::new$|(^|::)Vec::new$", res) and not args:
            return ("vec", None, ())
        if re.search(r"(^|::)Vec::<[^>]*>::with_capacity$", res):
            return ("vec", None, ())
        if name == "index" and len(args) == 2 and isinstance(args[0], tuple) and args[0][0] == "opaque" and \
                isinstance(args[1], tuple) and args[1][0] == "adt" and args[1][1] == "RangeTo":
            return ("prefix", args[0][1], args[1][3][0])
        if name in ("into", "from", "to_vec", "to_owned", "into_vec") and args and isinstance(args[-1], tuple) and args[-1][0] == "prefix":
            return ("vec", args[-1], ())
        if name == "from_vec_unchecked" and len(args) == 1:
            return ("chain", args[0])
        if name == "empty" and not args and "Chain" in res:
            return ("chain", ("vec", None, ()))
        # ---- crate functions with a body ------------------------------------------------------------------------------
        b = self.facts.body(res) or self.facts.body(fn)
        if b is not None:
            if getattr(self, "delegates", None) is not None and b.cycles_sccs():
                # a crate function with loops of its own: the caller hands the work over (judged as such by the rule)
                self.delegates.append((res, args))
                return ("delegated", res, tuple(args))
            return self.call_body(b, raw, env, depth, where)
        # ---- transparent moves ---------------------------------------------------------------------------------------
        if name in ("deref", "deref_mut", "as_ref", "as_mut", "borrow", "borrow_mut", "clone", "into_iter", "into", "from",
                    "to_owned", "as_slice", "iter", "by_ref") and len(args) == 1:
            a = args[0]
            if isinstance(a, tuple) and a[0] in ("block", "view", "opaque", "tuple", "vec", "chain", "adt", "ord", "lin", "sym") \
                    or isinstance(a, (int, bool)):
                if name in ("deref_mut", "as_mut", "borrow_mut", "by_ref") and raw and isinstance(raw[0], tuple) and raw[0][0] == "ref":
                    return raw[0]
                return a
        if res.startswith("core::panicking::") or res.startswith("std::rt::begin_panic") or name in ("panic", "panic_fmt", "unreachable_display"):
            raise PanicPath("panic at %s" % where)
        if name == "drop" and res.endswith("mem::drop"):
            return UNIT
        raise Unsupported("call of %s at %s" % (res, where))

    def call_value(self, fv, argv, env, depth, where):
        """Apply a closure value or a function item to arguments."""
        if isinstance(fv, tuple) and fv[0] == "closure":
            b = self.facts.body(fv[1])
            if b is None:
                raise Unsupported("closure %s has no body" % fv[1])
            return self.call_body(b, [fv] + list(argv), env, depth, where, from_values=True)
        if isinstance(fv, tuple) and fv[0] == "fnref":
            return self.apply(fv[1], list(argv), env, depth, where)
        raise Unsupported("call of a %s" % _kind(fv))

    def call_body(self, b, raw, env, depth, where, from_values=False):
        if depth >= self.max_depth:
            raise Unsupported("call depth at %s" % where)
        if len(b.cycles_sccs()) > 0:
            raise Unsupported("callee %s has a loop (at %s)" % (b.name, where))
        # arguments by value: references into the caller's frame are replaced by what they refer to (callees here are
        # pure readers; a callee that writes through a reference is not supported)
        for i in range(1, b.arg_count + 1):
            if b.local_ty(i).startswith("&mut"):
                raise Unsupported("callee %s takes a mutable reference (at %s)" % (b.name, where))
        cenv = {}
        for i, a in enumerate(raw):
            cenv[i + 1] = self.deref_val(env, a)
        kind, at, e2, ret = self.run(b, 0, cenv, (), depth + 1)
        return self.globalise(e2, ret)

    def globalise(self, env, v, n=0):
        """A value leaving a frame: references into that frame are replaced by what they refer to."""
        if n > 6 or not isinstance(v, tuple) or not v:
            return v
        if v[0] == "ref":
            return self.globalise(env, self.deref_val(env, v), n + 1)
        if v[0] == "tuple":
            return ("tuple", tuple(self.globalise(env, x, n + 1) for x in v[1]))
        if v[0] == "adt":
            return ("adt", v[1], v[2], tuple(self.globalise(env, x, n + 1) for x in v[3]))
        return v


def _kind(v):
    if isinstance(v, bool):
        return "bool"
    if isinstance(v, int):
        return "int"
    if isinstance(v, tuple) and v:
        return str(v[0]) + (":" + str(v[1]) if v[0] in ("adt", "sym", "opaque") and len(v) > 1 else "")
    return type(v).__name__


# ------------------------------------------------------------------------------------------------------------------
# liveness and classification of the state of a loop head

def _reads_of_operand(op, out):
    for key in ("c", "m"):
        if key in op:
            out.add(op[key]["l"])
            for p in op[key]["p"]:
                if p[0] == "i":
                    out.add(p[1])


def _reads_of_place(pl, out, whole_write):
    # a write to a projection reads the rest of the local; a deref-write reads the pointer
    if not whole_write:
        out.add(pl["l"])
    for p in pl["p"]:
        if p[0] == "i":
            out.add(p[1])


def block_use_def(body, bb):
    """(upward-exposed uses, full definitions) of a block, in order."""
    use, dfn = set(), set()

    def u(locals_):
        for l in locals_:
            if l not in dfn:
                use.add(l)
    blk = body.blocks[bb]
    for st in blk["stmts"]:
        if st["s"] != "assign":
            continue
        rd = set()
        rv = st["rv"]
        r = rv["r"]
        if r in ("use", "cast", "repeat"):
            _reads_of_operand(rv["op"], rd)
        elif r in ("ref", "rawptr", "discr"):
            rd.add(rv["pl"]["l"])
        elif r == "bin":
            _reads_of_operand(rv["a"], rd)
            _reads_of_operand(rv["b"], rd)
        elif r == "un":
            _reads_of_operand(rv["a"], rd)
        elif r == "agg":
            for o in rv["ops"]:
                _reads_of_operand(o, rd)
        whole = not st["pl"]["p"]
        _reads_of_place(st["pl"], rd, whole)
        u(rd)
        if whole:
            dfn.add(st["pl"]["l"])
    t = blk["term"]
    rd = set()
    if t["t"] == "call":
        for a in t["args"]:
            _reads_of_operand(a, rd)
        if isinstance(t["func"], dict) and ("c" in t["func"] or "m" in t["func"]):
            _reads_of_operand(t["func"], rd)
        whole = not t["dest"]["p"]
        _reads_of_place(t["dest"], rd, whole)
        u(rd)
        if whole:
            dfn.add(t["dest"]["l"])
    elif t["t"] == "switch":
        _reads_of_operand(t["discr"], rd)
        u(rd)
    elif t["t"] == "assert":
        _reads_of_operand(t["cond"], rd)
        u(rd)
    elif t["t"] == "return":
        u({0})
    elif t["t"] == "drop":
        pass
    return use, dfn


def liveness(body):
    n = len(body.blocks)
    ud = [block_use_def(body, i) for i in range(n)]
    live_in = [set() for _ in range(n)]
    changed = True
    reach = body.reachable(0)
    while changed:
        changed = False
        for b in sorted(reach, reverse=True):
            out = set()
            for s in body.succs(b):
                out |= live_in[s]
            new = ud[b][0] | (out - ud[b][1])
            if new != live_in[b]:
                live_in[b] = new
                changed = True
    return live_in


def loop_heads(body):
    """Blocks that are the target of a back edge (DFS from the entry over normal edges)."""
    heads = set()
    color = {}
    stack = [(0, iter(body.succs(0)))]
    color[0] = 1
    while stack:
        v, it = stack[-1]
        adv = False
        for w in it:
            if body.is_cleanup(w):
                continue
            c = color.get(w, 0)
            if c == 0:
                color[w] = 1
                stack.append((w, iter(body.succs(w))))
                adv = True
                break
            if c == 1:
                heads.add(w)
        if not adv:
            color[v] = 2
            stack.pop()
    return heads


def param_roots(body, local, stop_blocks=()):
    """Parameters a local's value derives from, following definitions outside `stop_blocks`."""
    defs = body.defs()
    seen, out = set(), set()
    work = [local]
    while work:
        l = work.pop()
        if l in seen:
            continue
        seen.add(l)
        if 1 <= l <= body.arg_count:
            out.add(l)
            continue
        for bi, si, kind, payload in defs.get(l, []):
            if bi in stop_blocks:
                continue
            rd = set()
            if kind in ("assign", "partial") and payload.get("s") == "assign":
                rv = payload["rv"]
                r = rv["r"]
                if r in ("use", "cast", "repeat"):
                    _reads_of_operand(rv["op"], rd)
                elif r in ("ref", "rawptr", "discr"):
                    rd.add(rv["pl"]["l"])
                elif r == "bin":
                    _reads_of_operand(rv["a"], rd)
                    _reads_of_operand(rv["b"], rd)
                elif r == "un":
                    _reads_of_operand(rv["a"], rd)
                elif r == "agg":
                    for o in rv["ops"]:
                        _reads_of_operand(o, rd)
            elif kind in ("call", "partial") and payload.get("t") == "call":
                for a in payload["args"]:
                    _reads_of_operand(a, rd)
            work.extend(rd)
    return out
