"""R-REG: path-partitioned abstract interpretation of small MIR functions.

Domain: integers are unit-coefficient linear forms over input symbols, kept in a
zone (difference-bound matrix) abstract state that every branch refines;
enums are concrete variants or opaque objects split on match; anything else is
an opaque object with a provenance label.  No concrete execution and no solver:
feasibility is DBM emptiness (closed form), every operation is a transfer
function on the abstract state.  Loops are not supported (bounded unrolling,
then fail closed).

Result: a list of Path(zone, outcome, effects) — a partition of the input space
into regions with one outcome each — which rule instances compare against a
spec table.
"""
import re
from .sym import short, _strip_generics

INF = float("inf")

INT_RANGES = {
    "u8": (0, 2**8 - 1), "u16": (0, 2**16 - 1), "u32": (0, 2**32 - 1), "u64": (0, 2**64 - 1),
    "u128": (0, 2**128 - 1), "usize": (0, 2**64 - 1),
    "i8": (-2**7, 2**7 - 1), "i16": (-2**15, 2**15 - 1), "i32": (-2**31, 2**31 - 1),
    "i64": (-2**63, 2**63 - 1), "i128": (-2**127, 2**127 - 1), "isize": (-2**63, 2**63 - 1),
    "bool": (0, 1), "char": (0, 0x10FFFF),
}


ASCII_CLASSES = {
    "is_ascii_digit": [(0x30, 0x39)],
    "is_ascii_uppercase": [(0x41, 0x5A)],
    "is_ascii_lowercase": [(0x61, 0x7A)],
    "is_ascii_alphabetic": [(0x41, 0x5A), (0x61, 0x7A)],
    "is_ascii_alphanumeric": [(0x30, 0x39), (0x41, 0x5A), (0x61, 0x7A)],
    "is_ascii": [(0, 0x7F)],
    "is_ascii_hexdigit": [(0x30, 0x39), (0x41, 0x46), (0x61, 0x66)],
    "is_ascii_graphic": [(0x21, 0x7E)],
    "is_ascii_control": [(0, 0x1F), (0x7F, 0x7F)],
    "is_ascii_whitespace": [(0x09, 0x0A), (0x0C, 0x0D), (0x20, 0x20)],
    "is_ascii_punctuation": [(0x21, 0x2F), (0x3A, 0x40), (0x5B, 0x60), (0x7B, 0x7E)],
}


def int_range(ty):
    ty = ty.strip()
    while ty.startswith("&"):
        ty = ty[1:].strip()
        if ty.startswith("mut "):
            ty = ty[4:]
    return INT_RANGES.get(ty)


class Unsupported(Exception):
    pass


# ---------------------------------------------------------------------------
# zone

class Zone:
    """x_i - x_j <= m[i][j]; index 0 is the constant zero."""

    def __init__(self, syms=None, m=None):
        self.syms = list(syms or [])
        n = len(self.syms) + 1
        self.m = m or [[0 if i == j else INF for j in range(n)] for i in range(n)]
        self.empty = False

    def copy(self):
        z = Zone(self.syms, [row[:] for row in self.m])
        z.empty = self.empty
        return z

    def idx(self, s):
        if s is None:
            return 0
        if s not in self.syms:
            self.syms.append(s)
            for row in self.m:
                row.append(INF)
            self.m.append([INF] * (len(self.syms) + 1))
            self.m[-1][-1] = 0
        return self.syms.index(s) + 1

    def add(self, x, y, c):
        """x - y <= c  (x or y may be None for zero)."""
        i, j = self.idx(x), self.idx(y)
        if c < self.m[i][j]:
            self.m[i][j] = c
            self._close_edge(i, j)

    def _close_edge(self, a, b):
        m = self.m
        n = len(m)
        c = m[a][b]
        for i in range(n):
            mia = m[i][a]
            if mia == INF:
                continue
            for j in range(n):
                mbj = m[b][j]
                if mbj == INF:
                    continue
                v = mia + c + mbj
                if v < m[i][j]:
                    m[i][j] = v
        for i in range(n):
            if m[i][i] < 0:
                self.empty = True
                return

    def bounds(self, x):
        i = self.idx(x)
        hi = self.m[i][0]
        lo = -self.m[0][i]
        return (lo, hi)

    def diff_bounds(self, x, y):
        i, j = self.idx(x), self.idx(y)
        return (-self.m[j][i], self.m[i][j])

    def meet_constraints(self, cons):
        z = self.copy()
        for x, y, c in cons:
            z.add(x, y, c)
        return z

    def describe(self):
        out = []
        for s in self.syms:
            lo, hi = self.bounds(s)
            out.append("%s∈[%s,%s]" % (s, _fmt(lo), _fmt(hi)))
        for a in self.syms:
            for b in self.syms:
                if a < b:
                    lo, hi = self.diff_bounds(a, b)
                    la, ha = self.bounds(a)
                    lb, hb = self.bounds(b)
                    if lo > la - hb or hi < ha - lb:
                        out.append("%s−%s∈[%s,%s]" % (a, b, _fmt(lo), _fmt(hi)))
        return ", ".join(out)


def _fmt(v):
    if v == INF:
        return "+∞"
    if v == -INF:
        return "−∞"
    if isinstance(v, int) and abs(v) >= 4096:
        return hex(v)
    return str(v)


# ---------------------------------------------------------------------------
# values

class Lin:
    """const + Σ coef·sym."""
    __slots__ = ("t", "c")

    def __init__(self, t=None, c=0):
        self.t = {k: v for k, v in (t or {}).items() if v != 0}
        self.c = c

    @staticmethod
    def const(c):
        return Lin({}, c)

    @staticmethod
    def sym(s):
        return Lin({s: 1}, 0)

    def add(self, o):
        t = dict(self.t)
        for k, v in o.t.items():
            t[k] = t.get(k, 0) + v
        return Lin(t, self.c + o.c)

    def neg(self):
        return Lin({k: -v for k, v in self.t.items()}, -self.c)

    def sub(self, o):
        return self.add(o.neg())

    def scale(self, k):
        return Lin({s: v * k for s, v in self.t.items()}, self.c * k)

    def is_const(self):
        return not self.t

    def __repr__(self):
        parts = []
        for k, v in sorted(self.t.items()):
            parts.append(("" if v == 1 else "-" if v == -1 else "%d·" % v) + k)
        if self.c or not parts:
            parts.append(_fmt(self.c))
        return "+".join(parts).replace("+-", "-")


class V:
    """Abstract value."""
    __slots__ = ("k", "lin", "expr", "ty", "fields", "adt", "vidx", "vname", "target", "path")

    def __init__(self, k, **kw):
        self.k = k
        self.lin = kw.get("lin")
        self.expr = kw.get("expr")
        self.ty = kw.get("ty")
        self.fields = kw.get("fields")
        self.adt = kw.get("adt")
        self.vidx = kw.get("vidx")
        self.vname = kw.get("vname")
        self.target = kw.get("target")
        self.path = kw.get("path")

    def __repr__(self):
        return show(self)


def show(v, depth=0):
    if v is None:
        return "⊥"
    if depth > 6:
        return "…"
    k = v.k
    if k == "int":
        if v.lin is not None and v.lin.is_const():
            return _fmt(v.lin.c)
        if v.expr:
            return v.expr
        return repr(v.lin)
    if k == "obj":
        return v.path
    if k == "variant":
        fs = v.fields or {}
        inner = ", ".join(show(fs[i], depth + 1) for i in sorted(fs))
        return "%s(%s)" % (v.vname, inner) if fs else "%s" % v.vname
    if k == "tuple":
        return "(%s)" % ", ".join(show(x, depth + 1) for x in v.fields)
    if k == "struct":
        return "%s{%s}" % (short(v.adt or "?"), ", ".join("%s: %s" % (n, show(x, depth + 1)) for n, x in sorted(v.fields.items())))
    if k == "ref":
        return "&" + str(v.target)
    if k == "unit":
        return "()"
    if k == "fn":
        return "fn:" + short(v.path)
    if k == "closure":
        return "closure:" + v.path
    if k == "bytes":
        return repr(v.path)
    return "⊤"


def mk_int(lin, expr=None, ty=None):
    return V("int", lin=lin, expr=expr, ty=ty)


def mk_const(c, ty=None):
    return V("int", lin=Lin.const(c), ty=ty)


def mk_obj(path, ty=None):
    return V("obj", path=path, ty=ty)


TOP = V("top")
UNIT = V("unit")


class Path:
    def __init__(self, zone, outcome, effects, conds, trace):
        self.zone = zone
        self.outcome = outcome      # ('return', V) | ('panic', why, where) | ('diverge', what)
        self.effects = effects      # list of (fnlabel, [show(args)], bbwhere)
        self.conds = conds          # opaque conditions [(text, truth)]
        self.trace = trace

    def describe(self):
        return {"region": self.zone.describe(), "opaque_conditions": ["%s=%s" % c for c in self.conds],
                "outcome": outcome_str(self.outcome), "effects": [e[0] + "(" + ", ".join(e[1]) + ")" for e in self.effects]}


def outcome_str(o):
    if o[0] == "return":
        return "return " + show(o[1])
    return "%s: %s" % (o[0], o[1])


class State:
    __slots__ = ("locals", "zone", "effects", "conds", "trace", "visits", "fresh")

    def copy(self):
        s = State()
        s.locals = dict(self.locals)
        s.zone = self.zone.copy()
        s.effects = list(self.effects)
        s.conds = list(self.conds)
        s.trace = list(self.trace)
        s.visits = dict(self.visits)
        s.fresh = self.fresh
        return s


# ---------------------------------------------------------------------------

class Interp:
    def __init__(self, facts, assume=None, inline=None, max_paths=4000, max_visits=2, effect_calls=None,
                 sym_names=None):
        self.facts = facts
        self.assume = assume or []          # [(regex on symbol name, lo, hi)]
        self.inline = inline or (lambda name: False)
        self.max_paths = max_paths
        self.max_visits = max_visits
        self.paths = []
        self.imprecise = []                  # notes on lost precision
        self._fresh = 0
        self.sym_names = sym_names or {}
        self.cur_body = None

    # -- symbols --------------------------------------------------------
    def sym_for(self, st, name, ty):
        if name in self.sym_names:
            name = self.sym_names[name]
        else:
            for k, v in self.sym_names.items():     # "re:<regex>" keys: any spelling of the same quantity
                if k.startswith("re:") and re.search(k[3:], name):
                    name = v
                    break
        if name not in st.zone.syms:
            r = int_range(ty or "") or (-INF, INF)
            lo, hi = r
            for rx, alo, ahi in self.assume:
                if re.search(rx, name):
                    lo, hi = max(lo, alo), min(hi, ahi)
            if lo != -INF:
                st.zone.add(None, name, -lo)
            if hi != INF:
                st.zone.add(name, None, hi)
        return name

    def fresh_sym(self, st, hint, lo, hi):
        self._fresh += 1
        name = "%s#%d" % (hint, self._fresh)
        if lo != -INF:
            st.zone.add(None, name, -lo)
        if hi != INF:
            st.zone.add(name, None, hi)
        return name

    def as_int(self, st, v, ty=None):
        """Coerce a value to an int value (objects of integer type become symbols)."""
        if v is None:
            return None
        n = 0
        while v.k == "ref" and n < 4:
            n += 1
            if self.cur_body is not None and v.target[0] == "local":
                v = self.read_target(st, v.target, self.cur_body)
            elif v.fields is not None:
                v = v.fields
            else:
                return None
        if v.k == "int":
            return v
        if v.k == "obj":
            t = v.ty or ty
            if int_range(t or "") is None and ty is not None:
                t = ty
            if int_range(t or "") is None:
                return None
            s = self.sym_for(st, v.path, t)
            return mk_int(Lin.sym(s), expr=s, ty=t)
        return None

    def lin_bounds(self, st, lin):
        lo = hi = lin.c
        for s, k in lin.t.items():
            a, b = st.zone.bounds(s)
            if k > 0:
                lo += k * a if a != -INF else -INF
                hi += k * b if b != INF else INF
            else:
                lo += k * b if b != INF else -INF
                hi += k * a if a != -INF else INF
        # difference refinement for x - y forms
        if len(lin.t) == 2:
            (s1, k1), (s2, k2) = list(lin.t.items())
            if k1 == 1 and k2 == -1:
                dl, dh = st.zone.diff_bounds(s1, s2)
                lo, hi = max(lo, dl + lin.c), min(hi, dh + lin.c)
            elif k1 == -1 and k2 == 1:
                dl, dh = st.zone.diff_bounds(s2, s1)
                lo, hi = max(lo, dl + lin.c), min(hi, dh + lin.c)
        return (lo, hi)

    # -- constraints ----------------------------------------------------
    def constrain_le0(self, st, d):
        """Refine st with d <= 0.  Returns False if the state became empty,
        None if the constraint is not representable (kept unrefined)."""
        if d.is_const():
            return d.c <= 0
        items = list(d.t.items())
        if len(items) == 1:
            (s, k), = items
            if k == 1:
                st.zone.add(s, None, -d.c)
            elif k == -1:
                st.zone.add(None, s, -d.c)
            else:
                # k·s + c <= 0
                if k > 0:
                    st.zone.add(s, None, (-d.c) // k)
                else:
                    st.zone.add(None, s, -_ceil_div(d.c, -k))
            return not st.zone.empty
        if len(items) == 2:
            (s1, k1), (s2, k2) = items
            if k1 == 1 and k2 == -1:
                st.zone.add(s1, s2, -d.c)
                return not st.zone.empty
            if k1 == -1 and k2 == 1:
                st.zone.add(s2, s1, -d.c)
                return not st.zone.empty
        lo, hi = self.lin_bounds(st, d)
        if hi <= 0:
            return True
        if lo > 0:
            return False
        return None

    def fork_cmp(self, st, rel, a, b):
        """-> list of (state, truth) for the comparison a rel b."""
        d = a.sub(b)       # a - b
        out = []

        def branch(cons_list, truth):
            s2 = st.copy()
            ok = True
            for c in cons_list:
                r = self.constrain_le0(s2, c)
                if r is False:
                    ok = False
                    break
                if r is None:
                    self.imprecise.append("constraint %r <= 0 not representable" % (c,))
                    s2.conds.append(("%r<=0" % (c,), True))
            if ok and not s2.zone.empty:
                out.append((s2, truth))
        one = Lin.const(1)
        if rel == "lt":     # a - b <= -1
            branch([d.add(one)], True)
            branch([d.neg()], False)
        elif rel == "le":
            branch([d], True)
            branch([d.neg().add(one)], False)
        elif rel == "gt":
            branch([d.neg().add(one)], True)
            branch([d], False)
        elif rel == "ge":
            branch([d.neg()], True)
            branch([d.add(one)], False)
        elif rel == "eq":
            branch([d, d.neg()], True)
            branch([d.add(one)], False)
            branch([d.neg().add(one)], False)
        elif rel == "ne":
            branch([d, d.neg()], False)
            branch([d.add(one)], True)
            branch([d.neg().add(one)], True)
        return out

    # -- places ---------------------------------------------------------
    def read_local(self, st, body, l):
        if l in st.locals:
            return st.locals[l]
        if 1 <= l <= body.arg_count:
            name = body.local_name(l) or "_%d" % l
            v = mk_obj(name, body.local_ty(l))
            st.locals[l] = v
            return v
        return TOP

    def project(self, st, base, p, body):
        k = p[0]
        if base is None:
            return TOP
        if k == "d":
            if base.k == "ref":
                return self.read_target(st, base.target, body)
            return base      # objects: deref is transparent
        if k == "f":
            name = p[1]
            fty = p[3] if len(p) > 3 else None
            if base.k == "struct":
                if name in base.fields:
                    return base.fields[name]
                return TOP
            if base.k == "tuple":
                i = int(name)
                return base.fields[i] if i < len(base.fields) else TOP
            if base.k == "variant":
                i = int(name) if name.isdigit() else name
                fs = base.fields or {}
                if i in fs:
                    return fs[i]
                if base.path:
                    return mk_obj("%s↓%s.%s" % (base.path, base.vname, name), fty)
                return TOP
            if base.k == "obj":
                return mk_obj("%s.%s" % (base.path, name), fty)
            if base.k == "closure":
                i = int(name)
                return base.fields[i] if i < len(base.fields) else TOP
            return TOP
        if k in ("ci", "i"):
            if base.k == "tuple" and k == "ci" and not p[3] and p[1] < len(base.fields):
                return base.fields[p[1]]
            if base.k == "obj":
                idx = ("%s%d" % ("-" if p[3] else "", p[1])) if k == "ci" else show(self.read_local(st, body, p[1]))
                return mk_obj("%s[%s]" % (base.path, idx), _elem_ty(base.ty))
            return TOP
        if k == "dc":
            if base.k == "variant":
                return base
            if base.k == "obj":
                return V("variant", adt=None, vidx=p[2], vname=p[1], fields={}, path=base.path)
            return TOP
        return TOP

    def read_target(self, st, target, body):
        kind = target[0]
        if kind == "value":
            return target[1]
        if kind == "local":
            _, l, projs = target
            v = self.read_local(st, body, l)
            for p in projs:
                v = self.project(st, v, p, body)
            return v
        return TOP

    def read_place(self, st, body, pl):
        v = self.read_local(st, body, pl["l"])
        for p in pl["p"]:
            v = self.project(st, v, p, body)
        return v

    def write_place(self, st, body, pl, val):
        if not pl["p"]:
            st.locals[pl["l"]] = val
            return
        # write through a projection
        base = self.read_local(st, body, pl["l"])
        projs = pl["p"]
        # writes through a reference to a local
        if projs[0][0] == "d" and base.k == "ref" and base.target[0] == "local":
            _, l, tp = base.target
            self.write_place(st, body, {"l": l, "p": list(tp) + projs[1:]}, val)
            return
        if len(projs) == 1 and projs[0][0] == "f":
            name = projs[0][1]
            if base.k == "tuple":
                fs = list(base.fields)
                i = int(name)
                while len(fs) <= i:
                    fs.append(TOP)
                fs[i] = val
                st.locals[pl["l"]] = V("tuple", fields=fs)
                return
            if base.k == "struct":
                fs = dict(base.fields)
                fs[name] = val
                st.locals[pl["l"]] = V("struct", adt=base.adt, fields=fs)
                return
            if base.k == "top":
                st.locals[pl["l"]] = V("struct", adt=None, fields={name: val})
                return
        if len(projs) == 2 and projs[0][0] == "dc" and projs[1][0] == "f":
            # variant field initialisation (deaggregated)
            i = int(projs[1][1]) if projs[1][1].isdigit() else projs[1][1]
            if base.k == "variant" and base.vidx == projs[0][2]:
                fs = dict(base.fields or {})
            else:
                fs = {}
            fs[i] = val
            st.locals[pl["l"]] = V("variant", vidx=projs[0][2], vname=projs[0][1], fields=fs)
            return
        # unknown write: havoc the local
        st.locals[pl["l"]] = TOP

    # -- operands -------------------------------------------------------
    def operand(self, st, body, op):
        if "c" in op:
            return self.read_place(st, body, op["c"])
        if "m" in op:
            return self.read_place(st, body, op["m"])
        if "k" in op:
            k = op["k"]
            if "fn" in k:
                return V("fn", path=k.get("res") or k["fn"])
            if "v" in k:
                return mk_const(k["v"], k.get("ty"))
            if k.get("bytes") is not None:
                return V("bytes", path=bytes(k["bytes"]))
            if "promoted" in k:
                pb = body.promoted[k["promoted"]]
                sub = Interp(self.facts, self.assume, self.inline)
                ps = sub.run_body(pb, [])
                if len(ps) == 1 and ps[0].outcome[0] == "return":
                    v = ps[0].outcome[1]
                    # a promoted is a reference to a constant: drop the reference
                    if v.k == "ref":
                        return v.fields if v.fields is not None else TOP
                    return v
                return TOP
            if "cdef" in k:
                c = self.facts.consts.get(k["cdef"])
                if c and "v" in c:
                    return mk_const(c["v"], c.get("ty"))
                if c and c.get("fields"):
                    return V("struct", adt=c.get("ty"), fields={n: mk_const(v) for n, v in c["fields"].items()})
                return mk_obj(short(k["cdef"]), k.get("ty"))
            if k.get("ty") == "()":
                return UNIT
            return mk_obj("const:%s" % (k.get("dbg") or k.get("ty")), k.get("ty"))
        return TOP

    # -- rvalues --------------------------------------------------------
    def rvalue(self, st, body, rv, dest_ty):
        """-> list of (state, value) (comparisons fork)."""
        r = rv["r"]
        if r == "use":
            return [(st, self.operand(st, body, rv["op"]))]
        if r in ("ref", "rawptr"):
            pl = rv["pl"]
            # reference to a local place: keep a pointer, remember the current value for promoteds
            cur = self.read_place(st, body, pl)
            if cur.k == "obj" or (pl["p"] and pl["p"][0][0] == "d" and self.read_local(st, body, pl["l"]).k != "ref"):
                return [(st, cur)]
            v = V("ref", target=("local", pl["l"], tuple(tuple(p) for p in pl["p"])))
            v.fields = cur
            return [(st, v)]
        if r == "cast":
            v = self.operand(st, body, rv["op"])
            ck = rv["ck"]
            if ck in ("PointerCoercion", "PtrToPtr", "Transmute", "Subtype"):
                return [(st, v)]
            if ck == "IntToInt":
                iv = self.as_int(st, v, rv.get("from"))
                tr = int_range(rv["ty"])
                if iv is not None and tr is not None and iv.lin is not None:
                    lo, hi = self.lin_bounds(st, iv.lin)
                    if lo >= tr[0] and hi <= tr[1]:
                        return [(st, mk_int(iv.lin, expr=iv.expr, ty=rv["ty"]))]
                    s = self.fresh_sym(st, "cast", tr[0], tr[1])
                    return [(st, mk_int(Lin.sym(s), expr="(%s as %s)" % (show(iv), rv["ty"]), ty=rv["ty"]))]
            return [(st, mk_obj("(%s as %s)" % (show(v), rv["ty"]), rv["ty"]))]
        if r == "bin":
            return self.binop(st, body, rv, dest_ty)
        if r == "un":
            a = self.operand(st, body, rv["a"])
            if rv["uop"] == "Not":
                ia = self.as_int(st, a, rv.get("oty"))
                if rv.get("oty") == "bool" and ia is not None and ia.lin is not None:
                    return [(st, mk_int(Lin.const(1).sub(ia.lin), expr="!%s" % show(ia), ty="bool"))]
                return [(st, mk_obj("!%s" % show(a), rv.get("oty")))]
            if rv["uop"] == "Neg":
                ia = self.as_int(st, a, rv.get("oty"))
                if ia is not None and ia.lin is not None:
                    return [(st, mk_int(ia.lin.neg(), ty=rv.get("oty")))]
            if rv["uop"] == "PtrMetadata":
                return [(st, mk_obj("len(%s)" % show(a), "usize"))]
            return [(st, mk_obj("%s(%s)" % (rv["uop"], show(a)), rv.get("oty")))]
        if r == "discr":
            v = self.read_place(st, body, rv["pl"])
            if v.k == "variant":
                return [(st, mk_const(v.vidx, "isize"))]
            if v.k == "obj":
                d = V("obj", path="discr(%s)" % v.path, ty="discr")
                d.target = ("discr_of", rv["pl"], v)
                return [(st, d)]
            if v.k == "int" and v.lin is not None and v.lin.is_const():
                return [(st, v)]
            return [(st, TOP)]
        if r == "agg":
            ops = [self.operand(st, body, o) for o in rv["ops"]]
            ak = rv["ak"]
            if ak == "tuple":
                return [(st, V("tuple", fields=ops))]
            if ak == "adt":
                adt = self.facts.adts.get(rv["adt"])
                is_enum = rv["adt"].startswith("std::option::Option") or rv["adt"].startswith("std::result::Result") or \
                    (adt is not None and adt["kind"] == "Enum") or (adt is None and rv["variant"] not in (rv["adt"].split("::")[-1],))
                if is_enum:
                    return [(st, V("variant", adt=rv["adt"], vidx=rv["vidx"], vname=rv["variant"],
                                   fields={i: o for i, o in enumerate(ops)}))]
                fs = rv["fields"]
                if len(fs) != len(ops):
                    fs = [str(i) for i in range(len(ops))]
                return [(st, V("struct", adt=rv["adt"], fields=dict(zip(fs, ops))))]
            if ak in ("closure", "coroutine"):
                c = V("closure", path=rv["def"])
                c.fields = ops
                return [(st, c)]
            if ak == "array":
                return [(st, V("tuple", fields=ops))]
            return [(st, TOP)]
        if r == "repeat":
            return [(st, mk_obj("[%s; %s]" % (show(self.operand(st, body, rv["op"])), rv["n"])))]
        return [(st, TOP)]

    def binop(self, st, body, rv, dest_ty):
        op = rv["bop"]
        oty = rv.get("oty")
        a = self.operand(st, body, rv["a"])
        b = self.operand(st, body, rv["b"])
        ia, ib = self.as_int(st, a, oty), self.as_int(st, b, oty)
        rels = {"Eq": "eq", "Ne": "ne", "Lt": "lt", "Le": "le", "Gt": "gt", "Ge": "ge"}
        if op in rels:
            if ia is not None and ib is not None and ia.lin is not None and ib.lin is not None:
                out = []
                for s2, truth in self.fork_cmp(st, rels[op], ia.lin, ib.lin):
                    out.append((s2, mk_const(1 if truth else 0, "bool")))
                return out
            return [(st, mk_obj("%s(%s, %s)" % (op, show(a), show(b)), "bool"))]
        base = op.replace("WithOverflow", "").replace("Unchecked", "")
        with_of = op.endswith("WithOverflow")
        tr = int_range(oty or "")
        if ia is None or ib is None or ia.lin is None or ib.lin is None:
            v = mk_obj("%s(%s, %s)" % (base, show(a), show(b)), oty)
            if with_of:
                return [(st, V("tuple", fields=[v, mk_obj("overflow(%s)" % show(v), "bool")]))]
            return [(st, v)]
        expr = "%s(%s, %s)" % (base, show(ia), show(ib))
        res = None
        if base == "Add":
            res = ia.lin.add(ib.lin)
        elif base == "Sub":
            res = ia.lin.sub(ib.lin)
        elif base == "Mul":
            if ib.lin.is_const():
                res = ia.lin.scale(ib.lin.c)
            elif ia.lin.is_const():
                res = ib.lin.scale(ia.lin.c)
        if res is not None:
            if len(res.t) > 2 or any(abs(k) != 1 for k in res.t.values()) or \
                    (len(res.t) == 2 and sum(res.t.values()) != 0):
                # not zone-representable: fresh symbol with interval bounds
                lo, hi = self.lin_bounds(st, res)
                s = self.fresh_sym(st, "t", lo, hi)
                self.imprecise.append("%s kept as interval [%s,%s]" % (expr, _fmt(lo), _fmt(hi)))
                res = Lin.sym(s)
            if with_of and tr is not None:
                out = []
                # no overflow: tr.lo <= res <= tr.hi
                s_ok = st.copy()
                r1 = self.constrain_le0(s_ok, res.sub(Lin.const(tr[1])))
                r2 = self.constrain_le0(s_ok, Lin.const(tr[0]).sub(res)) if r1 is not False else False
                if r1 is not False and r2 is not False and not s_ok.zone.empty:
                    out.append((s_ok, V("tuple", fields=[mk_int(res, expr=expr, ty=oty), mk_const(0, "bool")])))
                # overflow above
                s_hi = st.copy()
                r = self.constrain_le0(s_hi, Lin.const(tr[1] + 1).sub(res))
                if r is not False and not s_hi.zone.empty:
                    out.append((s_hi, V("tuple", fields=[mk_obj("wrapped(%s)" % expr, oty), mk_const(1, "bool")])))
                s_lo = st.copy()
                r = self.constrain_le0(s_lo, res.sub(Lin.const(tr[0] - 1)))
                if r is not False and not s_lo.zone.empty:
                    out.append((s_lo, V("tuple", fields=[mk_obj("wrapped(%s)" % expr, oty), mk_const(1, "bool")])))
                return out
            return [(st, mk_int(res, expr=expr, ty=oty))]
        # bit operations etc.: interval result where cheap, symbolic expr kept
        lo, hi = (tr if tr else (-INF, INF))
        la, ha = self.lin_bounds(st, ia.lin)
        lb, hb = self.lin_bounds(st, ib.lin)
        if ia.lin.is_const() and ib.lin.is_const():
            x, y = ia.lin.c, ib.lin.c
            val = None
            try:
                if base == "BitAnd":
                    val = x & y
                elif base == "BitOr":
                    val = x | y
                elif base == "BitXor":
                    val = x ^ y
                elif base == "Shl":
                    val = (x << y) & (tr[1] if tr and tr[0] == 0 else (1 << 200) - 1)
                elif base == "Shr":
                    val = x >> y
                elif base == "Div" and y != 0:
                    val = x // y
                elif base == "Rem" and y != 0:
                    val = x % y
            except Exception:
                val = None
            if val is not None:
                return [(st, mk_const(val, oty))]
        # x ^ all-ones == MAX - x (linear)
        if base == "BitXor" and tr is not None and tr[0] == 0:
            for x, y in ((ia, ib), (ib, ia)):
                if y.lin.is_const() and y.lin.c == tr[1]:
                    return [(st, mk_int(Lin.const(tr[1]).sub(x.lin), expr="BitXor(%s, %s)" % (show(x), _fmt(tr[1])), ty=oty))]
        # small ranges: the abstract transformer is computed exactly over the interval
        if base in ("BitAnd", "BitOr", "BitXor", "Shl", "Shr", "Rem", "Div") and ib.lin.is_const() and la != -INF and ha != INF \
                and la >= 0 and ha - la <= 4096:
            y = ib.lin.c
            vals = set()
            for x in range(int(la), int(ha) + 1):
                if base == "BitAnd":
                    vals.add(x & y)
                elif base == "BitOr":
                    vals.add(x | y)
                elif base == "BitXor":
                    vals.add(x ^ y)
                elif base == "Shl":
                    vals.add((x << y) & (tr[1] if tr and tr[0] == 0 else (1 << 200) - 1))
                elif base == "Shr":
                    vals.add(x >> y)
                elif base == "Rem" and y > 0:
                    vals.add(x % y)
                elif base == "Div" and y > 0:
                    vals.add(x // y)
            if len(vals) == 1:
                return [(st, mk_const(vals.pop(), oty))]
            if vals:
                s = self.fresh_sym(st, "t", min(vals), max(vals))
                v = mk_int(Lin.sym(s), expr=expr, ty=oty)
                if with_of:
                    return [(st, V("tuple", fields=[v, mk_const(0, "bool")]))]
                return [(st, v)]
        if base == "BitAnd" and ib.lin.is_const() and ib.lin.c >= 0:
            hi = min(hi, ib.lin.c)
            lo = max(lo, 0)
        elif base == "Shr" and ib.lin.is_const() and la >= 0 and ha != INF:
            lo, hi = la >> ib.lin.c, ha >> ib.lin.c
        elif base == "Rem" and ib.lin.is_const() and ib.lin.c > 0 and la >= 0:
            lo, hi = 0, ib.lin.c - 1
        elif base == "Div" and ib.lin.is_const() and ib.lin.c > 0 and la >= 0 and ha != INF:
            lo, hi = la // ib.lin.c, ha // ib.lin.c
        s = self.fresh_sym(st, "t", lo, hi)
        v = mk_int(Lin.sym(s), expr=expr, ty=oty)
        if with_of:
            return [(st, V("tuple", fields=[v, mk_const(0, "bool")]))]
        return [(st, v)]

    # -- calls ----------------------------------------------------------
    def call(self, st, body, t, bb):
        """-> list of (state, value or None if diverges)."""
        f = t["func"]
        k = f.get("k") if isinstance(f, dict) else None
        args = [self.operand(st, body, a) for a in t["args"]]
        if not k or "fn" not in k:
            return [(st, mk_obj("indirect_call"))]
        res = k.get("res") or k["fn"]
        name = k.get("name")
        trait = k.get("trait")
        label = short(res)
        aty = [None] * len(args)
        r = self.summary(st, body, k, res, name, trait, args, t, bb)
        if r is not None:
            return r
        # user function inlining
        if res in self.facts.bodies and self.inline(res):
            return self.inline_call(st, self.facts.bodies[res], args)
        # closure call through FnOnce/FnMut/Fn
        if name in ("call_once", "call_mut", "call") and args and args[0].k in ("closure", "fn"):
            tgt = args[0]
            actual = args[1].fields if len(args) > 1 and args[1].k == "tuple" else args[1:]
            if tgt.k == "closure" and tgt.path in self.facts.bodies:
                return self.inline_call(st, self.facts.bodies[tgt.path], [tgt] + list(actual))
            if tgt.k == "fn" and tgt.path in self.facts.bodies and self.inline(tgt.path):
                return self.inline_call(st, self.facts.bodies[tgt.path], list(actual))
        # a constant prefix / suffix / sub-range of an array whose elements are known is the array of those elements
        if name == "index" and len(args) == 2 and args[1].k == "struct" and "ops::Range" in (args[1].adt or ""):
            arr = args[0]
            n_ = 0
            while arr is not None and arr.k == "ref" and n_ < 4:
                n_ += 1
                arr = arr.fields if isinstance(arr.fields, V) else None
            if arr is not None and arr.k == "tuple" and arr.fields is not None and all(isinstance(e_, V) for e_ in arr.fields):
                def cst(v):
                    if v is None:
                        return None
                    if not (isinstance(v, V) and v.k == "int"):
                        return "?"
                    lo_, hi_ = self.lin_bounds(st, v.lin)
                    return lo_ if lo_ == hi_ else "?"
                fl = args[1].fields or {}
                a0, a1 = cst(fl.get("start")), cst(fl.get("end"))
                if a0 != "?" and a1 != "?":
                    lo_ = 0 if a0 is None else a0
                    hi_ = len(arr.fields) if a1 is None else (a1 + 1 if "Inclusive" in args[1].adt else a1)
                    if 0 <= lo_ <= hi_ <= len(arr.fields):
                        return [(st, V("tuple", fields=list(arr.fields[lo_:hi_])))]
        # appending a slice whose elements are known is pushing them one after the other
        if label == "Vec::extend_from_slice" and len(args) == 2:
            sl = args[1]
            n_ = 0
            while sl is not None and sl.k == "ref" and n_ < 4:
                n_ += 1
                sl = sl.fields if isinstance(sl.fields, V) else None
            if sl is not None and sl.k == "tuple" and sl.fields and all(isinstance(e_, V) and e_.k == "int" for e_ in sl.fields):
                for e_ in sl.fields:
                    st.effects.append(("Vec::push", [show(args[0]), show(e_)], body.where(bb)))
                return [(st, UNIT)]
        # opaque call: record effect, havoc &mut locals
        st.effects.append((label, [show(a) for a in args], body.where(bb)))
        for a, op in zip(args, t["args"]):
            if a.k == "ref" and a.target[0] == "local":
                # conservatively forget what the callee may have written
                pass
        if t.get("target") is None:
            return [(st, None)]
        ret_ty = body.local_ty(t["dest"]["l"]) if not t["dest"]["p"] else None
        return [(st, mk_obj("%s(%s)" % (label, ", ".join(show(a) for a in args)), ret_ty))]

    def apply_fn(self, st, fnv, actual):
        """Call a closure / fn value abstractly."""
        if fnv.k == "closure" and fnv.path in self.facts.bodies:
            return self.inline_call(st, self.facts.bodies[fnv.path], [fnv] + list(actual))
        if fnv.k == "fn" and fnv.path in self.facts.bodies:
            return self.inline_call(st, self.facts.bodies[fnv.path], list(actual))
        if fnv.k == "fn" and fnv.path and re.match(r"^(std|core|alloc)::", fnv.path):
            # a std function passed by name (`.map(Ordering::reverse)`): same summaries as a direct call
            k = {"fn": fnv.path, "res": fnv.path, "krate": "core", "res_krate": "core", "name": fnv.path.rsplit("::", 1)[-1]}
            try:
                r = self.summary(st, self.cur_body, k, fnv.path, k["name"], None, list(actual), None, None)
            except Exception:
                r = None
            if r:
                return r
        label = short(fnv.path) if fnv.path else "?"
        return [(st, mk_obj("%s(%s)" % (label, ", ".join(show(a) for a in actual))))]

    def inline_call(self, st, callee, args):
        sub = type(self)(self.facts, self.assume, self.inline, self.max_paths, self.max_visits, sym_names=self.sym_names)
        sub._fresh = self._fresh + 1000
        s0 = st.copy()
        s0.locals = {}
        # A closure that only reads its captures: a captured `&local` is resolved to the local's value here, in the
        # frame the local lives in (inside the callee the index would name another local).
        writes_caps = any(stt.get("s") == "assign" and stt["pl"]["l"] == 1 and stt["pl"]["p"]
                          for blk in callee.blocks for stt in blk["stmts"])
        fixed = []
        for a in args:
            if a is not None and a.k == "closure" and a.fields and not writes_caps and self.cur_body is not None:
                c2 = V("closure", path=a.path)
                nf = []
                for fv in a.fields:
                    if fv is not None and fv.k == "ref" and fv.target and fv.target[0] == "local":
                        nf.append(V("ref", target=("value", self.read_target(st, fv.target, self.cur_body))))
                    else:
                        nf.append(fv)
                c2.fields = nf
                a = c2
            fixed.append(a)
        for i, a in enumerate(fixed):
            s0.locals[i + 1] = a
        s0.visits = {}
        sub.explore(callee, s0, 0)
        out = []
        for p in sub.paths:
            s2 = st.copy()
            s2.zone = p.zone
            s2.effects = p.effects
            s2.conds = p.conds
            if p.outcome[0] == "return":
                out.append((s2, p.outcome[1]))
            else:
                s2.trace.append(("inlined %s %s" % (callee.name, p.outcome[0]), p.outcome[1]))
                out.append((s2, ("panic", p.outcome)))
        self.imprecise.extend(sub.imprecise)
        self._fresh = sub._fresh
        return out

    def summary(self, st, body, k, res, name, trait, args, t, bb):
        def ints(n):
            out = []
            for a in args[:n]:
                ia = self.as_int(st, a)
                if ia is None or ia.lin is None:
                    return None
                out.append(ia)
            return out
        krate = k.get("res_krate") or k.get("krate")
        std = krate in ("core", "alloc", "std")
        owner = res.rsplit("::", 1)[0]
        # transparent
        if name in ("clone", "deref", "as_ref", "borrow", "into", "from", "to_owned", "deref_mut", "as_mut") and len(args) == 1 and \
                (std or trait in ("std::clone::Clone", "std::ops::Deref", "std::convert::AsRef", "std::borrow::Borrow",
                                  "std::convert::Into", "std::convert::From")):
            if res in self.facts.bodies and not std:
                return None
            return [(st, args[0])]
        # integer comparisons
        if std and trait in ("std::cmp::PartialEq", "std::cmp::PartialOrd", "std::cmp::Ord") and len(args) == 2:
            xs = ints(2)
            if xs is not None:
                a, b = xs
                if name in ("eq", "ne", "lt", "le", "gt", "ge"):
                    return [(s2, mk_const(1 if tr else 0, "bool")) for s2, tr in self.fork_cmp(st, name, a.lin, b.lin)]
                if name in ("cmp", "partial_cmp"):
                    out = []
                    for s2, tr in self.fork_cmp(st, "lt", a.lin, b.lin):
                        if tr:
                            out.append((s2, V("variant", adt="std::cmp::Ordering", vidx=255, vname="Less", fields={})))
                        else:
                            for s3, tr2 in self.fork_cmp(s2, "eq", a.lin, b.lin):
                                if tr2:
                                    out.append((s3, V("variant", adt="std::cmp::Ordering", vidx=0, vname="Equal", fields={})))
                                else:
                                    out.append((s3, V("variant", adt="std::cmp::Ordering", vidx=1, vname="Greater", fields={})))
                    if name == "partial_cmp":
                        out = [(s, V("variant", adt="std::option::Option", vidx=1, vname="Some", fields={0: v})) for s, v in out]
                    return out
                if name in ("min", "max"):
                    out = []
                    for s2, tr in self.fork_cmp(st, "le", a.lin, b.lin):
                        out.append((s2, (a if tr else b) if name == "min" else (b if tr else a)))
                    return out
        if std and name in ("min", "max") and len(args) == 2 and \
                (trait == "std::cmp::Ord" or re.match(r"^(std|core)::cmp::(min|max)(::<.*>)?$", res or "")):
            # the method of Ord and the free functions std::cmp::min / max agree on integers; the free function's
            # generic argument says what is compared
            xs = ints(2)
            ga = k.get("ga") or []
            if xs is None and ga and ga[0] in INT_RANGES:
                xs = [self.as_int(st, a, ga[0]) for a in args[:2]]
                if any(x is None or x.lin is None for x in xs):
                    xs = None
            if xs is not None:
                a, b = xs
                out = []
                for s2, tr in self.fork_cmp(st, "le", a.lin, b.lin):
                    out.append((s2, (a if tr else b) if name == "min" else (b if tr else a)))
                return out
        # integer inherent methods
        m = re.match(r"^core::num::<impl (\w+)>::(\w+)$", res) or re.match(r"^std::num::<impl (\w+)>::(\w+)$", res) \
            or re.match(r"^(\w+)::(\w+)$", res)
        if m and m.group(1) in INT_RANGES and std:
            ity, meth = m.group(1), m.group(2)
            tr = INT_RANGES[ity]
            xs = ints(len(args))
            if xs is not None:
                if meth in ("checked_sub", "checked_add") and len(xs) == 2:
                    res_lin = xs[0].lin.sub(xs[1].lin) if meth == "checked_sub" else xs[0].lin.add(xs[1].lin)
                    out = []
                    s_ok = st.copy()
                    r1 = self.constrain_le0(s_ok, res_lin.sub(Lin.const(tr[1])))
                    r2 = self.constrain_le0(s_ok, Lin.const(tr[0]).sub(res_lin)) if r1 is not False else False
                    if r1 is not False and r2 is not False and not s_ok.zone.empty:
                        val = mk_int(res_lin, expr="%s(%s, %s)" % (meth, show(xs[0]), show(xs[1])), ty=ity)
                        if len(res_lin.t) > 2 or (len(res_lin.t) == 2 and sum(res_lin.t.values()) != 0):
                            lo, hi = self.lin_bounds(s_ok, res_lin)
                            val = mk_int(Lin.sym(self.fresh_sym(s_ok, "t", lo, hi)), expr=val.expr, ty=ity)
                        out.append((s_ok, V("variant", adt="std::option::Option", vidx=1, vname="Some", fields={0: val})))
                    for bad in (Lin.const(tr[1] + 1).sub(res_lin), res_lin.sub(Lin.const(tr[0] - 1))):
                        s_b = st.copy()
                        r = self.constrain_le0(s_b, bad)
                        if r is not False and not s_b.zone.empty:
                            out.append((s_b, V("variant", adt="std::option::Option", vidx=0, vname="None", fields={})))
                    return out
                if meth in ("checked_shl", "checked_shr") and len(xs) == 2:
                    # Some(x << n) exactly when n is smaller than the width of the type, None otherwise
                    bits = {"u8": 8, "i8": 8, "u16": 16, "i16": 16, "u32": 32, "i32": 32, "u64": 64, "i64": 64,
                            "u128": 128, "i128": 128, "usize": 64, "isize": 64}.get(ity)
                    if bits is not None:
                        out = []
                        for s2, lt in self.fork_cmp(st, "lt", xs[1].lin, Lin.const(bits)):
                            if lt:
                                val = mk_obj("%s(%s, %s)" % ("Shl" if meth == "checked_shl" else "Shr", show(xs[0]), show(xs[1])), ity)
                                out.append((s2, V("variant", adt="std::option::Option", vidx=1, vname="Some", fields={0: val})))
                            else:
                                out.append((s2, V("variant", adt="std::option::Option", vidx=0, vname="None", fields={})))
                        return out
                if meth == "saturating_sub" and len(xs) == 2:
                    d = xs[0].lin.sub(xs[1].lin)
                    out = []
                    for s2, tr2 in self.fork_cmp(st, "ge", d, Lin.const(tr[0])):
                        out.append((s2, mk_int(d, ty=ity) if tr2 else mk_const(tr[0], ity)))
                    return out
                if meth in ("to_be_bytes", "to_le_bytes") and len(xs) == 1 and tr[0] == 0:
                    # the octets of an unsigned number, most (least) significant first
                    n = {"u8": 1, "u16": 2, "u32": 4, "u64": 8, "u128": 16, "usize": 8}[ity]
                    bs = []
                    for i in range(n):
                        sh = 8 * (n - 1 - i)
                        if n == 1:
                            bs.append(xs[0])
                            continue
                        e = "Shr(%s, %d)" % (show(xs[0]), sh) if sh else show(xs[0])
                        if i > 0:
                            e = "(%s as u8)" % e
                        bs.append(mk_int(Lin.sym(self.fresh_sym(st, "byte", 0, 255)), expr=e, ty="u8"))
                    if meth == "to_le_bytes":
                        bs.reverse()
                    return [(st, V("tuple", fields=bs))]
                if meth in ("to_be", "from_be", "to_le", "from_le", "swap_bytes"):
                    return [(st, mk_obj("%s(%s)" % (meth, show(xs[0])), ity))]
                if meth == "wrapping_sub" and tr[0] == 0 and len(xs) == 2:
                    d = xs[0].lin.sub(xs[1].lin)
                    if len(d.t) <= 2 and all(abs(k_) == 1 for k_ in d.t.values()) and sum(d.t.values()) in (0, 1, -1):
                        out = []
                        for s2, ge in self.fork_cmp(st, "ge", xs[0].lin, xs[1].lin):
                            out.append((s2, mk_int(d if ge else d.add(Lin.const(tr[1] + 1)), ty=ity)))
                        return out
                if meth in ("wrapping_add", "wrapping_sub"):
                    return [(st, mk_obj("%s(%s, %s)" % (meth, show(xs[0]), show(xs[1])), ity))]
                if meth in ("overflowing_add", "overflowing_sub") and len(xs) == 2:
                    # (the wrapped result, whether it wrapped): `.0` is exactly wrapping_add / wrapping_sub
                    w = mk_obj("%s(%s, %s)" % (meth.replace("overflowing", "wrapping"), show(xs[0]), show(xs[1])), ity)
                    return [(st, V("tuple", fields=[w, mk_obj("%s(%s, %s).1" % (meth, show(xs[0]), show(xs[1])), "bool")]))]
                if meth in ASCII_CLASSES and len(xs) == 1:
                    return self.in_ranges(st, xs[0].lin, ASCII_CLASSES[meth])
        # integer `TryFrom` between primitive integer types: Ok(the same number) exactly when it fits the target type
        mt = re.search(r"<impl std::convert::TryFrom<(\w+)> for (\w+)>::try_from$", res)
        if std and mt and mt.group(1) in INT_RANGES and mt.group(2) in INT_RANGES and len(args) == 1:
            xs = ints(1)
            if xs is not None:
                x = xs[0]
                tr = INT_RANGES[mt.group(2)]
                out = []
                s_ok = st.copy()
                r1 = self.constrain_le0(s_ok, x.lin.sub(Lin.const(tr[1])))
                r2 = self.constrain_le0(s_ok, Lin.const(tr[0]).sub(x.lin)) if r1 is not False else False
                if r1 is not False and r2 is not False and not s_ok.zone.empty:
                    out.append((s_ok, V("variant", adt="std::result::Result", vidx=0, vname="Ok",
                                        fields={0: mk_int(x.lin, expr=x.expr, ty=mt.group(2))})))
                for bad in (Lin.const(tr[1] + 1).sub(x.lin), x.lin.sub(Lin.const(tr[0] - 1))):
                    s_b = st.copy()
                    r = self.constrain_le0(s_b, bad)
                    if r is not False and not s_b.zone.empty:
                        out.append((s_b, V("variant", adt="std::result::Result", vidx=1, vname="Err",
                                           fields={0: mk_obj("TryFromIntError")})))
                return out
        # `cond.then(|| v)` / `cond.then_some(v)`: Some(v) when cond, None otherwise
        if std and name in ("then", "then_some") and len(args) == 2 and (res.endswith("bool::then") or res.endswith("bool::then_some")
                                                                     or re.search(r"<impl bool>::then(_some)?$", res)):
            c = self.as_int(st, args[0], "bool")
            none_v = V("variant", adt="std::option::Option", vidx=0, vname="None", fields={})
            if c is not None and c.lin is not None:
                out = []
                for s2, tr in self.fork_cmp(st, "ge", c.lin, Lin.const(1)):
                    if not tr:
                        out.append((s2, none_v))
                    elif name == "then_some":
                        out.append((s2, V("variant", adt="std::option::Option", vidx=1, vname="Some", fields={0: args[1]})))
                    else:
                        for s3, r in self.apply_fn(s2, args[1], []):
                            out.append((s3, r if isinstance(r, tuple) else V("variant", adt="std::option::Option", vidx=1, vname="Some", fields={0: r})))
                return out
        # ranges: `(a..=b).contains(&x)`, `(a..b).contains(&x)` are `a <= x && x <= b` / `a <= x && x < b`
        if std and name == "new" and re.search(r"ops::RangeInclusive::<.*>::new$|ops::range::RangeInclusive::<.*>::new$", res) and len(args) == 2:
            return [(st, V("struct", adt="std::ops::RangeInclusive", fields={"start": args[0], "end": args[1]}))]
        if std and name == "contains" and len(args) == 2 and re.search(r"ops::(range::)?Range(Inclusive)?::<", res):
            rg = args[0]
            n_ = 0
            while rg is not None and rg.k == "ref" and n_ < 4:
                n_ += 1
                rg = self.read_target(st, rg.target, self.cur_body) if (self.cur_body is not None and rg.target[0] == "local") else rg.fields
            if rg is not None and rg.k == "struct" and rg.fields is not None and "start" in rg.fields and "end" in rg.fields:
                lo, hi, x = self.as_int(st, rg.fields["start"]), self.as_int(st, rg.fields["end"]), self.as_int(st, args[1])
                if lo is not None and hi is not None and x is not None and None not in (lo.lin, hi.lin, x.lin):
                    incl = "Inclusive" in res
                    out = []
                    for s2, ge in self.fork_cmp(st, "le", lo.lin, x.lin):
                        if not ge:
                            out.append((s2, mk_const(0, "bool")))
                            continue
                        for s3, le in self.fork_cmp(s2, "le" if incl else "lt", x.lin, hi.lin):
                            out.append((s3, mk_const(1 if le else 0, "bool")))
                    return out
        # cmp::Ordering helpers on concrete variants (documented value tables)
        if std and args and args[0].k == "variant" and args[0].vname in ("Less", "Equal", "Greater") \
                and (owner.startswith("std::cmp::Ordering") or res.startswith("std::cmp::Ordering::") or res.startswith("core::cmp::Ordering::")):
            o = args[0].vname
            mkord = lambda n: V("variant", adt="std::cmp::Ordering", vidx={"Less": 255, "Equal": 0, "Greater": 1}[n], vname=n, fields={})
            if name == "reverse" and len(args) == 1:
                return [(st, mkord({"Less": "Greater", "Equal": "Equal", "Greater": "Less"}[o]))]
            tests = {"is_eq": ("Equal",), "is_ne": ("Less", "Greater"), "is_lt": ("Less",), "is_gt": ("Greater",),
                     "is_le": ("Less", "Equal"), "is_ge": ("Greater", "Equal")}
            if name in tests and len(args) == 1:
                return [(st, mk_const(1 if o in tests[name] else 0, "bool"))]
            if name == "then" and len(args) == 2:
                return [(st, args[1] if o == "Equal" else args[0])]
            if name == "then_with" and len(args) == 2:
                if o != "Equal":
                    return [(st, args[0])]
                return self.apply_fn(st, args[1], [])
        # Option / Result helpers on concrete variants
        if std and owner.startswith("std::option::Option") and args and args[0].k == "variant":
            v = args[0]
            if name == "is_some":
                return [(st, mk_const(1 if v.vname == "Some" else 0, "bool"))]
            if name == "is_none":
                return [(st, mk_const(1 if v.vname == "None" else 0, "bool"))]
            if name in ("unwrap", "expect"):
                if v.vname == "Some":
                    return [(st, (v.fields or {}).get(0, TOP))]
                return [(st, ("panic", ("panic", "unwrap on None", body.where(bb))))]
            if name == "unwrap_or" and len(args) == 2:
                return [(st, (v.fields or {}).get(0, TOP) if v.vname == "Some" else args[1])]
        if std and owner.startswith("std::option::Option") and args and args[0].k == "obj" and name in ("is_some", "is_none"):
            out = []
            for vidx, vname in ((0, "None"), (1, "Some")):
                s2 = st.copy()
                s2.conds.append(("%s is %s" % (args[0].path, vname), True))
                self._refine_obj(s2, body, t["args"][0], args[0], vidx, vname)
                truth = (vname == "Some") == (name == "is_some")
                out.append((s2, mk_const(1 if truth else 0, "bool")))
            return out
        if std and owner.startswith("std::option::Option") and name in ("map", "and_then", "unwrap_or_else", "map_or", "is_some_and") \
                and args and args[0].k in ("variant", "obj"):
            opt = args[0]
            cases = []
            if opt.k == "variant":
                cases.append((st, opt))
            else:
                for vidx, vname in ((0, "None"), (1, "Some")):
                    s2 = st.copy()
                    s2.conds.append(("%s is %s" % (opt.path, vname), True))
                    cases.append((s2, V("variant", vidx=vidx, vname=vname, fields={}, path=opt.path)))
            out = []
            none_v = V("variant", adt="std::option::Option", vidx=0, vname="None", fields={})
            for s2, v in cases:
                is_some = v.vname == "Some"
                payload = (v.fields or {}).get(0)
                if is_some and payload is None:
                    payload = mk_obj("%s↓Some.0" % v.path) if v.path else TOP
                if name == "map":
                    if not is_some:
                        out.append((s2, none_v))
                    else:
                        for s3, r in self.apply_fn(s2, args[1], [payload]):
                            out.append((s3, r if isinstance(r, tuple) else V("variant", adt="std::option::Option", vidx=1, vname="Some", fields={0: r})))
                elif name == "and_then":
                    if not is_some:
                        out.append((s2, none_v))
                    else:
                        out.extend(self.apply_fn(s2, args[1], [payload]))
                elif name == "unwrap_or_else":
                    if is_some:
                        out.append((s2, payload))
                    else:
                        out.extend(self.apply_fn(s2, args[1], []))
                elif name == "map_or":
                    if is_some:
                        out.extend(self.apply_fn(s2, args[2], [payload]))
                    else:
                        out.append((s2, args[1]))
                elif name == "is_some_and":
                    if is_some:
                        out.extend(self.apply_fn(s2, args[1], [payload]))
                    else:
                        out.append((s2, mk_const(0, "bool")))
            return out
        if trait == "std::ops::Try" and name == "branch" and args and args[0].k == "variant":
            v = args[0]
            if v.vname in ("Ok", "Some"):
                return [(st, V("variant", adt="ControlFlow", vidx=0, vname="Continue", fields={0: (v.fields or {}).get(0, UNIT)}))]
            return [(st, V("variant", adt="ControlFlow", vidx=1, vname="Break", fields={0: v}))]
        if trait == "std::ops::FromResidual" and name == "from_residual" and args:
            v = args[0]
            if v.k == "variant":
                return [(st, v)]
        if name == "len" and std and len(args) == 1:
            return [(st, mk_obj("len(%s)" % show(args[0]), "usize"))]
        if name == "is_empty" and std and len(args) == 1 and (owner.startswith("core::slice") or owner.startswith("core::str")
                                                               or "slice" in res or owner.startswith("std::vec") or "str" in res):
            ln = self.as_int(st, mk_obj("len(%s)" % show(args[0]), "usize"))
            return [(s2, mk_const(1 if tr else 0, "bool")) for s2, tr in self.fork_cmp(st, "eq", ln.lin, Lin.const(0))]
        # panics
        if res.startswith("core::panicking::") or res.startswith("std::rt::begin_panic") or \
                res in ("std::option::unwrap_failed", "std::result::unwrap_failed", "core::option::expect_failed"):
            return [(st, ("panic", ("panic", short(res), body.where(bb))))]
        return None

    def in_ranges(self, st, lin, ranges):
        """Fork on membership of `lin` in a union of closed ranges -> [(state, bool const)]."""
        out = []
        rest = [st]
        for lo, hi in ranges:
            nrest = []
            for s1 in rest:
                for s2, ge in self.fork_cmp(s1, "ge", lin, Lin.const(lo)):
                    if not ge:
                        nrest.append(s2)
                        continue
                    for s3, le in self.fork_cmp(s2, "le", lin, Lin.const(hi)):
                        if le:
                            out.append((s3, mk_const(1, "bool")))
                        else:
                            nrest.append(s3)
            rest = nrest
        for s1 in rest:
            out.append((s1, mk_const(0, "bool")))
        return out

    def _refine_obj(self, st, body, op, objv, vidx, vname):
        pl = op.get("c") or op.get("m")
        if not pl:
            return
        newv = V("variant", vidx=vidx, vname=vname, fields={}, path=objv.path)
        # find the local place the object was read from (through refs)
        base = st.locals.get(pl["l"])
        if base is not None and base.k == "ref" and base.target[0] == "local":
            _, l, projs = base.target
            self.write_place(st, body, {"l": l, "p": [list(p) for p in projs]}, newv)
        elif not [p for p in pl["p"] if p[0] != "d"]:
            st.locals[pl["l"]] = newv

    # -- exploration ----------------------------------------------------
    def run(self, fname, args=None):
        body = self.facts.body(fname)
        if body is None:
            raise Unsupported("no body for " + fname)
        return self.run_body(body, args)

    def run_body(self, body, args=None):
        st = State()
        st.locals = {}
        st.zone = Zone()
        st.effects = []
        st.conds = []
        st.trace = []
        st.visits = {}
        st.fresh = 0
        if args:
            for i, a in enumerate(args):
                if a is not None:
                    st.locals[i + 1] = a
        self.explore(body, st, 0)
        return self.paths

    def finish(self, st, outcome):
        if len(self.paths) >= self.max_paths:
            raise Unsupported("too many paths")
        self.paths.append(Path(st.zone, outcome, st.effects, st.conds, st.trace))

    def explore(self, body, st, bb):
        self.cur_body = body
        work = [(st, bb)]
        while work:
            st, bb = work.pop()
            n = st.visits.get(bb, 0) + 1
            if n > self.max_visits:
                self.finish(st, ("diverge", "loop at bb%d of %s not analysed" % (bb, body.name)))
                continue
            st.visits[bb] = n
            states = [st]
            dead = False
            for si, s in enumerate(body.stmts(bb)):
                nxt = []
                for s1 in states:
                    if s["s"] == "assign":
                        dty = body.local_ty(s["pl"]["l"]) if not s["pl"]["p"] else None
                        for s2, val in self.rvalue(s1, body, s["rv"], dty):
                            self.write_place(s2, body, s["pl"], val if val is not None else TOP)
                            nxt.append(s2)
                    elif s["s"] == "setdiscr":
                        cur = self.read_place(s1, body, s["pl"])
                        fs = cur.fields if cur is not None and cur.k == "variant" and cur.vidx == s["vidx"] else {}
                        self.write_place(s1, body, s["pl"], V("variant", vidx=s["vidx"], vname=str(s["vidx"]), fields=fs))
                        nxt.append(s1)
                    else:
                        nxt.append(s1)
                states = nxt
            t = body.term(bb)
            k = t["t"]
            for s1 in states:
                if k == "goto" or k == "drop":
                    work.append((s1, t["target"]))
                elif k == "return":
                    self.finish(s1, ("return", self.read_local(s1, body, 0)))
                elif k in ("unreachable", "resume", "terminate"):
                    self.finish(s1, ("diverge", k))
                elif k == "assert":
                    c = self.operand(s1, body, t["cond"])
                    ic = self.as_int(s1, c, "bool")
                    exp = 1 if t["expected"] else 0
                    if ic is not None and ic.lin is not None:
                        for s2, truth in self.fork_cmp(s1, "eq", ic.lin, Lin.const(exp)):
                            if truth:
                                work.append((s2, t["target"]))
                            else:
                                self.finish(s2, ("panic", "assert %s" % t["kind"], body.where(bb)))
                    else:
                        # unknown condition: both outcomes possible
                        s2 = s1.copy()
                        s2.conds.append(("assert %s holds" % t["kind"], True))
                        work.append((s2, t["target"]))
                        s3 = s1.copy()
                        s3.conds.append(("assert %s holds" % t["kind"], False))
                        self.finish(s3, ("panic", "assert %s (not discharged)" % t["kind"], body.where(bb)))
                elif k == "switch":
                    self.do_switch(body, s1, bb, t, work)
                elif k == "call":
                    for s2, val in self.call(s1, body, t, bb):
                        if isinstance(val, tuple) and val and val[0] == "panic":
                            self.finish(s2, val[1])
                            continue
                        if val is None or t.get("target") is None:
                            self.finish(s2, ("diverge", "call to %s does not return" % short((t["func"].get("k") or {}).get("fn", "?"))))
                            continue
                        self.write_place(s2, body, t["dest"], val)
                        work.append((s2, t["target"]))
                elif k == "yield":
                    self.finish(s1, ("diverge", "yield"))
                else:
                    self.finish(s1, ("diverge", k))

    def do_switch(self, body, st, bb, t, work):
        d = self.operand(st, body, t["discr"])
        targets = t["targets"]
        if d.k == "obj" and d.target and d.target[0] == "discr_of":
            # split an opaque enum object by variant
            _, pl, objv = d.target
            names = self._variant_names(objv, pl, body)
            for v, tb in targets:
                s2 = st.copy()
                vname = names.get(v, str(v))
                s2.conds.append(("%s is %s" % (objv.path, vname), True))
                newv = V("variant", vidx=v, vname=vname, fields={}, path=objv.path)
                self._write_back(s2, body, pl, newv)
                work.append((s2, tb))
            # otherwise edge only if some variant is not listed
            if len(names) == 0 or len(targets) < len(names):
                s2 = st.copy()
                listed = {v for v, _ in targets}
                missing = [i for i in names if i not in listed]
                if len(missing) == 1:
                    vname = names[missing[0]]
                    s2.conds.append(("%s is %s" % (objv.path, vname), True))
                    self._write_back(s2, body, pl, V("variant", vidx=missing[0], vname=vname, fields={}, path=objv.path))
                else:
                    s2.conds.append(("%s is another variant" % objv.path, True))
                work.append((s2, t["otherwise"]))
            return
        iv = self.as_int(st, d, t.get("dty"))
        if iv is None or iv.lin is None:
            for v, tb in targets:
                s2 = st.copy()
                s2.conds.append(("%s == %s" % (show(d), v), True))
                work.append((s2, tb))
            s2 = st.copy()
            s2.conds.append(("%s == other" % show(d), True))
            work.append((s2, t["otherwise"]))
            self.imprecise.append("switch on opaque %s in %s" % (show(d), body.name))
            return
        rest = [st]
        for v, tb in targets:
            if isinstance(v, str):
                v = int(v)
            nrest = []
            for s1 in rest:
                for s2, truth in self.fork_cmp(s1, "eq", iv.lin, Lin.const(v)):
                    if truth:
                        work.append((s2, tb))
                    else:
                        nrest.append(s2)
            rest = nrest
        for s1 in rest:
            work.append((s1, t["otherwise"]))

    def _variant_names(self, objv, pl, body):
        ty = objv.ty or ""
        base = _strip_generics(ty.lstrip("&").replace("mut ", "").strip())
        if base == "std::option::Option":
            return {0: "None", 1: "Some"}
        if base == "std::result::Result":
            return {0: "Ok", 1: "Err"}
        adt = self.facts.adts.get(base)
        if adt and adt["kind"] == "Enum":
            return {i: v["name"] for i, v in enumerate(adt["variants"])}
        return {}

    def _write_back(self, st, body, pl, newv):
        base = st.locals.get(pl["l"])
        projs = [p for p in pl["p"]]
        if base is not None and base.k == "ref" and base.target[0] == "local" and projs and projs[0][0] == "d":
            _, l, tp = base.target
            self.write_place(st, body, {"l": l, "p": [list(p) for p in tp] + projs[1:]}, newv)
            return
        nonderef = [p for p in projs if p[0] != "d"]
        if not nonderef:
            st.locals[pl["l"]] = newv
        elif len(nonderef) == 1 and nonderef[0][0] == "f":
            cur = self.read_local(st, body, pl["l"])
            if cur.k == "obj":
                # remember refinement of a field of an opaque object
                fs = {nonderef[0][1]: newv}
                st.locals[pl["l"]] = V("struct", adt=None, fields=_ObjFields(cur, fs))
            elif cur.k == "struct":
                fs = dict(cur.fields) if not isinstance(cur.fields, _ObjFields) else _ObjFields(cur.fields.obj, dict(cur.fields))
                fs[nonderef[0][1]] = newv
                st.locals[pl["l"]] = V("struct", adt=cur.adt, fields=fs)


class _ObjFields(dict):
    """Fields of a partially refined opaque object: unknown fields fall back to obj paths."""

    def __init__(self, obj, known):
        super().__init__(known)
        self.obj = obj

    def __contains__(self, k):
        return True

    def __getitem__(self, k):
        if dict.__contains__(self, k):
            return dict.__getitem__(self, k)
        return mk_obj("%s.%s" % (self.obj.path, k))

    def get(self, k, d=None):
        return self[k]


def _elem_ty(ty):
    if not ty:
        return None
    t = ty.strip().lstrip("&").replace("mut ", "").strip()
    m = re.match(r"^\[(.+?)(; .*)?\]$", t)
    return m.group(1) if m else None


def _ceil_div(a, b):
    return -((-a) // b)


# ---------------------------------------------------------------------------
# comparing with a spec table

def region_constraints(sym_or_pair, lo, hi):
    """Constraints for lo <= x <= hi  or  lo <= x - y <= hi."""
    if isinstance(sym_or_pair, tuple):
        x, y = sym_or_pair
    else:
        x, y = sym_or_pair, None
    cons = []
    if hi is not None:
        cons.append((x, y, hi))
    if lo is not None:
        cons.append((y, x, -lo))
    return cons


def paths_in_region(paths, cons):
    out = []
    for p in paths:
        z = p.zone.copy()
        for x, y, c in cons:
            if x is not None:
                z.idx(x)
            if y is not None:
                z.idx(y)
        z = z.meet_constraints(cons)
        if not z.empty:
            out.append(p)
    return out


def byte_class(facts, fname, inline=None, arg_index=0):
    """R-CLS: the exact set of u8 values for which a `fn(u8|&u8, ..) -> bool` returns true,
    by abstract interpretation.  Returns (set, problems)."""
    body = facts.body(fname)
    if body is None:
        return None, ["no body for " + fname]
    it = Interp(facts, inline=inline or (lambda n: n in facts.bodies and facts.bodies[n].file == body.file))
    pname = body.local_name(arg_index + 1) or "_%d" % (arg_index + 1)
    st_args = [None] * body.arg_count
    st_args[arg_index] = mk_obj("c", "u8")
    # closures take their environment first
    try:
        paths = it.run_body(body, st_args)
    except Unsupported as e:
        return None, [str(e)]
    acc = set()
    problems = list(it.imprecise)
    for p in paths:
        lo, hi = p.zone.bounds("c") if "c" in p.zone.syms else (0, 255)
        lo, hi = max(0, lo), min(255, hi)
        if p.conds:
            problems.append("opaque condition on path: %s" % (p.conds,))
        if p.outcome[0] != "return":
            problems.append("path %s: %s" % (p.zone.describe(), outcome_str(p.outcome)))
            continue
        v = p.outcome[1]
        if v.k == "int" and v.lin is not None and v.lin.is_const():
            if v.lin.c == 1:
                acc.update(range(int(lo), int(hi) + 1))
        else:
            problems.append("non-constant result %s on %s" % (show(v), p.zone.describe()))
    return acc, problems


def fmt_class(cls):
    if cls is None:
        return "?"
    out = []
    xs = sorted(cls)
    i = 0
    while i < len(xs):
        j = i
        while j + 1 < len(xs) and xs[j + 1] == xs[j] + 1:
            j += 1
        a, b = xs[i], xs[j]
        fa = chr(a) if 0x21 <= a <= 0x7e else "\\x%02x" % a
        fb = chr(b) if 0x21 <= b <= 0x7e else "\\x%02x" % b
        out.append(fa if a == b else "%s-%s" % (fa, fb))
        i = j + 1
    return " ".join(out)
