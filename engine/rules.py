"""Rule families over MIR facts: outcome classification, checked calls,
must-pass-through (R-CHK), guard polarity (R-GRD), provenance (R-FLOW),
construction sites (R-WHO)."""
import re
from collections import deque

from .sym import Sym, strip, strip_deep, render, walk, short, is_transparent_call

# callee names whose result succeeds only if their first argument (a Result /
# Option / future of one) succeeded
PRESERVING = {
    ("std::ops::Try", "branch"), ("std::result::Result", "map_err"), ("std::result::Result", "map"),
    ("std::result::Result", "and_then"), ("std::result::Result", "ok"), ("std::option::Option", "ok_or"),
    ("std::option::Option", "ok_or_else"), ("std::option::Option", "map"), ("std::option::Option", "and_then"),
    ("std::convert::Into", "into"), ("std::convert::From", "from"),
    ("std::future::IntoFuture", "into_future"), ("std::future::Future", "poll"),
    ("std::pin::Pin", "new_unchecked"), ("std::pin::Pin", "new"), ("std::result::Result", "and"),
    ("std::result::Result", "inspect_err"), ("std::result::Result", "inspect"),
    ("std::option::Option", "transpose"), ("std::result::Result", "transpose"),
    # a bool / reference that still says whether the call succeeded
    ("std::result::Result", "is_ok"), ("std::result::Result", "is_err"), ("std::option::Option", "is_some"),
    ("std::option::Option", "is_none"), ("std::result::Result", "as_ref"), ("std::option::Option", "as_ref"),
    ("std::result::Result", "as_mut"), ("std::option::Option", "as_mut"), ("std::option::Option", "filter"),
    ("std::result::Result", "err"), ("std::option::Option", "as_deref"), ("std::result::Result", "as_deref"),
    ("std::option::Option", "copied"), ("std::option::Option", "cloned"),
}


def _callee_key(k):
    """(owner, name) for a callee const record `k`."""
    if not k or "fn" not in k:
        return (None, None)
    name = k.get("name")
    tr = k.get("trait")
    if tr:
        return (tr, name)
    fn = k["fn"]
    owner = fn.rsplit("::", 1)[0] if "::" in fn else ""
    # std::result::Result::<T, E>::map_err -> std::result::Result
    owner = re.sub(r"::<.*$", "", owner)
    owner = re.sub(r"<.*>$", "", owner)
    return (owner, name)


def is_preserving(k):
    key = _callee_key(k)
    if key in PRESERVING:
        return True
    owner, name = key
    # re-exported paths of the std Future / IntoFuture traits (futures_util::Future …)
    if name == "poll" and owner and owner.endswith("Future"):
        return True
    if name == "into_future" and owner and owner.endswith("IntoFuture"):
        return True
    return False


class Outcome:
    """Classifies the blocks of a body that assign a *failure* value to the return place."""

    def __init__(self, body, sym=None):
        self.body = body
        self.sym = sym or Sym(body)
        ret = body.ret_ty
        if ret.startswith("std::result::Result<"):
            self.kind = "result"
        elif ret.startswith("std::option::Option<"):
            self.kind = "option"
        elif ret == "bool":
            self.kind = "bool"
        else:
            self.kind = "other"
        self.carriers = self._carriers()
        self.fail_blocks = set()
        self.success_assign_blocks = set()
        self._classify()
        self._g_reach = None

    def _carriers(self):
        """Locals that are moved wholesale into `_0`."""
        b = self.body
        car = {0}
        changed = True
        while changed:
            changed = False
            for bi, blk in enumerate(b.blocks):
                for s in blk["stmts"]:
                    if s["s"] != "assign" or s["pl"]["p"] or s["pl"]["l"] not in car:
                        continue
                    rv = s["rv"]
                    if rv["r"] == "use":
                        op = rv["op"]
                        pl = op.get("m") or op.get("c")
                        if pl and not pl["p"] and pl["l"] not in car and pl["l"] > b.arg_count:
                            car.add(pl["l"])
                            changed = True
        return car

    def _is_fail_term(self, t):
        t = strip(t)
        if t[0] == "agg":
            if t[1] == "std::result::Result" and t[2] == "Err":
                return True
            if t[1] == "std::option::Option" and t[2] == "None" and self.kind == "option":
                return True
        if t[0] == "const" and self.kind == "bool" and t[1] == 0:
            return True
        if t[0] == "call" and t[3].get("name") == "from_residual":
            return True
        return False

    def _classify(self):
        b = self.body
        for bi, blk in enumerate(b.blocks):
            if blk.get("cleanup"):
                continue
            for s in blk["stmts"]:
                if s["s"] == "assign" and not s["pl"]["p"] and s["pl"]["l"] in self.carriers:
                    t = self.sym.rvalue(s["rv"])
                    if self._is_fail_term(t):
                        self.fail_blocks.add(bi)
                    else:
                        self.success_assign_blocks.add(bi)
            t = blk["term"]
            if t["t"] == "call" and not t["dest"]["p"] and t["dest"]["l"] in self.carriers:
                k = t["func"].get("k") if isinstance(t["func"], dict) else None
                if k and k.get("name") == "from_residual":
                    self.fail_blocks.add(bi)
                else:
                    self.success_assign_blocks.add(bi)

    def returns(self):
        return self.body.return_blocks()

    def success_reach(self, extra_removed_blocks=(), removed_edges=()):
        """Blocks from which Return is reachable without passing a failure assignment."""
        rem = set(self.fail_blocks) | set(extra_removed_blocks)
        return self.body.can_reach(self.returns(), rem, removed_edges)


_OUTCOMES = {}


def outcome(body):
    o = _OUTCOMES.get(id(body))
    if o is None or o.body is not body:
        o = Outcome(body)
        _OUTCOMES[id(body)] = o
    return o


def derived_locals(body, start_local):
    """Locals that carry the success/failure of `start_local` (see PRESERVING)."""
    D = {start_local}
    changed = True
    blocks = body.blocks
    while changed:
        changed = False
        for blk in blocks:
            for s in blk["stmts"]:
                if s["s"] != "assign" or s["pl"]["p"]:
                    continue
                dst = s["pl"]["l"]
                if dst in D:
                    continue
                rv = s["rv"]
                src = None
                if rv["r"] == "use":
                    op = rv["op"]
                    pl = op.get("m") or op.get("c")
                    if pl and pl["l"] in D:
                        pp = [p for p in pl["p"] if p[0] != "d"]
                        if not pp:
                            src = pl["l"]
                        elif len(pp) == 2 and pp[0][0] == "dc" and pp[0][1] == "Ready" and pp[1][0] == "f":
                            src = pl["l"]
                elif rv["r"] in ("ref", "rawptr"):
                    pl = rv["pl"]
                    if pl["l"] in D and all(p[0] == "d" for p in pl["p"]):
                        src = pl["l"]
                elif rv["r"] == "cast":
                    op = rv["op"]
                    pl = op.get("m") or op.get("c")
                    if pl and pl["l"] in D and not [p for p in pl["p"] if p[0] != "d"]:
                        src = pl["l"]
                if src is not None:
                    D.add(dst)
                    changed = True
            t = blk["term"]
            if t["t"] == "call" and not t["dest"]["p"] and t["dest"]["l"] not in D and t["args"]:
                k = t["func"].get("k") if isinstance(t["func"], dict) else None
                if k and is_preserving(k):
                    a0 = t["args"][0]
                    pl = a0.get("m") or a0.get("c")
                    if pl and pl["l"] in D and all(p[0] == "d" for p in pl["p"]):
                        D.add(t["dest"]["l"])
                        changed = True
    return D


def switch_on_locals(body, D):
    """Switch blocks whose discriminant is `discriminant(x)` (or x itself, for bools) with x in D."""
    out = []
    sym = None
    for bi, blk in enumerate(body.blocks):
        t = blk["term"]
        if t["t"] != "switch":
            continue
        op = t["discr"]
        pl = op.get("m") or op.get("c")
        if not pl or pl["p"]:
            continue
        l = pl["l"]
        if l in D:
            out.append(bi)
            continue
        # defined as discriminant(place in D)
        for d in body.defs().get(l, []):
            if d[2] == "assign" and d[3]["rv"]["r"] == "discr":
                p2 = d[3]["rv"]["pl"]
                if p2["l"] in D and all(p[0] == "d" for p in p2["p"]):
                    out.append(bi)
    return out


def call_checked(body, bb, oc=None):
    """Is the success/failure of the call terminating block `bb` honoured?

    True when its result is propagated into the return value, or some switch
    on (a value carrying) it has an edge from which no success return is
    reachable.  Returns (checked, how)."""
    oc = oc or outcome(body)
    t = body.term(bb)
    dest = t.get("dest")
    if dest is None:
        return (True, "tailcall")
    if dest["p"]:
        return (False, "result stored through a projection")
    d = dest["l"]
    D = derived_locals(body, d)
    if D & oc.carriers:
        return (True, "propagated into the return value")
    ok_reach = oc.success_reach()
    for sw in switch_on_locals(body, D):
        edges = [(v, tb) for v, tb in body.switch_edges(sw) if body.term(tb)["t"] != "unreachable"]
        dead = [tb for v, tb in edges if tb not in ok_reach]
        live = [tb for v, tb in edges if tb in ok_reach]
        if dead and live:
            return (True, "switch in bb%d: failure edge cannot reach a success return" % sw)
        if dead and not live:
            return (True, "switch in bb%d: no edge reaches a success return" % sw)
    return (False, "result never decides the outcome")


class MustPass:
    """R-CHK: every success path of F passes a checked call to a sink (or to a
    callee for which the same holds), or a guard edge on which a literal holds."""

    def __init__(self, facts, sink_pred, guard_fn=None, combinators=None, name="sink", max_depth=12,
                 extra_callee=None, ret_guard=None):
        self.facts = facts
        self.sink_pred = sink_pred        # CallSite -> bool
        self.guard_fn = guard_fn          # (body, sym, bb) -> list of (bb, target) true-edges or None
        self.memo = {}
        self.name = name
        self.max_depth = max_depth
        self.visited = set()
        self.extra_callee = extra_callee  # CallSite -> list of body names also to consider (closures args)
        self.ret_guard = ret_guard        # stripped term -> bool: the returned bool IS the guard literal

    def holds(self, fname, depth=0, key=None):
        key = key or fname
        if key in self.memo:
            return self.memo[key][0]
        body = self.facts.body(fname)
        if body is None:
            self.memo[key] = (False, "no MIR body for %s" % fname)
            return False
        if depth > self.max_depth:
            return False
        self.memo[key] = (False, "recursion")
        r = self._analyse(body, depth)
        self.memo[key] = r
        return r[0]

    def _holds_closure(self, ct, depth):
        """A closure passed to a combinator, read with its captures spelt as the values captured at this site."""
        from . import sym as _sym
        cb = self.facts.body(ct[1])
        if cb is None:
            return False
        m = {}
        for name, pl in cb.rec.get("upvars", []):
            idx = None
            for pe in pl.get("p", []):
                if pe and pe[0] == "f":
                    try:
                        idx = int(pe[1])
                    except (TypeError, ValueError):
                        idx = None
                    break
            if idx is not None and idx < len(ct[2]):
                m[("upvar", name)] = render(ct[2][idx])
        with _sym.substituting(m):
            return self.holds(ct[1], depth, key=(ct[1], tuple(sorted(m.items()))))

    def why(self, fname):
        return self.memo.get(fname, (False, "not analysed"))[1]

    def _closure_args(self, body, sym, c):
        """Closure bodies passed (directly) as arguments of call c."""
        out = []
        for a in c.args:
            t = strip(sym.operand(a))
            if t[0] == "closure":
                out.append(t)
        return out

    def _analyse(self, body, depth):
        self.visited.add(body.name)
        oc = outcome(body)
        sym = oc.sym
        removed = set(oc.fail_blocks)
        passing = []
        for c in body.calls():
            if body.is_cleanup(c.bb) or not c.is_static:
                continue
            hit = False
            if self.sink_pred(c):
                hit = True
            else:
                tgt = c.res
                if tgt and tgt in self.facts.bodies and c.krate == "rpki" or (tgt in self.facts.bodies):
                    if self.holds(tgt, depth + 1):
                        hit = True
                if not hit:
                    for ct in self._closure_args(body, sym, c):
                        if ct[1] in self.facts.bodies and self._holds_closure(ct, depth + 1):
                            hit = True
                            break
            if hit:
                ok, how = call_checked(body, c.bb, oc)
                if ok:
                    removed.add(c.bb)
                    passing.append((c.bb, c.res, how))
        removed_edges = set()
        if self.guard_fn is not None:
            for bi, blk in enumerate(body.blocks):
                if blk["term"]["t"] == "switch" and not blk.get("cleanup"):
                    edges = self.guard_fn(body, sym, bi)
                    if edges:
                        removed_edges.update(edges)
                        passing.append((bi, "guard", "literal true on %s" % (edges,)))
        if self.ret_guard is not None and oc.kind == "bool":
            for bi, si, t in success_values(body, oc):
                if self.ret_guard(t):
                    removed.add(bi)
                    passing.append((bi, "returns the guard value", render(t)))
        rets = oc.returns()
        p = body.path(0, rets, removed, removed_edges)
        if p is None:
            if not rets or not body.path(0, rets, oc.fail_blocks):
                # no success path at all: vacuous — treat as not passing (nothing proves the sink)
                if not passing:
                    return (False, "no success path and no %s" % self.name)
            return (True, {"passing": passing})
        return (False, {"path": p, "lines": [body.line_of(b) for b in p], "passing": passing,
                        "fn": body.name})


def fmt_path(body, p):
    out = []
    last = None
    for b in p:
        ln = body.line_of(b)
        if ln != last and ln is not None:
            out.append(ln)
            last = ln
    return "%s lines %s" % (body.file, "→".join(str(x) for x in out))


# ---------------------------------------------------------------------------
# guards

def bool_atom(t):
    """Decode a boolean term into (rel, a, b, positive) with rel in
    eq/lt/le/gt/ge or ('pred', callee) ; returns None if not a comparison."""
    pos = True
    t = strip(t)
    while t[0] == "un" and t[1] == "Not":
        pos = not pos
        t = strip(t[2])
    if t[0] == "bin":
        op = t[1]
        m = {"Eq": ("eq", True), "Ne": ("eq", False), "Lt": ("lt", True), "Le": ("le", True),
             "Gt": ("gt", True), "Ge": ("ge", True)}
        if op in m:
            rel, p = m[op]
            return (rel, strip_deep(t[2]), strip_deep(t[3]), pos == p)
    if t[0] == "call":
        name = t[3].get("name")
        tr = t[3].get("trait")
        m = {"eq": ("eq", True), "ne": ("eq", False), "lt": ("lt", True), "le": ("le", True),
             "gt": ("gt", True), "ge": ("ge", True)}
        if name in m and tr in ("std::cmp::PartialEq", "std::cmp::PartialOrd") and len(t[2]) == 2:
            rel, p = m[name]
            return (rel, strip_deep(t[2][0]), strip_deep(t[2][1]), pos == p)
        return (("pred", t[1], name), tuple(strip_deep(a) for a in t[2]), None, pos)
    return None


def switch_bool_edges(body, bb):
    """For a switch on a bool: (false_target, true_target)."""
    t = body.term(bb)
    if t["t"] != "switch":
        return None
    f = None
    for v, tb in t["targets"]:
        if v == 0:
            f = tb
    if f is None:
        return None
    return (f, t["otherwise"])


def guard_edges(body, sym, bb, matcher):
    """If the switch at bb tests a boolean atom accepted by `matcher`, return the
    edges on which the matched literal is TRUE.  matcher(rel, a, b) -> True if
    literal matches positively, False if it matches negated (i.e. the atom is
    the negation of the wanted literal), None if unrelated."""
    t = body.term(bb)
    if t["t"] != "switch" or t.get("dty") != "bool":
        return None
    e = switch_bool_edges(body, bb)
    if e is None:
        return None
    term = sym.operand(t["discr"])
    at = bool_atom(term)
    if at is None:
        return None
    rel, a, b, pos = at
    m = matcher(rel, a, b)
    if m is None:
        return None
    lit_true_when_atom = (m == pos)   # literal holds when the switch value is 1 iff ...
    f, tr = e
    return [(bb, tr)] if lit_true_when_atom else [(bb, f)]


def eq_matcher(pa, pb):
    """Matcher for `A == B` where A, B are regexes on rendered terms (either order)."""
    ra, rb = re.compile(pa), re.compile(pb)

    def m(rel, a, b):
        if rel != "eq" or b is None:
            return None
        sa, sb = render(a), render(b)
        if (ra.search(sa) and rb.search(sb)) or (ra.search(sb) and rb.search(sa)):
            return True
        return None
    return m


def pred_matcher(name_rx, arg_rxs=(), positive=True):
    """Matcher for a boolean predicate call `name(args…)`."""
    rn = re.compile(name_rx)
    ras = [re.compile(x) for x in arg_rxs]

    def m(rel, a, b):
        if not (isinstance(rel, tuple) and rel[0] == "pred"):
            return None
        if not (rn.search(rel[1]) or rn.search(short(rel[1]))):
            return None
        args = a
        for i, r in enumerate(ras):
            if i >= len(args) or not r.search(render(args[i])):
                return None
        return positive
    return m


# ---------------------------------------------------------------------------
# sites

def aggregates_of(facts, adt, variant=None):
    """All (body, bb, stmt) that build a value of ADT `adt` with an aggregate."""
    out = []
    for b in facts.bodies.values():
        for bi, blk in enumerate(b.blocks):
            for si, s in enumerate(blk["stmts"]):
                if s["s"] == "assign" and s["rv"]["r"] == "agg" and s["rv"].get("ak") == "adt" \
                        and s["rv"]["adt"] == adt and (variant is None or s["rv"]["variant"] == variant):
                    out.append((b, bi, si, s))
    return out


def calls_to(facts, pred):
    out = []
    for b in facts.bodies.values():
        for c in b.calls():
            if c.is_static and pred(c):
                out.append(c)
    return out


def root_fn(facts, name):
    """Enclosing fn of a closure body name."""
    b = facts.body(name)
    if b is None:
        return name
    return b.rec.get("root", name)


def is_derived(body):
    """Body generated by a derive / proc macro (its span is a macro expansion)."""
    for blk in body.blocks:
        sp = blk["term"].get("sp")
        if sp and len(sp) > 1 and sp[1].startswith("#[derive"):
            return True
        break
    return False


# ---------------------------------------------------------------------------
# loops and variant edges

def loop_each_checked(body, next_pred, guard_fn, oc=None, require_for_return=True, pass_blocks=(),
                      elem_switch_rx=None, some_value=1):
    """R-CHK loop form.  For every call c with next_pred(c) (an `Iterator::next`-like
    producer) whose result is switched on — or, with elem_switch_rx, every switch on
    discriminant(X) with render(X) ~ elem_switch_rx: from the `Some` edge no path leads
    back to the loop head (or, if require_for_return, to a success return) without
    crossing an edge on which the guard literal is TRUE (guard_fn(body, sym, bb) -> edges)
    or a block in pass_blocks.  Returns list of (where, ok, detail)."""
    oc = oc or outcome(body)
    sym = oc.sym
    true_edges = set()
    if guard_fn is not None:
        for bi, blk in enumerate(body.blocks):
            if blk["term"]["t"] == "switch" and not blk.get("cleanup"):
                e = guard_fn(body, sym, bi)
                if e:
                    true_edges.update(e)
    heads = []     # (head block, switch block, label)
    if elem_switch_rx is not None:
        for sw in variant_switches(body, sym, elem_switch_rx):
            heads.append((sw, sw, body.where(sw)))
    else:
        for c in body.calls():
            if not c.is_static or not next_pred(c) or c.dest is None or c.dest["p"]:
                continue
            sws = switch_on_locals(body, {c.dest["l"]})
            if not sws:
                heads.append((c.bb, None, c.where()))
            for sw in sws:
                heads.append((c.bb, sw, c.where()))
    out = []
    for head, sw, where in heads:
        if sw is None:
            out.append((where, False, "result of the producer is never matched on"))
            continue
        some_t = None
        for v, tb in body.switch_edges(sw):
            if v == some_value:
                some_t = tb
        if some_t is None:
            out.append((where, False, "no Some edge"))
            continue
        removed = set(oc.fail_blocks) | set(pass_blocks)
        reach = body.reachable(some_t, removed_blocks=removed, removed_edges=true_edges)
        bad = []
        if head in reach or (sw in reach and sw != head):
            bad.append("next iteration reachable without the check")
        if require_for_return:
            rets = [r for r in oc.returns() if r in reach]
            if rets:
                bad.append("success return reachable without the check")
        out.append((where, not bad, bad or "element checked on every continuing path (%d guard edge(s), %d pass block(s))"
                    % (len(true_edges), len(pass_blocks))))
    return out


def loop_exits(body, head, oc=None):
    """Edges leaving the strongly connected component of `head` towards a success return."""
    oc = oc or outcome(body)
    comp = None
    for c in body.cycles_sccs():
        if head in c:
            comp = set(c)
    if comp is None:
        return None
    reach = oc.success_reach()
    out = []
    for u in comp:
        for v in body.succs(u):
            if v not in comp and v in reach:
                out.append((u, v))
    return out


# std combinators that keep the variant (and so the discriminant) of the Option / Result they are applied to
_VARIANT_KEEPING = {"map", "as_ref", "as_mut", "cloned", "copied", "as_deref", "as_deref_mut", "inspect", "map_err",
                    "inspect_err"}


def peel_variant_keeping(t):
    """`x.map(f)`, `x.as_ref()`, … have the variant of `x`: a match on them is a match on `x`."""
    t = strip_deep(t)
    while t[0] == "call" and (t[3] or {}).get("name") in _VARIANT_KEEPING and t[2] and \
            re.match(r"^(std|core)::(option::Option|result::Result)::<", (t[3] or {}).get("fn") or ""):
        t = strip_deep(t[2][0])
    return t


def variant_switches(body, sym, place_rx):
    """Switch blocks on discriminant(X) where render(X) matches place_rx."""
    rx = re.compile(place_rx)
    out = []
    for bi, blk in enumerate(body.blocks):
        t = blk["term"]
        if t["t"] != "switch" or blk.get("cleanup"):
            continue
        d = strip(sym.operand(t["discr"]))
        if d[0] == "discr" and (rx.search(render(strip_deep(d[1]))) or rx.search(render(peel_variant_keeping(d[1])))):
            out.append(bi)
    return out


def variant_edge_fails(body, place_rx, value, oc=None):
    """The edge for discriminant `value` of a match on `place_rx` cannot reach a success
    return.  -> (found, ok, detail)"""
    oc = oc or outcome(body)
    sws = variant_switches(body, oc.sym, place_rx)
    if not sws:
        return (False, False, "no match on %s in %s" % (place_rx, body.name))
    reach = oc.success_reach()
    bad = []
    for sw in sws:
        edges = body.switch_edges(sw)
        tgt = None
        for v, tb in edges:
            if v == value:
                tgt = tb
        if tgt is None:
            tgt = body.term(sw)["otherwise"]
        if tgt in reach:
            bad.append("bb%d: variant %s edge → bb%d reaches a success return" % (sw, value, tgt))
    return (True, not bad, bad or None)


def success_values(body, oc=None):
    """Terms assigned to the return place in non-failure blocks: [(bb, stmt idx|'term', term)]."""
    oc = oc or outcome(body)
    out = []
    for bi in sorted(oc.success_assign_blocks):
        blk = body.blocks[bi]
        for si, st in enumerate(blk["stmts"]):
            if st["s"] == "assign" and not st["pl"]["p"] and st["pl"]["l"] in oc.carriers:
                t = strip_deep(oc.sym.rvalue(st["rv"]))
                if not oc._is_fail_term(t) and not (t[0] == "var" and t[2] in oc.carriers):
                    out.append((bi, si, t))
        t = blk["term"]
        if t["t"] == "call" and not t["dest"]["p"] and t["dest"]["l"] in oc.carriers:
            out.append((bi, "term", strip_deep(oc.sym.call(t, bi))))
    return out


def variant_edge(body, sym, bb, place_rx, value):
    """If the switch at bb matches on discriminant(X) with render(X) ~ place_rx:
    the edge taken for discriminant `value`."""
    t = body.term(bb)
    if t["t"] != "switch":
        return None
    d = strip(sym.operand(t["discr"]))
    if d[0] != "discr" or not (re.search(place_rx, render(strip_deep(d[1]))) or re.search(place_rx, render(peel_variant_keeping(d[1])))):
        return None
    for v, tb in t["targets"]:
        if v == value:
            return [(bb, tb)]
    return [(bb, t["otherwise"])]


def bool_place_edge(body, sym, bb, place_rx, truth):
    """If the switch at bb is directly on a boolean place matching place_rx: the edge on
    which it has value `truth`."""
    t = body.term(bb)
    if t["t"] != "switch" or t.get("dty") != "bool":
        return None
    term = strip(sym.operand(t["discr"]))
    neg = False
    while term[0] == "un" and term[1] == "Not":
        neg = not neg
        term = strip(term[2])
    if not re.search(place_rx, render(strip_deep(term))):
        return None
    e = switch_bool_edges(body, bb)
    if e is None:
        return None
    want_true = truth != neg
    return [(bb, e[1] if want_true else e[0])]


def any_of(*fns):
    def g(body, sym, bb):
        out = []
        for fn in fns:
            e = fn(body, sym, bb)
            if e:
                out += e
        return out or None
    return g


# ---------------------------------------------------------------------------
# byte-slice pattern language of a `match name { b"..." => …, _ => Err }`

def slice_patterns(body, local, field=None):
    """Enumerate the decision tree rustc builds for matching a byte slice against literal
    patterns.  The slice is the local `local` (an argument), or — with `field` — the field
    of that name of any local (e.g. `name.local` of a matched `Name`).  Tests on other
    slices are followed without being recorded.  Returns a list of (word | None, leaf block);
    a word is None when some byte on the path is unconstrained (wildcard arm)."""
    out = []
    seen = set()
    sym = Sym(body)

    def mine(pl):
        """Is this place (ignoring trailing index/deref) our slice?"""
        if pl is None:
            return False
        projs = [p for p in pl["p"] if p[0] not in ("d", "ci", "i")]
        if field is None:
            return pl["l"] == local and not projs
        return bool(projs) and projs[-1][0] == "f" and projs[-1][1] == field

    def len_place(op):
        """Place whose length a `PtrMetadata` temp holds."""
        pl = op.get("c") or op.get("m")
        if not pl or pl["p"]:
            return None
        cur = pl["l"]
        for _ in range(6):
            ds = [d for d in body.defs().get(cur, []) if d[2] == "assign"]
            if len(ds) != 1:
                return None
            rv = ds[0][3]["rv"]
            if rv["r"] == "un" and rv["uop"] == "PtrMetadata":
                op2 = rv["a"]
                p2 = op2.get("c") or op2.get("m")
                if p2 is None:
                    return None
                if not p2["p"]:
                    cur = p2["l"]
                    # may be `&raw (*place)`
                    ds2 = [d for d in body.defs().get(cur, []) if d[2] == "assign"]
                    if len(ds2) == 1 and ds2[0][3]["rv"]["r"] in ("rawptr", "ref"):
                        return ds2[0][3]["rv"]["pl"]
                    return p2
                return p2
            if rv["r"] == "use":
                op2 = rv["op"]
                p2 = op2.get("c") or op2.get("m")
                if p2 is None or p2["p"]:
                    return None
                cur = p2["l"]
                continue
            return None
        return None

    tested = [False]

    def walk_tree(bb, length, known, depth):
        key = (bb, length, tuple(sorted(known.items())))
        if key in seen or depth > 600:
            return
        seen.add(key)
        blk = body.blocks[bb]
        t = blk["term"]
        if t["t"] == "goto" and not blk["stmts"]:
            return walk_tree(t["target"], length, known, depth + 1)
        if length is None and not known and not tested[0] and t["t"] in ("call", "goto", "drop") and t.get("target") is not None:
            # straight-line prefix before the decision tree starts
            return walk_tree(t["target"], length, known, depth + 1)
        if t["t"] == "switch":
            tested[0] = True
            op = t["discr"]
            pl = op.get("c") or op.get("m")
            # length test: switch on `Eq(len_temp, const)`
            if pl and not pl["p"] and t.get("dty") == "bool":
                ds = [d for d in body.defs().get(pl["l"], []) if d[2] == "assign"]
                if len(ds) == 1 and ds[0][3]["rv"]["r"] == "bin" and ds[0][3]["rv"]["bop"] in ("Eq", "Ne"):
                    rv = ds[0][3]["rv"]
                    ca, cb = strip(sym.operand(rv["a"])), strip(sym.operand(rv["b"]))
                    k, lp = None, None
                    if cb[0] == "const":
                        k, lp = cb[1], len_place(rv["a"])
                    elif ca[0] == "const":
                        k, lp = ca[1], len_place(rv["b"])
                    e = switch_bool_edges(body, bb)
                    if k is not None and lp is not None and e:
                        eq_t = e[1] if rv["bop"] == "Eq" else e[0]
                        ne_t = e[0] if rv["bop"] == "Eq" else e[1]
                        if mine(lp):
                            walk_tree(eq_t, k, dict(known), depth + 1)
                            walk_tree(ne_t, length, dict(known), depth + 1)
                        else:
                            walk_tree(eq_t, length, dict(known), depth + 1)
                            walk_tree(ne_t, length, dict(known), depth + 1)
                        return
            # byte test: switch directly on `(*slice)[i]`
            if pl and pl["p"] and pl["p"][-1][0] == "ci" and not pl["p"][-1][3]:
                idx = pl["p"][-1][1]
                if mine(pl):
                    for v, tb in t["targets"]:
                        k2 = dict(known)
                        k2[idx] = v
                        walk_tree(tb, length, k2, depth + 1)
                    k3 = dict(known)
                    k3[idx] = None
                    walk_tree(t["otherwise"], length, k3, depth + 1)
                else:
                    for v, tb in t["targets"]:
                        walk_tree(tb, length, dict(known), depth + 1)
                    walk_tree(t["otherwise"], length, dict(known), depth + 1)
                return
            # discriminant test of an Option around another slice (namespace): follow all edges
            term = strip(sym.operand(op))
            if term[0] == "discr" and field is not None:
                for v, tb in body.switch_edges(bb):
                    walk_tree(tb, length, dict(known), depth + 1)
                return
        word = None
        if length is not None and len(known) >= length and all(known.get(i) is not None for i in range(length)):
            word = bytes(known[i] for i in range(length))
        out.append((word, bb))

    walk_tree(0, None, {}, 0)
    return out


def all_slice_words(body):
    """Like slice_patterns, but for every byte slice matched in the body: returns
    {(word, leaf block)} for each slice place whose length and bytes are all fixed on a path."""
    out = set()
    seen = set()
    sym = Sym(body)

    def pkey(pl):
        projs = tuple((p[0], p[1]) if p[0] in ("f", "dc") else (p[0],) for p in pl["p"] if p[0] not in ("ci", "i"))
        while projs and projs[-1] == ("d",):
            projs = projs[:-1]
        return (pl["l"], projs)

    def len_place(op):
        pl = op.get("c") or op.get("m")
        if not pl or pl["p"]:
            return None
        cur = pl["l"]
        for _ in range(6):
            ds = [d for d in body.defs().get(cur, []) if d[2] == "assign"]
            if len(ds) != 1:
                return None
            rv = ds[0][3]["rv"]
            if rv["r"] == "un" and rv["uop"] == "PtrMetadata":
                p2 = rv["a"].get("c") or rv["a"].get("m")
                if p2 is None:
                    return None
                if not p2["p"]:
                    ds2 = [d for d in body.defs().get(p2["l"], []) if d[2] == "assign"]
                    if len(ds2) == 1 and ds2[0][3]["rv"]["r"] in ("rawptr", "ref"):
                        return ds2[0][3]["rv"]["pl"]
                return p2
            if rv["r"] == "use":
                p2 = rv["op"].get("c") or rv["op"].get("m")
                if p2 is None or p2["p"]:
                    return None
                cur = p2["l"]
                continue
            return None
        return None

    started = [False]

    def walk_tree(bb, lens, known, depth):
        key = (bb, tuple(sorted(lens.items())), tuple(sorted(known.items())))
        if key in seen or depth > 800 or len(seen) > 200000:
            return
        seen.add(key)
        blk = body.blocks[bb]
        t = blk["term"]
        if t["t"] in ("goto", "call", "drop") and t.get("target") is not None and (not started[0] or (t["t"] == "goto" and not blk["stmts"])):
            return walk_tree(t["target"], lens, known, depth + 1)
        if t["t"] == "switch":
            op = t["discr"]
            pl = op.get("c") or op.get("m")
            if pl and not pl["p"] and t.get("dty") == "bool":
                ds = [d for d in body.defs().get(pl["l"], []) if d[2] == "assign"]
                if len(ds) == 1 and ds[0][3]["rv"]["r"] == "bin" and ds[0][3]["rv"]["bop"] in ("Eq", "Ne"):
                    rv = ds[0][3]["rv"]
                    ca, cb = strip(sym.operand(rv["a"])), strip(sym.operand(rv["b"]))
                    k, lp = None, None
                    if cb[0] == "const":
                        k, lp = cb[1], len_place(rv["a"])
                    elif ca[0] == "const":
                        k, lp = ca[1], len_place(rv["b"])
                    e = switch_bool_edges(body, bb)
                    if k is not None and lp is not None and e:
                        started[0] = True
                        eq_t = e[1] if rv["bop"] == "Eq" else e[0]
                        ne_t = e[0] if rv["bop"] == "Eq" else e[1]
                        l2 = dict(lens)
                        l2[pkey(lp)] = k
                        walk_tree(eq_t, l2, dict(known), depth + 1)
                        walk_tree(ne_t, dict(lens), dict(known), depth + 1)
                        return
            if pl and pl["p"] and pl["p"][-1][0] == "ci" and not pl["p"][-1][3] and t.get("dty") == "u8":
                started[0] = True
                idx = pl["p"][-1][1]
                pk = pkey(pl)
                for v, tb in t["targets"]:
                    k2 = dict(known)
                    k2[(pk, idx)] = v
                    walk_tree(tb, dict(lens), k2, depth + 1)
                walk_tree(t["otherwise"], dict(lens), dict(known), depth + 1)
                return
            if not started[0] or strip(sym.operand(op))[0] == "discr":
                for v, tb in body.switch_edges(bb):
                    walk_tree(tb, dict(lens), dict(known), depth + 1)
                return
        for pk, L in lens.items():
            if all((pk, i) in known for i in range(L)):
                out.add((bytes(known[(pk, i)] for i in range(L)), bb))

    walk_tree(0, {}, {}, 0)
    return out
