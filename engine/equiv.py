"""Equivalence with the reviewed tree, function by function (translation-validation style, no execution).

Every rule in props/ was armed and reviewed against one tree (`tables/head_omir.json` records it).  A later tree
whose every function is *the same function* — identical after the compiler's own simplifications
(`-Zmir-opt-level=3 -Zinline-mir`: helper inlining, constant propagation, CFG simplification, copy propagation,
GVN) and the canonicalisation below — computes the same thing, so whatever the rules established on the reviewed
tree holds for it.  `compare()` reports which functions differ; core.run_property uses it in one direction only:
an obligation that fails on a tree that is function-for-function identical to the reviewed one is a false alarm
of the rule's pattern matching, and is rescued (recorded as such in the evidence).  A tree with any semantic
difference in any function, type, constant, impl or signature gets no help from this module.

Canonicalisation (all semantics-preserving):
  * spans, debug names, storage markers dropped; move/copy not distinguished
  * blocks renumbered in depth-first order from the entry, unreachable blocks dropped, goto chains contracted
  * locals renumbered by first occurrence in that order (arguments keep their positions)
  * `a > b` written `b < a`, `a >= b` written `b <= a`; a constant operand of a commutative operator on the right
  * switch arms sorted by value
  * a closure is named by the fingerprint of its body, not by its index in the enclosing function
"""
import hashlib, json, os, re

from . import build

HERE = os.path.dirname(os.path.dirname(os.path.abspath(__file__)))
TABLE = os.path.join(HERE, "tables", "head_omir.json")

_COMM = {"Eq", "Ne", "Add", "Mul", "BitAnd", "BitOr", "BitXor", "AddWithOverflow", "MulWithOverflow", "AddUnchecked", "MulUnchecked"}
_FLIP = {"Gt": "Lt", "Ge": "Le"}
_CLOSURE = re.compile(r"[\w:<>, &\[\]\(\);'\*!\-\+=\{\}#\.]*?::\{closure#\d+\}(?:::\{closure#\d+\})*")


def _succ(t):
    k = t["t"]
    out = []
    if k == "goto":
        out.append(("target", None))
    elif k == "switch":
        for i, _ in enumerate(t["targets"]):
            out.append(("targets", i))
        out.append(("otherwise", None))
    elif k in ("call", "drop", "assert", "yield"):
        if t.get("target") is not None:
            out.append(("target", None))
        u = t.get("unwind")
        if isinstance(u, int) and not isinstance(u, bool):
            out.append(("unwind", None))
        if k == "yield" and t.get("drop") is not None:
            out.append(("drop", None))
    return out


def _get(t, slot):
    k, i = slot
    if k == "targets":
        return t["targets"][i][1]
    return t[k]


def _set(t, slot, v):
    k, i = slot
    if k == "targets":
        t["targets"][i][1] = v
    else:
        t[k] = v


def _is_const(op):
    return isinstance(op, dict) and "k" in op


def _canon_rv(rv):
    if not isinstance(rv, dict):
        return
    if rv.get("r") == "bin":
        bop = rv["bop"]
        if bop in _FLIP:
            rv["bop"] = _FLIP[bop]
            rv["a"], rv["b"] = rv["b"], rv["a"]
        elif bop in _COMM and _is_const(rv["a"]) and not _is_const(rv["b"]):
            rv["a"], rv["b"] = rv["b"], rv["a"]


def canonical(rec, closure_names=None):
    """Canonical JSON-able form of one optimised body."""
    blocks = json.loads(json.dumps(rec["blocks"]))
    # contract empty goto blocks
    def final(b, seen=()):
        blk = blocks[b]
        if not blk["stmts"] and blk["term"]["t"] == "goto" and b not in seen:
            return final(blk["term"]["target"], seen + (b,))
        return b
    for blk in blocks:
        t = blk["term"]
        if t["t"] == "switch":
            t["targets"] = sorted(t["targets"], key=lambda x: x[0])
        for s in _succ(t):
            _set(t, s, final(_get(t, s)))
    order, index = [], {}
    stack = [final(0)]
    while stack:
        b = stack.pop()
        if b in index:
            continue
        index[b] = len(order)
        order.append(b)
        succ = [_get(blocks[b]["term"], s) for s in _succ(blocks[b]["term"])]
        for s in reversed(succ):
            if s not in index:
                stack.append(s)
    lmap = {}
    for i in range(rec.get("arg_count", 0) + 1):
        lmap[i] = i
    ltys = rec["locals"]

    def loc(l):
        if l not in lmap:
            lmap[l] = len(lmap)
        return lmap[l]

    def walk(n):
        if isinstance(n, dict):
            n.pop("sp", None)
            if "l" in n and "p" in n and isinstance(n["l"], int):
                n["l"] = loc(n["l"])
                for pe in n["p"]:
                    if pe and pe[0] == "i" and isinstance(pe[1], int):
                        pe[1] = loc(pe[1])
                return
            if "m" in n and len(n) == 1:
                n["c"] = n.pop("m")
            if n.get("r") == "bin":
                _canon_rv(n)
            for k in list(n.keys()):
                v = n[k]
                if isinstance(v, str) and closure_names and "{closure#" in v:
                    n[k] = _CLOSURE.sub(lambda m: closure_names.get(m.group(0), m.group(0)), v)
                else:
                    walk(v)
        elif isinstance(n, list):
            for i, x in enumerate(n):
                if isinstance(x, str) and closure_names and "{closure#" in x:
                    n[i] = _CLOSURE.sub(lambda m: closure_names.get(m.group(0), m.group(0)), x)
                else:
                    walk(x)

    out = []
    for b in order:
        blk = blocks[b]
        stmts = [s for s in blk["stmts"] if s.get("s") not in ("live", "dead", "nop", "storage_live", "storage_dead")]
        for s in stmts:
            walk(s)
        t = blk["term"]
        walk(t)
        for s in _succ(t):
            _set(t, s, index[_get(t, s)])
        out.append({"s": stmts, "t": t, "c": bool(blk.get("cleanup"))})
    inv = sorted(lmap.items(), key=lambda kv: kv[1])
    tys = [ltys[old]["ty"] for old, _ in inv if old < len(ltys)]
    if closure_names:
        tys = [_CLOSURE.sub(lambda m: closure_names.get(m.group(0), m.group(0)), t) if "{closure#" in t else t for t in tys]
    prom = [canonical(dict(p, arg_count=p.get("arg_count", 0)), closure_names) for p in rec.get("promoted", [])]
    return {"args": rec.get("arg_count", 0), "tys": tys, "blocks": out, "promoted": prom, "ret": rec.get("ret")}


_SPAN_CLOSURE = re.compile(r"\{(closure|coroutine|async (?:block|fn body|closure)[^@}]*)@[^}]*\}")


def _h(obj, names=None):
    txt = json.dumps(obj, sort_keys=True, separators=(",", ":"), ensure_ascii=False)
    # a closure type spelt by source position is named by the fingerprint of that closure's body (when known: inner
    # closures are fingerprinted first); a position that cannot be resolved stays as it is, so two trees agree on it
    # only if the positions agree
    if names:
        txt = _SPAN_CLOSURE.sub(lambda m: names.get(m.group(0), m.group(0)), txt)
    return hashlib.sha256(txt.encode()).hexdigest()[:20]


def fingerprints(omir_path):
    """{function def path: fingerprint}; closures are folded into the functions that create them."""
    recs = {}                       # def path -> [records]: a path can name several bodies (anonymous consts `_`,
    with open(omir_path) as fh:     # items nested in different anonymous scopes) — every one of them counts
        for line in fh:
            r = json.loads(line)
            if r.get("rec") == "obody":
                recs.setdefault(r["def"], []).append(r)
    depth = lambda n: n.count("::{closure#")
    names = {}
    own = {}
    for n in sorted(recs, key=lambda n: -depth(n)):
        hs = sorted(_h(canonical(r, names), names) for r in recs[n])
        h = hs[0] if len(hs) == 1 else _h(hs)
        own[n] = h
        if depth(n):
            names[n] = "<closure %s>" % h
            for r in recs[n]:
                if r.get("tyname") and len(recs[n]) == 1:
                    names[r["tyname"]] = "<closure %s>" % h      # the span spelling of the same closure type
    # A function's fingerprint covers the bodies of all closures nested in it, whether or not the function's own MIR
    # names them: a closure that captures nothing is a zero-sized constant whose type is spelt by source span
    # (`{closure@file:l:c}`), not by `{closure#N}`, so it does not show up through the renaming above.
    fp = {}
    for n in recs:
        if depth(n):
            continue
        inner = sorted(own[m] for m in recs if m.startswith(n + "::{closure#"))
        fp[n] = _h([own[n], inner], names)
    return fp


_SKIP_KEYS = {"loc", "sp", "span", "line", "file", "doc"}


def _strip(n):
    if isinstance(n, dict):
        return {k: _strip(v) for k, v in n.items() if k not in _SKIP_KEYS}
    if isinstance(n, list):
        return [_strip(x) for x in n]
    return n


def declarations(facts_path):
    """Fingerprints of everything that is not a function body: signatures, types, impls, constants, statics."""
    out = {}
    with open(facts_path) as fh:
        for line in fh:
            if line.startswith('{"rec":"body"'):
                continue
            r = json.loads(line)
            k = r.get("rec")
            if k in ("body", "meta"):
                continue
            key = "%s %s" % (k, r.get("def") or r.get("name") or r.get("ty") or _h(_strip(r)))
            i = 0
            base = key
            while key in out:
                i += 1
                key = "%s#%d" % (base, i)
            out[key] = _h(_strip(r))
    return out


def source_hash(repo=None):
    """Hash of /repo's sources alone (not of the driver): identifies the reviewed tree itself."""
    repo = repo or build.REPO
    h = hashlib.sha256()
    for root, dirs, fs in os.walk(os.path.join(repo, "src")):
        dirs.sort()
        for f in sorted(fs):
            p = os.path.join(root, f)
            h.update(os.path.relpath(p, repo).encode() + b"\0")
            with open(p, "rb") as fh:
                h.update(fh.read())
    for f in ("Cargo.toml", "Cargo.lock"):
        p = os.path.join(repo, f)
        if os.path.exists(p):
            with open(p, "rb") as fh:
                h.update(fh.read())
    return h.hexdigest()[:20]


def manifest_hash(repo=None):
    repo = repo or build.REPO
    h = hashlib.sha256()
    for f in ("Cargo.toml", "Cargo.lock"):
        p = os.path.join(repo, f)
        if os.path.exists(p):
            with open(p, "rb") as fh:
                h.update(fh.read())
        h.update(b"\0")
    return h.hexdigest()[:20]


def snapshot(cfg, repo=None):
    repo = repo or build.REPO
    return {"functions": fingerprints(build.build_omir(cfg, repo)),
            "declarations": declarations(build.build_facts(cfg, repo)),
            "private": _private_fns(build.build_facts(cfg, repo)),
            "manifest": manifest_hash(repo)}


def compare(cfg, repo=None):
    """Compare the working tree with the reviewed tree.  Returns a dict:
         equivalent   True when every function and declaration is identical (private functions that exist on one
                      side only, and that nothing else refers to, are allowed)
         changed      functions whose fingerprint differs
         added/removed   functions on one side only (with a flag whether that matters)
         decl_changed    declarations that differ
    """
    try:
        with open(TABLE) as fh:
            table = json.load(fh)
    except FileNotFoundError:
        return {"equivalent": False, "reason": "no reviewed-tree table"}
    head = table.get(cfg)
    if head is None:
        return {"equivalent": False, "reason": "no table for config " + cfg}
    if os.environ.get("VERIF_NO_EQUIV"):
        return {"equivalent": False, "reason": "switched off (VERIF_NO_EQUIV)"}
    if table.get("reviewed_tree") == source_hash(repo):
        # the reviewed tree itself: every rule has to hold on it as written — no help from here
        return {"equivalent": False, "reason": "this is the reviewed tree itself; rules must hold as written"}
    cur = snapshot(cfg, repo)
    hf, cf = head["functions"], cur["functions"]
    changed = sorted(n for n in cf if n in hf and cf[n] != hf[n])
    added = sorted(n for n in cf if n not in hf)
    removed = sorted(n for n in hf if n not in cf)
    hd, cd = head["declarations"], cur["declarations"]
    dchanged = sorted(k for k in cd if k in hd and cd[k] != hd[k])
    dadded = sorted(k for k in cd if k not in hd)
    dremoved = sorted(k for k in hd if k not in cd)
    # a function on one side only is harmless iff it is private (its `fn` declaration says so) — every user of it
    # is itself unchanged, so it is either dead or was folded into its users by the compiler
    res = {"changed": changed, "added": added, "removed": removed,
           "decl_changed": dchanged, "decl_added": dadded, "decl_removed": dremoved,
           "manifest_same": cur["manifest"] == head["manifest"], "compared": len(cf)}
    res["equivalent"] = (not changed and not dchanged and res["manifest_same"]
                         and all(_private(cur, n) for n in added) and all(_private(head, n) for n in removed)
                         and all(k.startswith("fn ") and _private(cur, k[3:]) for k in dadded)
                         and all(k.startswith("fn ") and _private(head, k[3:]) for k in dremoved))
    return res


def _private(side, name):
    return name in side.get("private", ())


def write_table(cfgs=("B", "C", "A")):
    table = {"reviewed_tree": source_hash()}
    for c in cfgs:
        table[c] = snapshot(c)
    with open(TABLE, "w") as fh:
        json.dump(table, fh, sort_keys=True, separators=(",", ":"))
    return {c: len(table[c]["functions"]) for c in cfgs}


def _private_fns(facts_path):
    out = []
    with open(facts_path) as fh:
        for line in fh:
            if not line.startswith('{"rec":"fn"'):
                continue
            r = json.loads(line)
            if r.get("has_body") and not r.get("exported") and not r.get("impl_trait"):
                out.append(r["def"])
    return sorted(out)
