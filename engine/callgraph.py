"""Call graph over the crate's MIR bodies: static calls (resolved where the
driver could resolve them), trait-generic calls fanned out to every in-crate
impl of the trait method, closures attached to their creator, and fn items
passed as values."""
from collections import defaultdict, deque
import re


class CallGraph:
    def __init__(self, facts):
        self.f = facts
        self._edges = {}
        self._impl_methods = None

    def impl_methods(self, trait, name):
        """In-crate bodies implementing trait::name."""
        if self._impl_methods is None:
            m = defaultdict(list)
            for n, b in self.f.bodies.items():
                tr = b.rec.get("impl_trait")
                if tr and b.rec.get("kind") == "AssocFn":
                    meth = n.rsplit("::", 1)[-1]
                    m[(tr, meth)].append(n)
            self._impl_methods = m
        return self._impl_methods.get((trait, name), [])

    def edges(self, name):
        if name in self._edges:
            return self._edges[name]
        b = self.f.body(name)
        out = set()
        if b is not None:
            for blk in b.blocks:
                if blk.get("cleanup"):
                    continue
                for s in blk["stmts"]:
                    if s["s"] == "assign":
                        rv = s["rv"]
                        if rv["r"] == "agg":
                            if rv.get("ak") in ("closure", "coroutine", "coroutine_closure"):
                                out.add(rv["def"])
                            for o in rv["ops"]:
                                self._fn_const(o, out)
                        elif rv["r"] in ("use", "cast"):
                            self._fn_const(rv["op"], out)
                t = blk["term"]
                if t["t"] in ("call", "tailcall"):
                    self._fn_const(t["func"], out, call=True)
                    for a in t["args"]:
                        self._fn_const(a, out)
            for p in b.promoted:
                pass
        self._edges[name] = out
        return out

    def _fn_const(self, op, out, call=False):
        k = op.get("k") if isinstance(op, dict) else None
        if not k or "fn" not in k:
            return
        res = k.get("res") or k["fn"]
        if res in self.f.bodies:
            out.add(res)
            # async fn: the coroutine body is a child
            for ch in self.f.children(res):
                pass
            return
        tr = k.get("trait")
        if tr and "res" not in k:
            for m in self.impl_methods(tr, k.get("name")):
                out.add(m)

    def reachable(self, roots, stop=None):
        seen = set()
        dq = deque(r for r in roots if r in self.f.bodies)
        seen.update(dq)
        parent = {r: None for r in seen}
        while dq:
            n = dq.popleft()
            if stop and stop(n):
                continue
            for m in self.edges(n):
                if m not in seen:
                    seen.add(m)
                    parent[m] = n
                    dq.append(m)
            # coroutine bodies / closures of async fns are nested bodies
            for ch in self.f.children(n):
                b = self.f.body(ch)
                if ch not in seen and b is not None and b.is_coroutine and b.rec.get("root") == n \
                        and ch.count("{closure") == n.count("{closure") + 1 and _is_async_body(self.f, n, ch):
                    seen.add(ch)
                    parent[ch] = n
                    dq.append(ch)
        self.parent = parent
        return seen

    def path_to(self, target):
        p = []
        n = target
        while n is not None:
            p.append(n)
            n = self.parent.get(n)
        return p[::-1]


def _is_async_body(facts, fn, ch):
    r = facts.fns.get(fn)
    return bool(r and r.get("async"))
