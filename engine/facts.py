"""Fact loading and basic program-graph helpers (stdlib only).

Facts come from /verif/driver (one JSON record per line).  Nothing here runs
or interprets /repo code; it only indexes the compiler's view of it.
"""
import json, os, pickle, re, sys
from collections import defaultdict, deque


_HEAD_PARAMS = None


def _head_params():
    """Parameter names at the time the rules were written (tables/head_params.json).  Parameters are positions; the
    rules spell them with the names they had then."""
    global _HEAD_PARAMS
    if _HEAD_PARAMS is None:
        _HEAD_PARAMS = {}
        if not os.environ.get("VERIF_NO_HEAD_PARAMS"):
            p = os.path.join(os.path.dirname(os.path.dirname(os.path.abspath(__file__))), "tables", "head_params.json")
            try:
                with open(p) as fh:
                    _HEAD_PARAMS = json.load(fh)["params"]
            except (OSError, ValueError, KeyError):
                _HEAD_PARAMS = {}
    return _HEAD_PARAMS


def _relabel_params(rec):
    want = _head_params().get(rec.get("def"))
    n = rec.get("arg_count", 0)
    if not want or len(want) != n:
        return
    locs = rec["locals"]
    if [w[1] for w in want] != [locs[i]["ty"] for i in range(1, n + 1)]:
        return                          # different signature: not the same parameters
    want = [w[0] for w in want]
    cur = [locs[i].get("name") for i in range(1, n + 1)]
    if cur == want:
        return
    others = {l.get("name") for i, l in enumerate(locs) if i > n and l.get("name")}
    for i in range(1, n + 1):
        w = want[i - 1]
        if w and locs[i].get("name") and locs[i].get("name") != w and w not in others:
            # keep the upvar/debug spelling out of the way of other locals that use the old name
            locs[i] = dict(locs[i], name=w, renamed_from=locs[i].get("name"))


class Body:
    __slots__ = ("rec", "name", "blocks", "locals", "arg_count", "_succ", "_pred",
                 "_defs", "promoted", "facts", "_calls", "_closures")

    def __init__(self, rec, facts=None):
        if "def" in rec and not rec.get("coroutine") and "{closure" not in rec["def"]:
            _relabel_params(rec)
        self.rec = rec
        self.name = rec.get("def", "<promoted>")
        self.blocks = rec["blocks"]
        self.locals = rec["locals"]
        self.arg_count = rec["arg_count"]
        self.promoted = [Body(dict(p, **{"def": self.name + "::{promoted#%d}" % i}), facts)
                         for i, p in enumerate(rec.get("promoted", []))]
        self.facts = facts
        self._succ = None
        self._pred = None
        self._defs = None
        self._calls = None
        self._closures = None

    # -- identity ---------------------------------------------------------
    @property
    def loc(self):
        return self.rec.get("loc", "?")

    @property
    def file(self):
        return self.loc.rsplit(":", 1)[0]

    @property
    def is_coroutine(self):
        return bool(self.rec.get("coroutine"))

    @property
    def ret_ty(self):
        return self.rec.get("ret", self.locals[0]["ty"])

    def local_name(self, l):
        return self.locals[l].get("name")

    def local_ty(self, l):
        return self.locals[l]["ty"]

    def arg_locals(self):
        return list(range(1, self.arg_count + 1))

    # -- CFG --------------------------------------------------------------
    def term(self, bb):
        return self.blocks[bb]["term"]

    def is_cleanup(self, bb):
        return bool(self.blocks[bb].get("cleanup"))

    def succs(self, bb):
        """Normal (non-unwind) successors."""
        if self._succ is None:
            self._build_cfg()
        return self._succ[bb]

    def preds(self, bb):
        if self._pred is None:
            self._build_cfg()
        return self._pred[bb]

    def _build_cfg(self):
        n = len(self.blocks)
        succ = [[] for _ in range(n)]
        pred = [[] for _ in range(n)]
        for i, b in enumerate(self.blocks):
            t = b["term"]
            k = t["t"]
            out = []
            if k in ("goto", "drop", "assert", "yield"):
                out = [t["target"]]
            elif k == "call":
                if t["target"] is not None:
                    out = [t["target"]]
            elif k == "switch":
                seen = set()
                for v, tb in t["targets"]:
                    if tb not in seen:
                        seen.add(tb)
                        out.append(tb)
                if t["otherwise"] not in seen:
                    out.append(t["otherwise"])
            succ[i] = out
            for o in out:
                pred[o].append(i)
        self._succ = succ
        self._pred = pred

    def switch_edges(self, bb):
        """[(value or None for otherwise, target)] of a switch terminator."""
        t = self.term(bb)
        assert t["t"] == "switch"
        return [(v, tb) for v, tb in t["targets"]] + [(None, t["otherwise"])]

    def return_blocks(self):
        return [i for i, b in enumerate(self.blocks) if b["term"]["t"] == "return"]

    def reachable(self, start=0, removed_blocks=(), removed_edges=()):
        """Blocks reachable from `start` along normal edges."""
        removed_blocks = set(removed_blocks)
        removed_edges = set(removed_edges)
        if start in removed_blocks:
            return set()
        seen = {start}
        dq = deque([start])
        while dq:
            b = dq.popleft()
            for s in self.succs(b):
                if s in seen or s in removed_blocks or (b, s) in removed_edges:
                    continue
                seen.add(s)
                dq.append(s)
        return seen

    def path(self, start, goals, removed_blocks=(), removed_edges=()):
        """Shortest block path from start to any goal (or None)."""
        removed_blocks = set(removed_blocks)
        removed_edges = set(removed_edges)
        goals = set(goals)
        if start in removed_blocks:
            return None
        prev = {start: None}
        dq = deque([start])
        while dq:
            b = dq.popleft()
            if b in goals:
                p = []
                while b is not None:
                    p.append(b)
                    b = prev[b]
                return p[::-1]
            for s in self.succs(b):
                if s in prev or s in removed_blocks or (b, s) in removed_edges:
                    continue
                prev[s] = b
                dq.append(s)
        return None

    def can_reach(self, targets, removed_blocks=(), removed_edges=()):
        """Set of blocks from which some block in `targets` is reachable."""
        removed_blocks = set(removed_blocks)
        removed_edges = set(removed_edges)
        seen = set(t for t in targets if t not in removed_blocks)
        dq = deque(seen)
        while dq:
            b = dq.popleft()
            for p in self.preds(b):
                if p in seen or p in removed_blocks or (p, b) in removed_edges:
                    continue
                seen.add(p)
                dq.append(p)
        return seen

    def dominators(self):
        """Immediate-dominator-free simple dominator sets (small CFGs)."""
        n = len(self.blocks)
        reach = sorted(self.reachable(0))
        dom = {b: set(reach) for b in reach}
        dom[0] = {0}
        changed = True
        while changed:
            changed = False
            for b in reach:
                if b == 0:
                    continue
                ps = [p for p in self.preds(b) if p in dom]
                if not ps:
                    continue
                new = set.intersection(*(dom[p] for p in ps)) | {b}
                if new != dom[b]:
                    dom[b] = new
                    changed = True
        return dom

    def cycles_sccs(self):
        """Strongly connected components with more than one node or a self loop."""
        n = len(self.blocks)
        index = {}
        low = {}
        onstack = set()
        stack = []
        out = []
        counter = [0]
        reach = self.reachable(0)
        # iterative Tarjan
        for root in sorted(reach):
            if root in index:
                continue
            work = [(root, iter(self.succs(root)))]
            index[root] = low[root] = counter[0]
            counter[0] += 1
            stack.append(root)
            onstack.add(root)
            while work:
                v, it = work[-1]
                adv = False
                for w in it:
                    if w not in reach:
                        continue
                    if w not in index:
                        index[w] = low[w] = counter[0]
                        counter[0] += 1
                        stack.append(w)
                        onstack.add(w)
                        work.append((w, iter(self.succs(w))))
                        adv = True
                        break
                    elif w in onstack:
                        low[v] = min(low[v], index[w])
                if adv:
                    continue
                work.pop()
                if work:
                    u = work[-1][0]
                    low[u] = min(low[u], low[v])
                if low[v] == index[v]:
                    comp = []
                    while True:
                        w = stack.pop()
                        onstack.discard(w)
                        comp.append(w)
                        if w == v:
                            break
                    if len(comp) > 1 or v in self.succs(v):
                        out.append(sorted(comp))
        return out

    # -- statements / defs ---------------------------------------------------
    def stmts(self, bb):
        return self.blocks[bb]["stmts"]

    def defs(self):
        """local -> list of (bb, idx|'term', kind, payload) definitions of the
        whole local (no projection)."""
        if self._defs is not None:
            return self._defs
        d = defaultdict(list)
        for bi, b in enumerate(self.blocks):
            for si, s in enumerate(b["stmts"]):
                if s["s"] == "assign":
                    pl = s["pl"]
                    d[pl["l"]].append((bi, si, "assign" if not pl["p"] else "partial", s))
                elif s["s"] == "setdiscr":
                    d[s["pl"]["l"]].append((bi, si, "partial", s))
            t = b["term"]
            if t["t"] == "call":
                pl = t["dest"]
                d[pl["l"]].append((bi, "term", "call" if not pl["p"] else "partial", t))
            elif t["t"] == "yield":
                pl = t["resume_arg"]
                d[pl["l"]].append((bi, "term", "yield", t))
        self._defs = d
        return d

    def calls(self):
        """List of CallSite for all call terminators (non-cleanup blocks)."""
        if self._calls is None:
            out = []
            for bi, b in enumerate(self.blocks):
                t = b["term"]
                if t["t"] in ("call", "tailcall"):
                    out.append(CallSite(self, bi, t))
            self._calls = out
        return self._calls

    def closures_created(self):
        """def-paths of closures / coroutines created in this body."""
        if self._closures is None:
            out = []
            for bi, b in enumerate(self.blocks):
                for s in b["stmts"]:
                    if s["s"] == "assign" and s["rv"]["r"] == "agg" and \
                            s["rv"].get("ak") in ("closure", "coroutine", "coroutine_closure"):
                        out.append((bi, s["pl"]["l"], s["rv"]["def"], s))
            self._closures = out
        return self._closures

    def line_of(self, bb, idx="term"):
        if idx == "term":
            sp = self.blocks[bb]["term"].get("sp")
        else:
            sp = self.blocks[bb]["stmts"][idx].get("sp")
        return sp[0] if sp else None

    def where(self, bb, idx="term"):
        ln = self.line_of(bb, idx)
        return "%s:%s" % (self.file, ln if ln is not None else "?")


class CallSite:
    __slots__ = ("body", "bb", "t", "k")

    def __init__(self, body, bb, t):
        self.body = body
        self.bb = bb
        self.t = t
        f = t["func"]
        self.k = f.get("k") if isinstance(f, dict) else None

    @property
    def is_static(self):
        return self.k is not None and "fn" in self.k

    @property
    def fn(self):
        """Declared callee path (trait method path for trait calls)."""
        return self.k.get("fn") if self.k else None

    @property
    def res(self):
        """Resolved callee path if resolution succeeded, else declared."""
        if not self.k:
            return None
        return self.k.get("res") or self.k.get("fn")

    @property
    def krate(self):
        if not self.k:
            return None
        return self.k.get("res_krate") or self.k.get("krate")

    @property
    def name(self):
        return self.k.get("name") if self.k else None

    @property
    def trait(self):
        return self.k.get("trait") if self.k else None

    @property
    def ga(self):
        return self.k.get("ga", []) if self.k else []

    @property
    def args(self):
        return self.t["args"]

    @property
    def dest(self):
        return self.t.get("dest")

    @property
    def target(self):
        return self.t.get("target")

    @property
    def line(self):
        sp = self.t.get("sp")
        return sp[0] if sp else None

    @property
    def macro(self):
        sp = self.t.get("sp")
        return sp[1] if sp and len(sp) > 1 else None

    def where(self):
        return "%s:%s" % (self.body.file, self.line)

    def __repr__(self):
        return "<call %s in %s bb%d>" % (self.res, self.body.name, self.bb)


class Facts:
    def __init__(self, path):
        self.path = path
        self.bodies = {}
        self.fns = {}
        self.adts = {}
        self.impls = []
        self.consts = {}
        self.meta = None
        with open(path) as f:
            for line in f:
                r = json.loads(line)
                k = r["rec"]
                if k == "body":
                    n = r["def"]
                    if n in self.bodies:      # anonymous `const _` items of derives
                        i = 2
                        while "%s#%d" % (n, i) in self.bodies:
                            i += 1
                        n = "%s#%d" % (n, i)
                        r["def"] = n
                    self.bodies[n] = Body(r, self)
                elif k == "fn":
                    self.fns[r["def"]] = r
                elif k == "adt":
                    self.adts[r["def"]] = r
                elif k == "impl":
                    self.impls.append(r)
                elif k == "const":
                    self.consts[r["def"]] = r
                elif k == "meta":
                    self.meta = r
        if self.meta is None:
            raise RuntimeError("fact file %s has no meta record (truncated?)" % path)
        self._callers = None
        self._children = None
        # constants of struct type whose initialiser is a literal aggregate of integers (`ErrorCode(4)`): the
        # integer fields are recorded, so `ErrorCode::X.0` folds like a named integer constant does
        for n, c in self.consts.items():
            b = self.bodies.get(n)
            if "v" in c or b is None or len(b.blocks) != 1 or b.blocks[0]["term"]["t"] != "return":
                continue
            for st in b.blocks[0]["stmts"]:
                if st["s"] == "assign" and st["pl"]["l"] == 0 and not st["pl"]["p"] and st["rv"]["r"] == "agg" \
                        and st["rv"].get("ak") == "adt":
                    ops = st["rv"]["ops"]
                    vals = [o.get("k", {}).get("v") if isinstance(o, dict) else None for o in ops]
                    if ops and all(isinstance(v, int) and not isinstance(v, bool) for v in vals):
                        fs = st["rv"].get("fields") or []
                        if len(fs) != len(ops):
                            fs = [str(i) for i in range(len(ops))]
                        c["fields"] = dict(zip([str(x) for x in fs], vals))

    # closures / nested bodies by root fn
    def children(self, name):
        if self._children is None:
            ch = defaultdict(list)
            for n, b in self.bodies.items():
                root = b.rec.get("root")
                if root:
                    ch[root].append(n)
            self._children = ch
        return self._children.get(name, [])

    def body(self, name):
        return self.bodies.get(name)

    def find_bodies(self, pattern):
        rx = re.compile(pattern)
        return [b for n, b in self.bodies.items() if rx.search(n)]

    def callers_of(self, callee_pred):
        out = []
        for b in self.bodies.values():
            for c in b.calls():
                if c.is_static and callee_pred(c):
                    out.append(c)
        return out

    def impls_of_trait(self, trait):
        return [i for i in self.impls if i.get("trait") == trait]

    def impls_for_adt(self, adt):
        return [i for i in self.impls if i.get("adt") == adt]


_LOADED = {}


def load(path):
    if path not in _LOADED:
        _LOADED[path] = Facts(path)
    return _LOADED[path]


# -- pretty printing (for --dump and for replay files) ------------------------

def fmt_place(body, pl):
    s = "_%d" % pl["l"]
    n = body.local_name(pl["l"]) if body else None
    if n:
        s = "%s{%s}" % (s, n)
    for p in pl["p"]:
        k = p[0]
        if k == "d":
            s = "(*%s)" % s
        elif k == "f":
            s = "%s.%s" % (s, p[1])
        elif k == "i":
            s = "%s[_%d]" % (s, p[1])
        elif k == "ci":
            s = "%s[%s%d]" % (s, "-" if p[3] else "", p[1])
        elif k == "ss":
            s = "%s[%d..%s%d]" % (s, p[1], "-" if p[3] else "", p[2])
        elif k == "dc":
            s = "(%s as %s)" % (s, p[1])
        else:
            s = "%s.<%s>" % (s, k)
    return s


def fmt_operand(body, op):
    if "c" in op:
        return fmt_place(body, op["c"])
    if "m" in op:
        return "move " + fmt_place(body, op["m"])
    if "k" in op:
        k = op["k"]
        if "fn" in k:
            r = k.get("res") or k["fn"]
            return "fn %s" % r
        if "v" in k:
            return "const %s" % k["v"]
        if "bytes" in k and k["bytes"] is not None:
            try:
                return "const %r" % bytes(k["bytes"])
            except Exception:
                return "const <bytes>"
        if "promoted" in k:
            return "promoted[%d]" % k["promoted"]
        if "cdef" in k:
            return "const %s" % k["cdef"]
        return "const <%s>" % k.get("dbg", k.get("ty"))
    if "rc" in op:
        return "rtcheck(%s)" % op["rc"]
    return "?"


def fmt_rvalue(body, rv):
    r = rv["r"]
    if r == "use":
        return fmt_operand(body, rv["op"])
    if r == "ref":
        return "&%s%s" % ("mut " if rv["mut"] else "", fmt_place(body, rv["pl"]))
    if r == "cast":
        return "%s as %s (%s)" % (fmt_operand(body, rv["op"]), rv["ty"], rv["ck"])
    if r == "bin":
        return "%s(%s, %s)" % (rv["bop"], fmt_operand(body, rv["a"]), fmt_operand(body, rv["b"]))
    if r == "un":
        return "%s(%s)" % (rv["uop"], fmt_operand(body, rv["a"]))
    if r == "discr":
        return "discriminant(%s)" % fmt_place(body, rv["pl"])
    if r == "agg":
        ak = rv["ak"]
        ops = ", ".join(fmt_operand(body, o) for o in rv["ops"])
        if ak == "adt":
            fs = rv["fields"]
            if len(fs) == len(rv["ops"]):
                ops = ", ".join("%s: %s" % (f, fmt_operand(body, o)) for f, o in zip(fs, rv["ops"]))
            return "%s::%s { %s }" % (rv["adt"], rv["variant"], ops)
        if ak in ("closure", "coroutine", "coroutine_closure"):
            return "%s %s [%s]" % (ak, rv["def"], ops)
        return "%s(%s)" % (ak, ops)
    if r == "repeat":
        return "[%s; %s]" % (fmt_operand(body, rv["op"]), rv["n"])
    if r == "rawptr":
        return "&raw %s" % fmt_place(body, rv["pl"])
    return r


def fmt_body(body, out=None):
    lines = []
    lines.append("fn %s  [%s]%s" % (body.name, body.loc, " coroutine" if body.is_coroutine else ""))
    for i, l in enumerate(body.locals):
        tag = "arg" if 1 <= i <= body.arg_count else ("ret" if i == 0 else "")
        lines.append("  let _%d: %s %s %s" % (i, l["ty"], l.get("name", ""), tag))
    for bi, b in enumerate(body.blocks):
        lines.append(" bb%d%s:" % (bi, " (cleanup)" if b.get("cleanup") else ""))
        for s in b["stmts"]:
            if s["s"] == "assign":
                lines.append("    %s = %s   @%s" % (fmt_place(body, s["pl"]), fmt_rvalue(body, s["rv"]), s.get("sp")))
            elif s["s"] == "setdiscr":
                lines.append("    discriminant(%s) = %d" % (fmt_place(body, s["pl"]), s["vidx"]))
            else:
                lines.append("    %s" % s)
        t = b["term"]
        k = t["t"]
        if k == "call":
            lines.append("    %s = %s(%s) -> bb%s   @%s" % (
                fmt_place(body, t["dest"]), fmt_operand(body, t["func"]),
                ", ".join(fmt_operand(body, a) for a in t["args"]), t["target"], t.get("sp")))
        elif k == "switch":
            lines.append("    switch(%s) %s otherwise bb%d" % (
                fmt_operand(body, t["discr"]),
                ", ".join("%s:bb%d" % (v, tb) for v, tb in t["targets"]), t["otherwise"]))
        elif k == "assert":
            lines.append("    assert(%s == %s, %s) -> bb%d" % (
                fmt_operand(body, t["cond"]), t["expected"], t["kind"], t["target"]))
        elif k in ("goto", "drop"):
            lines.append("    %s -> bb%d" % (k if k == "goto" else "drop(%s)" % fmt_place(body, t["pl"]), t["target"]))
        elif k == "yield":
            lines.append("    yield(%s) -> bb%d" % (fmt_operand(body, t["value"]), t["target"]))
        else:
            lines.append("    %s" % k)
    for i, p in enumerate(body.promoted):
        lines.append(" -- promoted[%d]" % i)
        lines.extend("   " + x for x in fmt_body(p).split("\n")[1:])
    return "\n".join(lines)
