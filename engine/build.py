"""Build (or reuse) the fact file for /repo's current working tree.

The fact file is keyed by a hash of everything the compiler reads from /repo
(src/**, Cargo.toml, Cargo.lock), the driver binary and the feature
configuration, so the same tree is extracted once and a changed tree always
rebuilds.  Nothing is taken from /tmp.
"""
import fcntl, glob, hashlib, os, shutil, subprocess, sys, time

VERIF = os.path.dirname(os.path.dirname(os.path.abspath(__file__)))
REPO = os.environ.get("VERIF_REPO", "/repo")
CACHE = os.path.join(VERIF, ".cache")
DRIVER_DIR = os.path.join(VERIF, "driver")
DRIVER = os.path.join(DRIVER_DIR, "target", "release", "verif-driver")

ALL_BUT_COMPAT = "ca crypto repository rrdp rtr slurm xml serde-support softkeys arbitrary"
CONFIGS = {
    "A": [],                       # default features: what the pinned suite builds
    "B": ["--features", ALL_BUT_COMPAT],
    "C": ["--features", ALL_BUT_COMPAT + " compat"],
}
# minimum body counts seen when the rules were armed (fail closed on a
# truncated or skipped extraction)
MIN_BODIES = {"A": 400, "B": 4000, "C": 4000}


class BuildError(Exception):
    pass


def _sysroot():
    return subprocess.check_output(["rustc", "+nightly", "--print", "sysroot"], text=True).strip()


def tree_hash(repo=REPO):
    h = hashlib.sha256()
    files = []
    for root, dirs, fs in os.walk(os.path.join(repo, "src")):
        dirs.sort()
        for f in sorted(fs):
            files.append(os.path.join(root, f))
    for f in ("Cargo.toml", "Cargo.lock"):
        p = os.path.join(repo, f)
        if os.path.exists(p):
            files.append(p)
    for p in files:
        h.update(os.path.relpath(p, repo).encode())
        h.update(b"\0")
        with open(p, "rb") as fh:
            h.update(fh.read())
        h.update(b"\0")
    with open(os.path.join(DRIVER_DIR, "src", "main.rs"), "rb") as fh:
        h.update(fh.read())
    return h.hexdigest()[:20]


def ensure_driver():
    src = os.path.join(DRIVER_DIR, "src", "main.rs")
    if os.path.exists(DRIVER) and os.path.getmtime(DRIVER) >= os.path.getmtime(src):
        return
    env = dict(os.environ, CARGO_NET_OFFLINE="true")
    r = subprocess.run(["cargo", "build", "--release", "--offline"], cwd=DRIVER_DIR, env=env,
                       stdout=subprocess.PIPE, stderr=subprocess.STDOUT, text=True)
    if r.returncode != 0 or not os.path.exists(DRIVER):
        raise BuildError("driver build failed:\n" + r.stdout[-4000:])


SLOTS = max(1, int(os.environ.get("VERIF_BUILD_SLOTS", "1") or 1))      # tools that analyse many scratch trees at once raise this
KEEP = max(8, int(os.environ.get("VERIF_CACHE_KEEP", "8") or 8))


def _take_slot(kind, cfg):
    """(lock file handle, target dir) of a free build slot; blocks when all are busy.  Slot 0 is the plain target dir."""
    import random
    order = list(range(SLOTS))
    for k in order:
        lock = open(os.path.join(CACHE, "build-%s%s%s.lock" % (kind, cfg, "" if k == 0 else ".%d" % k)), "w")
        try:
            fcntl.flock(lock, fcntl.LOCK_EX | fcntl.LOCK_NB)
            return lock, os.path.join(CACHE, "target-%s%s%s" % (kind, cfg, "" if k == 0 else ".%d" % k))
        except OSError:
            lock.close()
    k = random.randrange(SLOTS)
    lock = open(os.path.join(CACHE, "build-%s%s%s.lock" % (kind, cfg, "" if k == 0 else ".%d" % k)), "w")
    fcntl.flock(lock, fcntl.LOCK_EX)
    return lock, os.path.join(CACHE, "target-%s%s%s" % (kind, cfg, "" if k == 0 else ".%d" % k))


def facts_path(cfg, repo=REPO):
    return os.path.join(CACHE, "facts-%s-%s.jsonl" % (cfg, tree_hash(repo)))


def build_facts(cfg="B", repo=REPO, quiet=True):
    """Return path of the fact file for (repo tree, cfg); build it if needed."""
    os.makedirs(CACHE, exist_ok=True)
    out = facts_path(cfg, repo)
    if os.path.exists(out) and os.path.getsize(out) > 0:
        try:
            os.utime(out, None)     # keep the fact file of a tree in use away from the cache GC
        except OSError:
            pass
        return out
    lock, target = _take_slot("", cfg)
    try:
        if os.path.exists(out) and os.path.getsize(out) > 0:
            return out
        ensure_driver()
        # cargo's freshness cache would skip the wrapper: drop the member's fingerprints
        for p in glob.glob(os.path.join(target, "debug", ".fingerprint", "rpki-*")):
            shutil.rmtree(p, ignore_errors=True)
        tmp = out + ".tmp.%d" % os.getpid()
        env = dict(os.environ)
        env.update({
            "CARGO_INCREMENTAL": "0",
            "CARGO_NET_OFFLINE": "true",
            "RUSTFLAGS": "-Zmir-opt-level=0 -Awarnings",
            "RUSTC_WORKSPACE_WRAPPER": DRIVER,
            "VERIF_FACTS_OUT": tmp,
            "CARGO_TARGET_DIR": target,
            "LD_LIBRARY_PATH": _sysroot() + "/lib:" + os.environ.get("LD_LIBRARY_PATH", ""),
        })
        env.pop("RUSTC_WRAPPER", None)
        cmd = ["cargo", "+nightly", "check", "--offline", "--lib"] + CONFIGS[cfg]
        t0 = time.time()
        r = subprocess.run(cmd, cwd=repo, env=env, stdout=subprocess.PIPE,
                           stderr=subprocess.STDOUT, text=True)
        if r.returncode != 0:
            if os.path.exists(tmp):
                os.remove(tmp)
            raise BuildError("cargo check (config %s) failed — /repo does not compile:\n%s"
                             % (cfg, r.stdout[-6000:]))
        if not os.path.exists(tmp) or os.path.getsize(tmp) == 0:
            raise BuildError("driver produced no facts for config %s (wrapper skipped?)\n%s"
                             % (cfg, r.stdout[-3000:]))
        # sanity: meta record present and body count above the armed floor
        with open(tmp, "rb") as fh:
            fh.seek(max(0, os.path.getsize(tmp) - 4096))
            tail = fh.read().decode("utf-8", "replace")
        if '"rec":"meta"' not in tail:
            raise BuildError("fact file truncated (no meta record)")
        os.replace(tmp, out)
        if not quiet:
            print("facts[%s] built in %.1fs -> %s" % (cfg, time.time() - t0, out))
        _gc(cfg, keep=out)
        return out
    finally:
        fcntl.flock(lock, fcntl.LOCK_UN)
        lock.close()


OMIR_FLAGS = "-Zmir-opt-level=3 -Zinline-mir=yes -Zinline-mir-threshold=400 -Zinline-mir-hint-threshold=400 -Awarnings"


def omir_path(cfg, repo=REPO):
    return os.path.join(CACHE, "omir-%s-%s.jsonl" % (cfg, tree_hash(repo)))


def build_omir(cfg="B", repo=REPO, quiet=True):
    """Optimised-MIR bodies (the compiler as normaliser) of (repo tree, cfg); see engine/equiv.py."""
    os.makedirs(CACHE, exist_ok=True)
    out = omir_path(cfg, repo)
    if os.path.exists(out) and os.path.getsize(out) > 0:
        try:
            os.utime(out, None)
        except OSError:
            pass
        return out
    lock, target = _take_slot("omir-", cfg)
    try:
        if os.path.exists(out) and os.path.getsize(out) > 0:
            return out
        ensure_driver()
        for p in glob.glob(os.path.join(target, "debug", ".fingerprint", "rpki-*")):
            shutil.rmtree(p, ignore_errors=True)
        tmp = out + ".tmp.%d" % os.getpid()
        env = dict(os.environ)
        env.update({
            "CARGO_INCREMENTAL": "0",
            "CARGO_NET_OFFLINE": "true",
            "RUSTFLAGS": OMIR_FLAGS,
            "RUSTC_WORKSPACE_WRAPPER": DRIVER,
            "VERIF_OMIR_OUT": tmp,
            "CARGO_TARGET_DIR": target,
            "LD_LIBRARY_PATH": _sysroot() + "/lib:" + os.environ.get("LD_LIBRARY_PATH", ""),
        })
        env.pop("RUSTC_WRAPPER", None)
        env.pop("VERIF_FACTS_OUT", None)
        cmd = ["cargo", "+nightly", "check", "--offline", "--lib"] + CONFIGS[cfg]
        t0 = time.time()
        r = subprocess.run(cmd, cwd=repo, env=env, stdout=subprocess.PIPE, stderr=subprocess.STDOUT, text=True)
        if r.returncode != 0:
            if os.path.exists(tmp):
                os.remove(tmp)
            raise BuildError("cargo check (omir, config %s) failed:\n%s" % (cfg, r.stdout[-6000:]))
        if not os.path.exists(tmp) or os.path.getsize(tmp) == 0:
            raise BuildError("driver produced no optimised MIR for config %s\n%s" % (cfg, r.stdout[-3000:]))
        with open(tmp, "rb") as fh:
            fh.seek(max(0, os.path.getsize(tmp) - 4096))
            tail = fh.read().decode("utf-8", "replace")
        if '"rec":"ometa"' not in tail:
            raise BuildError("optimised-MIR file truncated")
        os.replace(tmp, out)
        if not quiet:
            print("omir[%s] built in %.1fs -> %s" % (cfg, time.time() - t0, out))
        fs = sorted(glob.glob(os.path.join(CACHE, "omir-%s-*.jsonl" % cfg)), key=os.path.getmtime)
        for p in fs[:-max(4, KEEP // 2)]:
            if p != out:
                try:
                    os.remove(p)
                except OSError:
                    pass
        return out
    finally:
        fcntl.flock(lock, fcntl.LOCK_UN)
        lock.close()


def _gc(cfg, keep, max_files=None):
    """Keep the cache small: only the most recent fact files per config."""
    max_files = max_files or KEEP
    fs = sorted(glob.glob(os.path.join(CACHE, "facts-%s-*.jsonl" % cfg)), key=os.path.getmtime)
    for p in fs[:-max_files]:
        if p != keep:
            for q in (p, p + ".pickle"):
                try:
                    os.remove(q)
                except OSError:
                    pass


if __name__ == "__main__":
    cfgs = sys.argv[1:] or ["B"]
    for c in cfgs:
        p = build_facts(c, quiet=False)
        print(p)
