"""Provenance expressions: a backward slice of an operand through the MIR
def-use chains, rendered as a small term language.

Terms (tuples):
  ('param', name)                 function argument (user name or _N)
  ('upvar', name)                 closure capture
  ('var', name, local)            local with several definitions (not sliced further)
  ('const', value) ('bytes', b) ('cdef', path) ('fnref', path) ('unit',)
  ('field', base, name)           field projection (derefs are dropped)
  ('variant', base, name)         enum downcast  (base as Variant)
  ('index', base, idx)
  ('call', callee, (args...), info)   info = dict(fn, res, name, trait, ga, bb)
  ('bin', op, a, b) ('un', op, a) ('cast', a, ty)
  ('agg', kind, name, ((field, term)...))
  ('closure', def, (captures...))
  ('discr', base) ('len', base)
  ('yield', ) ('unknown', why)

Transparent wrappers (refs, derefs, copies, `clone`, `as_ref`, `deref`, `into`,
`borrow`, ...) are removed by `strip()` so that two spellings of the same value
get the same term.
"""
from functools import lru_cache

TRANSPARENT_NAMES = {
    # method name -> arity of interest (arg 0 is the value passed through)
    "clone", "as_ref", "as_mut", "deref", "deref_mut", "borrow", "borrow_mut", "into", "to_owned",
    "as_slice", "as_str", "as_bytes", "into_iter", "iter", "by_ref", "to_vec",
    "from",  # From::from(x)
    "into_future", "new_unchecked", "get_mut", "as_deref",
}
TRANSPARENT_TRAITS = {
    "std::clone::Clone", "std::convert::AsRef", "std::convert::AsMut", "std::ops::Deref",
    "std::ops::DerefMut", "std::borrow::Borrow", "std::borrow::BorrowMut", "std::convert::Into",
    "std::convert::From", "std::borrow::ToOwned", "std::iter::IntoIterator",
    "std::future::IntoFuture",
}


class Sym:
    def __init__(self, body, max_depth=40):
        self.body = body
        self.max_depth = max_depth
        self._memo = {}
        self._defs = body.defs()
        self._upv = {}
        for name, pl in body.rec.get("upvars", []):
            self._upv[_place_key(pl)] = name
        # locals whose address is taken mutably or that are assigned through projections
        self._multi = set()
        for l, ds in self._defs.items():
            full = [d for d in ds if d[2] in ("assign", "call", "yield")]
            if len(full) != 1 or any(d[2] == "partial" for d in ds):
                self._multi.add(l)
        # locals borrowed mutably (directly, not through a deref): their value may
        # change behind the single textual definition
        self._mutb = set()
        for blk in body.blocks:
            for s_ in blk["stmts"]:
                if s_["s"] == "assign" and s_["rv"]["r"] in ("ref", "rawptr") and \
                        (s_["rv"].get("mut") or s_["rv"].get("kind") == "Mut"):
                    pl = s_["rv"]["pl"]
                    if not any(p[0] == "d" for p in pl["p"]):
                        self._mutb.add(pl["l"])

    # ------------------------------------------------------------------
    def local(self, l, depth=0):
        if l in self._memo:
            return self._memo[l]
        if depth > self.max_depth:
            return ("unknown", "depth")
        b = self.body
        if 1 <= l <= b.arg_count:
            # an argument that is reassigned is still the parameter at entry;
            # we treat it as the parameter (reassignment of params is rare)
            r = ("param", b.local_name(l) or "_%d" % l)
            self._memo[l] = r
            return r
        ds = self._defs.get(l, [])
        full = [d for d in ds if d[2] in ("assign", "call", "yield")]
        if len(full) == 1 and not any(d[2] == "partial" for d in ds):
            self._memo[l] = ("unknown", "cycle")
            d = full[0]
            if d[2] == "assign":
                r = self.rvalue(d[3]["rv"], depth + 1)
            elif d[2] == "call":
                r = self.call(d[3], d[0], depth + 1)
            else:
                r = ("yield",)
            if l in self._mutb and r[0] not in ("closure",):
                r = ("mvar", b.local_name(l) or "_%d" % l, l, r)
            self._memo[l] = r
            return r
        if not ds:
            r = ("unknown", "undef _%d" % l)
        else:
            r = ("var", b.local_name(l) or "_%d" % l, l)
        self._memo[l] = r
        return r

    def defs_of_var(self, l):
        """All value terms assigned to a multiply-defined local."""
        out = []
        for d in self._defs.get(l, []):
            if d[2] == "assign":
                out.append((d[0], self.rvalue(d[3]["rv"], 1)))
            elif d[2] == "call":
                out.append((d[0], self.call(d[3], d[0], 1)))
            elif d[2] == "partial":
                out.append((d[0], ("unknown", "partial")))
        return out

    def place(self, pl, depth=0):
        key = _place_key(pl)
        # closure captures: (*_1).N or _1.N possibly followed by a deref
        if pl["l"] == 1 and pl["p"]:
            projs = pl["p"]
            for cut in range(len(projs), 0, -1):
                k = (1, _proj_key(projs[:cut]))
                if k in self._upv:
                    base = ("upvar", self._upv[k])
                    return self._project(base, projs[cut:], depth)
        base = self.local(pl["l"], depth)
        return self._project(base, pl["p"], depth)

    def _project(self, base, projs, depth):
        for p in projs:
            k = p[0]
            if k == "d":
                continue
            elif k == "f":
                base = _field(base, p[1], p[2] if len(p) > 2 else None)
            elif k == "dc":
                base = ("variant", base, p[1])
            elif k == "i":
                base = ("index", base, self.local(p[1], depth + 1))
            elif k == "ci":
                base = ("index", base, ("const", -p[1] if p[3] else p[1]))
            elif k == "ss":
                base = ("subslice", base, p[1], p[2], p[3])
            else:
                pass
        return base

    def operand(self, op, depth=0):
        if "c" in op:
            return self.place(op["c"], depth)
        if "m" in op:
            return self.place(op["m"], depth)
        if "k" in op:
            k = op["k"]
            if "fn" in k:
                return ("fnref", k.get("res") or k["fn"])
            if "v" in k:
                return ("const", k["v"])
            if k.get("bytes") is not None:
                return ("bytes", bytes(k["bytes"]))
            if "promoted" in k:
                pb = self.body.promoted
                i = k["promoted"]
                if i < len(pb):
                    return Sym(pb[i], self.max_depth).local(0)
                return ("unknown", "promoted")
            if "cdef" in k:
                return ("cdef", k["cdef"])
            if k.get("ty") == "()":
                return ("unit",)
            return ("konst", k.get("dbg", k.get("ty", "?")))
        return ("unknown", "operand")

    def rvalue(self, rv, depth=0):
        r = rv["r"]
        if r == "use":
            return self.operand(rv["op"], depth)
        if r in ("ref", "rawptr"):
            return self.place(rv["pl"], depth)
        if r == "cast":
            inner = self.operand(rv["op"], depth)
            ck = rv["ck"]
            if ck in ("PointerCoercion", "PtrToPtr", "Transmute", "Subtype"):
                return inner
            return ("cast", inner, rv["ty"])
        if r == "bin":
            return ("bin", rv["bop"], self.operand(rv["a"], depth), self.operand(rv["b"], depth))
        if r == "un":
            if rv["uop"] == "PtrMetadata":
                return ("len", self.operand(rv["a"], depth))
            return ("un", rv["uop"], self.operand(rv["a"], depth))
        if r == "discr":
            return ("discr", self.place(rv["pl"], depth))
        if r == "agg":
            ak = rv["ak"]
            ops = tuple(self.operand(o, depth) for o in rv["ops"])
            if ak == "adt":
                fs = rv["fields"]
                if len(fs) != len(ops):
                    fs = [str(i) for i in range(len(ops))]
                return ("agg", rv["adt"], rv["variant"], tuple(zip(fs, ops)))
            if ak in ("closure", "coroutine", "coroutine_closure"):
                return ("closure", rv["def"], ops)
            return ("agg", ak, "", tuple((str(i), o) for i, o in enumerate(ops)))
        if r == "repeat":
            return ("repeat", self.operand(rv["op"], depth), rv["n"])
        return ("unknown", r)

    def call(self, t, bb, depth=0):
        f = t["func"]
        k = f.get("k") if isinstance(f, dict) else None
        args = tuple(self.operand(a, depth) for a in t["args"])
        if k and "fn" in k:
            info = {"fn": k["fn"], "res": k.get("res") or k["fn"], "name": k.get("name"),
                    "trait": k.get("trait"), "ga": tuple(k.get("ga", [])), "bb": bb,
                    "krate": k.get("res_krate") or k.get("krate")}
            return ("call", info["res"], args, _Info(info))
        return ("call", "<indirect>", (self.operand(f, depth),) + args, _Info({"bb": bb}))


class _Info(dict):
    """dict that hashes/equates by identity-insensitive key so terms stay hashable."""

    def __hash__(self):
        return hash(self.get("res"))

    def __eq__(self, other):
        return isinstance(other, dict) and self.get("res") == other.get("res")


def _proj_key(projs):
    return tuple(tuple(p[:2]) if p[0] == "f" else tuple(p[:1]) for p in projs)


def _place_key(pl):
    return (pl["l"], _proj_key(pl["p"]))


def _field(base, name, owner=None):
    # field of a known aggregate -> the operand stored there
    if base[0] == "agg":
        for f, v in base[3]:
            if f == name:
                return v
    return ("field", base, name, owner)


# ---------------------------------------------------------------------------
# normalisation and rendering

def is_transparent_call(t):
    if t[0] != "call":
        return False
    info = t[3]
    name = info.get("name")
    if name in TRANSPARENT_NAMES and len(t[2]) >= 1:
        tr = info.get("trait")
        if tr is None or tr in TRANSPARENT_TRAITS:
            return True
        # inherent methods with these names on std types (Option::as_ref, Pin::new_unchecked …)
        if (info.get("krate") in ("core", "alloc", "std")):
            return True
    return False


def strip(t):
    """Remove transparent wrappers at the top of a term."""
    while True:
        if is_transparent_call(t):
            t = t[2][0]
            continue
        if t[0] == "cast" and False:
            t = t[1]
            continue
        return t


def strip_deep(t):
    t = strip(t)
    k = t[0]
    if k == "field":
        base = strip_deep(t[1])
        name = str(t[2])
        # a projection of a literal aggregate is the component itself: `(a, b).0`, `Some(v)↓Some.0`, and — by the
        # contract of `?` — `Try::branch(Ok(v))↓Continue.0`
        if base[0] == "agg" and base[1] == "tuple" and not base[2]:
            for f, v in base[3]:
                if str(f) == name:
                    return v
        if base[0] == "variant":
            inner = base[1]
            if inner[0] == "agg" and inner[2] == base[2]:
                for f, v in inner[3]:
                    if str(f) == name:
                        return v
            if inner[0] == "call" and name == "0" and base[2] == "Continue" and len(inner[2]) == 1 and \
                    (inner[3] or {}).get("name") == "branch" and ((inner[3] or {}).get("trait") or "").endswith("ops::Try"):
                a = inner[2][0]
                if a[0] == "agg" and a[2] in ("Ok", "Some"):
                    for f, v in a[3]:
                        if str(f) == "0":
                            return v
        return ("field", base, t[2], t[3] if len(t) > 3 else None)
    if k == "variant":
        return ("variant", strip_deep(t[1]), t[2])
    if k == "index":
        return ("index", strip_deep(t[1]), strip_deep(t[2]))
    if k == "call":
        return ("call", t[1], tuple(strip_deep(a) for a in t[2]), t[3])
    if k == "bin":
        return ("bin", t[1], strip_deep(t[2]), strip_deep(t[3]))
    if k == "un":
        return ("un", t[1], strip_deep(t[2]))
    if k == "cast":
        return ("cast", strip_deep(t[1]), t[2])
    if k == "agg":
        return ("agg", t[1], t[2], tuple((f, strip_deep(v)) for f, v in t[3]))
    if k == "closure":
        return ("closure", t[1], tuple(strip_deep(a) for a in t[2]))
    if k in ("discr", "len"):
        return (k, strip_deep(t[1]))
    if k == "mvar":
        return ("mvar", t[1], t[2], strip_deep(t[3]))
    return t


def short(path):
    """Last two segments of a def path, generics removed: `Cert::subject_key_identifier`."""
    p = path
    if p.startswith("<"):
        depth = 0
        for i, ch in enumerate(p):
            if ch == "<":
                depth += 1
            elif ch == ">":
                depth -= 1
                if depth == 0:
                    inner = p[1:i]
                    rest = p[i + 1:]
                    parts = inner.split(" as ")
                    ty = _last_seg(parts[0])
                    if (not ty or len(ty) <= 2 or not ty[0].isalpha()) and len(parts) > 1:
                        ty = _last_seg(parts[1])
                    p = ty + rest
                    break
    p = _strip_generics(p)
    segs = [x for x in p.split("::") if x]
    return "::".join(segs[-2:])


def _last_seg(ty):
    ty = ty.strip()
    while ty.startswith("&"):
        ty = ty[1:].strip()
    if ty.startswith("mut "):
        ty = ty[4:]
    ty = _strip_generics(ty)
    segs = [x for x in ty.split("::") if x]
    return segs[-1] if segs else ""


def _strip_generics(s):
    out = []
    d = 0
    i = 0
    while i < len(s):
        ch = s[i]
        if ch == "<":
            d += 1
        elif ch == ">" and d > 0:
            d -= 1
        elif d == 0:
            out.append(ch)
        i += 1
    return "".join(out)


def callee_label(t):
    info = t[3]
    tr = info.get("trait")
    if tr and (tr.startswith("std::") or tr.startswith("core::")):
        return "%s::%s" % (_strip_generics(tr).split("::")[-1], info.get("name"))
    return short(t[1])


SUBST = []      # stack of {("param"|"upvar", name): text} — see substituting()


class substituting:
    """Within the block, parameters / captures of a closure body render as the given texts (the element of the
    iteration it is applied to, the captured values at its creation site): a predicate closure is then read in the
    vocabulary of the function that passes it to `any` / `all` / `find`."""

    def __init__(self, mapping):
        self.mapping = mapping

    def __enter__(self):
        SUBST.append(self.mapping)

    def __exit__(self, *a):
        SUBST.pop()


def render(t, depth=0):
    """Human/regex-friendly label of a stripped term."""
    if depth > 40:
        return "…"
    t = strip(t)
    k = t[0]
    if k == "param":
        if SUBST and ("param", t[1]) in SUBST[-1]:
            return SUBST[-1][("param", t[1])]
        return t[1]
    if k == "upvar":
        if SUBST and ("upvar", t[1]) in SUBST[-1]:
            return SUBST[-1][("upvar", t[1])]
        return "^" + t[1]
    if k == "var":
        return "$" + str(t[1])
    if k == "mvar":
        return "%s⟵%s" % (t[1], render(t[3], depth + 1))
    if k == "const":
        return str(t[1])
    if k == "bytes":
        return repr(t[1])
    if k == "cdef":
        return short(t[1])
    if k == "fnref":
        return "fn:" + short(t[1])
    if k == "unit":
        return "()"
    if k == "field":
        return "%s.%s" % (render(t[1], depth + 1), t[2])
    if k == "variant":
        return "%s↓%s" % (render(t[1], depth + 1), t[2])
    if k == "index":
        return "%s[%s]" % (render(t[1], depth + 1), render(t[2], depth + 1))
    if k == "subslice":
        return "%s[%s..%s%s]" % (render(t[1], depth + 1), t[2], "-" if t[4] else "", t[3])
    if k == "call":
        return "%s(%s)" % (callee_label(t), ", ".join(render(a, depth + 1) for a in t[2]))
    if k == "bin":
        return "%s(%s, %s)" % (t[1], render(t[2], depth + 1), render(t[3], depth + 1))
    if k == "un":
        return "%s(%s)" % (t[1], render(t[2], depth + 1))
    if k == "cast":
        return "(%s as %s)" % (render(t[1], depth + 1), t[2])
    if k == "agg":
        if t[1] in ("tuple", "array"):
            return "%s(%s)" % (t[1], ", ".join(render(v, depth + 1) for _, v in t[3]))
        return "%s::%s{%s}" % (short(t[1]), t[2], ", ".join("%s: %s" % (f, render(v, depth + 1)) for f, v in t[3]))
    if k == "closure":
        return "closure:%s[%s]" % (t[1].rsplit("::", 2)[-2] + "::" + t[1].rsplit("::", 1)[-1] if "::" in t[1] else t[1],
                                   ", ".join(render(a, depth + 1) for a in t[2]))
    if k in ("discr", "len"):
        return "%s(%s)" % (k, render(t[1], depth + 1))
    if k == "repeat":
        return "[%s; %s]" % (render(t[1], depth + 1), t[2])
    if k == "yield":
        return "<resume>"
    return "<%s>" % ":".join(str(x) for x in t[:2])


def walk(t):
    """All sub-terms (pre-order)."""
    yield t
    k = t[0]
    if k in ("field", "variant", "discr", "len", "un", "cast"):
        yield from walk(t[1] if k != "un" else t[2])
    elif k == "index":
        yield from walk(t[1])
        yield from walk(t[2])
    elif k == "subslice":
        yield from walk(t[1])
    elif k == "call":
        for a in t[2]:
            yield from walk(a)
    elif k == "bin":
        yield from walk(t[2])
        yield from walk(t[3])
    elif k == "agg":
        for _, v in t[3]:
            yield from walk(v)
    elif k == "closure":
        for a in t[2]:
            yield from walk(a)
    elif k == "repeat":
        yield from walk(t[1])
    elif k == "mvar":
        yield from walk(t[3])


def calls_in(t):
    return [x for x in walk(t) if x[0] == "call"]


def roots(t):
    """Leaf provenance of a term: params, upvars, vars, consts."""
    return [x for x in walk(t) if x[0] in ("param", "upvar", "var", "const", "cdef", "bytes")]


def unmut(t):
    """Initial value of a mutably-borrowed single-definition local."""
    while t[0] == "mvar":
        t = t[3]
    return t
