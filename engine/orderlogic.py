"""Decision of small comparison-only functions.

A function whose result depends on its inputs only through order comparisons (<, <=, ==, …) of a handful of
quantities is a finite object: over k quantities there are finitely many weak orderings, and values 0..k-1 realise
all of them.  `paths()` enumerates the acyclic CFG paths of such a function with the branch conditions taken and the
value returned; `evaluate()` decides the extracted formula on a concrete ordering.  Nothing of /repo is executed: the
formula is read off the MIR, and what is evaluated is that formula."""
import itertools, re
from .sym import strip, strip_deep, render

CMP_CALLS = {"lt": "<", "le": "<=", "gt": ">", "ge": ">=", "eq": "==", "ne": "!="}
CMP_BIN = {"Lt": "<", "Le": "<=", "Gt": ">", "Ge": ">=", "Eq": "==", "Ne": "!="}


class NotComparisonOnly(Exception):
    pass


def atom(t):
    """('cmp', op, a, b) / ('const', bool) / ('not', x) / ('opaque', text) for a boolean term."""
    t = strip_deep(t)
    if t[0] == "const" and isinstance(t[1], (bool, int)):
        return ("const", bool(t[1]))
    if t[0] == "un" and t[1] == "Not":
        return ("not", atom(t[2]))
    if t[0] == "bin" and t[1] in CMP_BIN:
        return ("cmp", CMP_BIN[t[1]], strip_deep(t[2]), strip_deep(t[3]))
    if t[0] == "call" and (t[3] or {}).get("name") in CMP_CALLS and len(t[2]) == 2 and \
            ((t[3] or {}).get("trait") or "").split("::")[-1] in ("PartialOrd", "PartialEq", "Ord"):
        return ("cmp", CMP_CALLS[t[3]["name"]], strip_deep(t[2][0]), strip_deep(t[2][1]))
    return ("opaque", render(t))


def paths(body, sym, max_paths=4000, trails=None):
    """All acyclic entry→return paths: [(conds, value)] with conds = [(atom, truth)], value = atom of the returned
    bool (or the rendered term for non-bool results).  With `trails` (a list), the block sequence of each path is
    appended to it in step with the result."""
    out = []
    stack = [(0, [], None, frozenset(), ())]
    while stack:
        bb, conds, ret, seen, trail = stack.pop()
        if bb in seen:
            raise NotComparisonOnly("loop in " + body.name)
        seen = seen | {bb}
        trail = trail + (bb,)
        blk = body.blocks[bb]
        for st in blk["stmts"]:
            if st["s"] == "assign" and st["pl"]["l"] == 0 and not st["pl"]["p"]:
                ret = strip_deep(sym.rvalue(st["rv"]))
        t = blk["term"]
        k = t["t"]
        if k == "return":
            out.append((conds, ret))
            if trails is not None:
                trails.append(trail)
            if len(out) > max_paths:
                raise NotComparisonOnly("too many paths")
        elif k in ("goto", "drop", "assert"):
            stack.append((t["target"], conds, ret, seen, trail))
        elif k == "call":
            if t["dest"]["l"] == 0 and not t["dest"]["p"]:
                ret = strip_deep(sym.call(t, bb))
            if t.get("target") is not None:
                stack.append((t["target"], conds, ret, seen, trail))
        elif k == "switch":
            d = strip_deep(sym.operand(t["discr"]))
            if t.get("dty") == "bool":
                exp = _option_predicate(body, d)
                if exp is not None:
                    f_t = None
                    for v, tb in t["targets"]:
                        if v == 0:
                            f_t = tb
                    if f_t is None:
                        raise NotComparisonOnly("odd bool switch")
                    for extra, truth in exp:
                        stack.append((t["otherwise"] if truth else f_t, conds + extra, ret, seen, trail))
                    continue
                a = atom(d)
                f_t = None
                for v, tb in t["targets"]:
                    if v == 0:
                        f_t = tb
                if f_t is None:
                    raise NotComparisonOnly("odd bool switch")
                stack.append((f_t, conds + [(a, False)], ret, seen, trail))
                stack.append((t["otherwise"], conds + [(a, True)], ret, seen, trail))
            else:
                for v, tb in t["targets"]:
                    stack.append((tb, conds + [(("switch", render(d), v), True)], ret, seen, trail))
                stack.append((t["otherwise"], conds + [(("switch", render(d), None), True)], ret, seen, trail))
        elif k in ("unreachable", "resume", "terminate"):
            pass
        else:
            raise NotComparisonOnly(k)
    return out


def _tsubst(t, m):
    if isinstance(t, tuple):
        if len(t) == 2 and t in m:
            return m[t]
        return tuple(_tsubst(x, m) for x in t)
    return t


def _asubst(a, m):
    if a[0] == "cmp":
        return ("cmp", a[1], strip_deep(_tsubst(a[2], m)), strip_deep(_tsubst(a[3], m)))
    if a[0] == "not":
        return ("not", _asubst(a[1], m))
    return a


def _option_predicate(body, d):
    """`opt.is_some_and(|v| p(v))` / `opt.is_none_or(|v| p(v))` / `opt.map_or(c, |v| p(v))` as a branch condition: the
    same decision as `match opt { Some(v) => p(v), None => c }` — the closure's own paths with its parameter read as the
    payload and its captures as the captured values (std's documented contract of the three combinators).
    -> [(extra conditions, truth of the whole test)] or None when `d` is not such a call."""
    if d[0] != "call" or len(d) < 4 or not isinstance(d[3], dict):
        return None
    info = d[3]
    name = info.get("name")
    if name not in ("is_some_and", "is_none_or", "map_or") or (info.get("krate") not in ("core", "std", "alloc")) \
            or "option::Option" not in (info.get("res") or ""):
        return None
    args = d[2]
    if name == "map_or":
        if len(args) != 3:
            return None
        dflt = strip_deep(args[1])
        if dflt[0] != "const" or not isinstance(dflt[1], (bool, int)):
            return None
        none_val, clo = bool(dflt[1]), strip_deep(args[2])
    else:
        if len(args) != 2:
            return None
        none_val, clo = (name == "is_none_or"), strip_deep(args[1])
    if clo[0] != "closure" or body.facts is None:
        return None
    cb = body.facts.body(clo[1])
    if cb is None:
        return None
    from .sym import Sym
    opt = strip_deep(args[0])
    m = {}
    for uname, pl in cb.rec.get("upvars", []):
        idx = None
        for pe in pl.get("p", []):
            if pe and pe[0] == "f":
                try:
                    idx = int(pe[1])
                except (TypeError, ValueError):
                    idx = None
                break
        if idx is not None and idx < len(clo[2]):
            m[("upvar", uname)] = strip_deep(clo[2][idx])
    if cb.arg_count >= 2:
        m[("param", cb.local_name(2) or "_2")] = ("field", ("variant", opt, "Some"), "0", None)
    try:
        cps = paths(cb, Sym(cb))
    except NotComparisonOnly:
        return None
    dtxt = "discr(%s)" % render(opt)
    out = [([(("switch", dtxt, 0), True)], none_val)]
    for cconds, cret in cps:
        if cret is None:
            return None
        cc = [(_asubst(a, m), tr) for a, tr in cconds]
        ra = _asubst(atom(cret), m)
        if ra[0] == "const":
            out.append(([(("switch", dtxt, 1), True)] + cc, ra[1]))
        else:
            out.append(([(("switch", dtxt, 1), True)] + cc + [(ra, True)], True))
            out.append(([(("switch", dtxt, 1), True)] + cc + [(ra, False)], False))
    return out


def leaves(ps):
    """The compared quantities (rendered) of a path set."""
    out = []

    def walk(a):
        if a[0] == "cmp":
            for x in (a[2], a[3]):
                r = render(x)
                if r not in out:
                    out.append(r)
        elif a[0] == "not":
            walk(a[1])
    for conds, ret in ps:
        for a, _ in conds:
            walk(a)
        if ret is not None:
            walk(atom(ret))
    return out


def ev(a, env):
    if a[0] == "const":
        return a[1]
    if a[0] == "not":
        v = ev(a[1], env)
        return None if v is None else not v
    if a[0] == "cmp":
        x, y = env.get(render(a[2])), env.get(render(a[3]))
        if x is None or y is None:
            return None
        return {"<": x < y, "<=": x <= y, ">": x > y, ">=": x >= y, "==": x == y, "!=": x != y}[a[1]]
    return None


def evaluate(ps, env):
    """Value of the function on the concrete ordering `env` (quantity → int); None if it depends on something that is
    not an order comparison of the quantities."""
    for conds, ret in ps:
        ok = True
        for a, truth in conds:
            v = ev(a, env)
            if v is None:
                return None
            if v != truth:
                ok = False
                break
        if ok:
            return None if ret is None else ev(atom(ret), env)
    return None


def spec_names(spec):
    return getattr(spec, "quantities", ())


def decide(body, sym, names, spec, assume=None, norm=None):
    """Compare the function with `spec(env) -> bool` on every weak ordering of the quantities.
    names: {rendered quantity: short name used by spec}.  Returns (ok, counterexamples / reason)."""
    try:
        ps = paths(body, sym)
    except NotComparisonOnly as e:
        return False, "not a loop-free comparison-only function: %s" % e
    qs = leaves(ps)
    if norm:
        # quantity names as the specification spells them (e.g. parameter names replaced by positions)
        names = {q: names[norm(q)] for q in qs if norm(q) in names}
    unknown = [q for q in qs if q not in names]
    if unknown:
        return False, "compares quantities outside the specification: %s" % unknown
    if not names:
        return False, "compares nothing"
    keys = sorted(names)
    bad = []
    n = 0
    # every quantity the specification talks about is varied — also one the function never looks at (a function
    # that ignores a quantity it should compare must disagree with the specification somewhere)
    snames = sorted(set(names.values()) | set(spec_names(spec)))
    k = max(len(snames), 2)
    if len(snames) > 6:
        return False, "too many quantities"
    for vals in itertools.product(range(k), repeat=len(snames)):
        senv = dict(zip(snames, vals))
        env = {q: senv[names[q]] for q in keys}
        if assume and not assume(senv):
            continue
        n += 1
        got = evaluate(ps, env)
        want = spec(senv)
        if got is None or got != want:
            bad.append({"ordering": senv, "function": got, "specification": want})
            if len(bad) >= 4:
                break
    return not bad, {"orderings": n, "paths": len(ps), "counterexamples": bad}


def decide_table(body, sym, names, spec, label, select=None, assume=None):
    """Generalisation of `decide` to functions with non-comparison branches and non-bool results.
    names:  [(regex on the rendered quantity, short name)];
    label:  rendered return term -> label (or None to ignore the path);
    select: opaque branch decisions [(rendered discriminant, value)] -> bool, picks the sub-table looked at;
    spec:   {short name: int} -> label.
    On every weak ordering of the quantities the selected paths whose comparisons hold must all carry spec's label,
    and at least one must exist."""
    try:
        ps = paths(body, sym)
    except NotComparisonOnly as e:
        return False, "not a loop-free function: %s" % e
    sel = []
    for conds, ret in ps:
        opaque = [(a[1], a[2]) for a, _ in conds if a[0] == "switch"]
        if any(a[0] == "opaque" for a, _ in conds):
            return False, "branches on something that is neither a comparison nor a variant: %s" % [a[1] for a, _ in conds if a[0] == "opaque"][:2]
        if select is None or select(opaque):
            lab = label(render(ret) if ret is not None else "")
            if lab is not None:
                sel.append(([(a, t) for a, t in conds if a[0] != "switch"], lab))
    if not sel:
        return False, "no path selected"
    qs = leaves([(c, None) for c, _ in sel])
    qmap = {}
    for q in qs:
        for rx, nm in names:
            if re.search(rx, q):
                qmap[q] = nm
                break
    unknown = [q for q in qs if q not in qmap]
    if unknown:
        return False, "compares quantities outside the specification: %s" % unknown
    snames = sorted({nm for _, nm in names})
    k = max(len(snames), 2)
    bad = []
    n = 0
    for vals in itertools.product(range(k), repeat=len(snames)):
        senv = dict(zip(snames, vals))
        if assume and not assume(senv):
            continue
        env = {q: senv[qmap[q]] for q in qmap}
        n += 1
        labs = set()
        for conds, lab in sel:
            if all(ev(a, env) == t for a, t in conds):
                labs.add(lab)
        want = spec(senv)
        if labs != {want}:
            bad.append({"ordering": senv, "function": sorted(labs), "specification": want})
            if len(bad) >= 4:
                break
    return not bad, {"orderings": n, "paths": len(sel), "counterexamples": bad}


def _atom_key(a):
    if a[0] == "cmp":
        return "%s %s %s" % (render(a[2]), a[1], render(a[3]))
    if a[0] == "opaque":
        return a[1]
    return None


def decide_bool(body, sym, names, spec, norm=None, label=None):
    """Functions whose result is a boolean combination of side-effect-free tests (is_some, is_empty, ==, …), each treated
    as an independent boolean.  names: [(regex on the rendered test, short name)] — a test that matches none makes the
    check fail (the function looks at something the specification does not mention).  spec: {name: bool} -> result."""
    try:
        ps = paths(body, sym)
    except NotComparisonOnly as e:
        return False, "not a loop-free function: %s" % e
    keys = {}

    def reg(a):
        while a[0] == "not":
            a = a[1]
        if a[0] == "const":
            return
        k = _atom_key(a)
        if k is None:
            return
        kk = norm(k) if norm else k
        for rx, nm in names:
            if re.search(rx, kk):
                keys[k] = nm
                return
        keys[k] = None
    for conds, ret in ps:
        for a, _ in conds:
            if a[0] == "switch":
                reg(("opaque", "%s" % a[1]))
            else:
                reg(a)
        if ret is not None and label is None:
            reg(atom(ret))
    unknown = sorted(k for k, v in keys.items() if v is None)
    if unknown:
        return False, {"tests_outside_the_specification": [u[:160] for u in unknown]}
    snames = sorted(set(keys.values()))
    if len(snames) > 10:
        return False, "too many tests"

    def val(a, env):
        neg = False
        while a[0] == "not":
            a, neg = a[1], not neg
        if a[0] == "const":
            v = a[1]
        else:
            v = env[keys[_atom_key(a)]]
        return (not v) if neg else v
    bad = []
    n = 0
    for vals in itertools.product((False, True), repeat=len(snames)):
        env = dict(zip(snames, vals))
        n += 1
        got = set()
        for conds, ret in ps:
            ok = True
            for a, t in conds:
                if a[0] == "switch":
                    # a two-way variant test used as a boolean: value 1 / otherwise = true
                    v = env[keys[a[1]]]
                    if (a[2] in (1, None)) != v:
                        ok = False
                        break
                elif val(a, env) != t:
                    ok = False
                    break
            if ok:
                got.add(label(render(ret)) if label else val(atom(ret), env))
        want = spec(env)
        if got != {want}:
            bad.append({"tests": env, "function": sorted(map(str, got)), "specification": want})
            if len(bad) >= 4:
                break
    return not bad, {"assignments": n, "paths": len(ps), "counterexamples": bad}


def implies(body, sym, want, lit):
    """Decide "whenever the (loop-free, bool-returning) function returns `want`, the literal holds".
    lit(atom) -> True if the atom IS the literal, False if it is its negation, None if unrelated; atoms are the
    ('cmp', op, a, b) / ('opaque', text) forms of atom().  Returns (ok, detail)."""
    try:
        ps = paths(body, sym)
    except NotComparisonOnly as e:
        return False, "not a loop-free function: %s" % e

    def holds(a, truth):
        while a[0] == "not":
            a, truth = a[1], not truth
        if a[0] in ("const", "switch"):
            return False
        m = lit(a)
        return m is not None and m == truth
    bad = []
    for conds, ret in ps:
        if any(holds(a, t) for a, t in conds):
            continue
        if ret is None:
            bad.append("path without a returned value")
            continue
        r = atom(ret)
        neg = False
        while r[0] == "not":
            r, neg = r[1], not neg
        if r[0] == "const":
            v = (not r[1]) if neg else r[1]
            if v == want:
                bad.append({"returns": want, "conditions": [("%s" % (_atom_key(a) or a[0],), t) for a, t in conds][:8]})
            continue
        # returns want  <=>  r == (want xor neg)
        if not holds(r, want != neg):
            bad.append({"returns": render(ret)[:200], "conditions": [("%s" % (_atom_key(a) or a[0],), t) for a, t in conds][:8]})
    return not bad, bad[:4]
