"""Round-by-round decision of the sweep loops over ascending block sequences (Chain::trim, difference,
is_encompassed, contains_item).

For each loop head of the function the *state* a round starts from is read off the MIR: the live-in locals, classified
by type (a cursor holding the current block of a sequence, the iterator / slice the rest comes from, the output, a
probed item) and attributed to the sequence they derive from (parameter provenance of their definitions outside the
loop).  engine/stepexec.py then interprets one round — loop head to the next loop head or return — for every member of
the finite order domain (all placements of the cursors' bounds in a small universe with both ends of the number space),
forking on everything unknown (is there another element?).  What the round did is read off the final environment:
which part of each cursor was consumed, what was appended to the output, what was returned.

The specification is *action admissibility*, per set operation.  With A the current block of the first sequence (all
later ones lie beyond A.max+1), C the current block of the second (later ones beyond C.max+1):

  consumed part K_s of A must be a lower part of A lying within [.., C.max+1] (so no later block of the second sequence
  can touch it) and what the round emitted must be exactly  K_s ∩ C  (intersection) /  K_s \\ C  (difference);
  consumed part K_o of C must not touch what remains of A nor reach beyond A.max+1;
  a round that ends the sweep may do so only when the sequence it ran out of makes the rest irrelevant;
  every round consumes something, pulls a new element, or returns.

By induction over rounds these local conditions give: the output is the set operation of the two sequences — that
argument is in DESIGN.md; what is machine-checked is every round on every abstract state.  The same scheme with boolean
verdicts covers the subset and the membership sweep.
"""
import re
from . import stepexec as SX
from .stepexec import Unsupported, Seq, some, NONE, TOP, UNIT

ITEM = r"<T as (?:[\w:]+::)?Block>::Item"
T_PAIR = re.compile(r"^\(%s, %s\)$" % (ITEM, ITEM))
T_BLOCKREF = re.compile(r"^&T$")
T_OPT_BLOCKREF = re.compile(r"^std::option::Option<&T>$")
T_ITER = re.compile(r"^std::slice::Iter<'_, T>$|^std::iter::Peekable<std::slice::Iter<'_, T>>$")
T_SLICE = re.compile(r"^&\[T\]$|^&std::vec::Vec<T>$")
T_VEC = re.compile(r"^std::vec::Vec<T>$")
T_RESVEC = re.compile(r"^std::result::Result<usize, std::vec::Vec<T>>$")
T_POINT = re.compile(r"^%s$" % ITEM)
T_CHAIN = re.compile(r"^&(?:[\w:]+::)?Chain<T>$|^&C$")


class Layout:
    """How the live-in locals of a loop head make up the state of the sweep."""

    def __init__(self, body, head, live, loop_blocks):
        self.head = head
        self.cursor = {}        # side -> (local, kind)    kind: pair | ref | optref
        self.source = {}        # side -> [local]          iterators / slices over the sequence
        self.out = None         # (local, kind)            vec | resvec
        self.points = []        # locals holding a probed item
        self.bools = []
        self.chains = {}        # param local -> side
        self.index = {}         # side -> usize local holding the position of the current block in the side's slice
        self.unknown = []
        usizes = []
        sides = {}
        for l in sorted(live):
            ty = body.local_ty(l)
            if 1 <= l <= body.arg_count and T_CHAIN.match(ty):
                self.chains[l] = "self" if l == 1 else "other"
                continue
            kind = None
            if T_PAIR.match(ty):
                kind = "pair"
            elif T_BLOCKREF.match(ty):
                kind = "ref"
            elif T_OPT_BLOCKREF.match(ty):
                kind = "optref"
            elif T_ITER.match(ty) or T_SLICE.match(ty):
                kind = "source"
            elif T_VEC.match(ty):
                self.out = (l, "vec")
                continue
            elif T_RESVEC.match(ty):
                self.out = (l, "resvec")
                continue
            elif T_POINT.match(ty):
                self.points.append(l)
                continue
            elif ty == "bool":
                self.bools.append(l)
                continue
            elif ty == "usize":
                usizes.append(l)
                continue
            else:
                self.unknown.append(l)
                continue
            roots = SX.param_roots(body, l, stop_blocks=loop_blocks)
            if roots == {1}:
                side = "self"
            elif len(roots) == 1:
                side = "other"
            else:
                raise Unsupported("cannot tell which sequence %s (_%d: %s) walks: derives from parameters %s"
                                  % (body.local_name(l) or "", l, ty, sorted(roots)))
            if kind == "source":
                self.source.setdefault(side, []).append(l)
            else:
                if side in self.cursor:
                    raise Unsupported("two cursors over the %s sequence at bb%d" % (side, head))
                self.cursor[side] = (l, kind)
        for l in range(1, body.arg_count + 1):
            if T_CHAIN.match(body.local_ty(l)):
                self.chains.setdefault(l, "self" if l == 1 else "other")
        # a live-in usize that indexes a source slice is that sequence's position cursor
        if usizes:
            src_side = {l: s_ for s_, ls in self.source.items() for l in ls}
            defs = body.defs()

            def copy_of(t):
                ds = [d for d in defs.get(t, []) if d[2] == "assign"]
                if len(ds) == 1 and len(defs.get(t, [])) == 1 and ds[0][3]["rv"]["r"] == "use":
                    pl = ds[0][3]["rv"]["op"].get("c") or ds[0][3]["rv"]["op"].get("m")
                    if pl and not pl["p"]:
                        return pl["l"]
                return t
            def places():
                for blk in body.blocks:
                    if blk.get("cleanup"):
                        continue
                    for st in blk["stmts"]:
                        if st["s"] == "assign":
                            yield st["pl"]
                            rv = st["rv"]
                            if rv["r"] in ("ref", "rawptr", "discr"):
                                yield rv["pl"]
                            for key in ("op", "a", "b"):
                                o = rv.get(key)
                                if isinstance(o, dict):
                                    for kk in ("c", "m"):
                                        if kk in o:
                                            yield o[kk]
            for pl in places():
                for p in pl["p"]:
                    if p[0] == "i" and pl["l"] in src_side:
                        L = copy_of(p[1])
                        if L in usizes:
                            self.index[src_side[pl["l"]]] = L
            for l in usizes:
                if l not in self.index.values():
                    self.unknown.append(l)

    def sides(self):
        return sorted(set(self.cursor) | set(self.source))

    def describe(self, body):
        def nm(l):
            return "%s(_%d)" % (body.local_name(l) or "", l)
        return {"head": "bb%d" % self.head,
                "cursor": {s: nm(l) + ":" + k for s, (l, k) in self.cursor.items()},
                "source": {s: [nm(l) for l in ls] for s, ls in self.source.items()},
                "out": (nm(self.out[0]) + ":" + self.out[1]) if self.out else None,
                "points": [nm(l) for l in self.points], "flags": [nm(l) for l in self.bools],
                "index": {s: nm(l) for s, l in self.index.items()}}


def natural_loop(body, head, dom):
    """Blocks dominated by `head` from which `head` is reachable."""
    can = body.can_reach({head})
    return {b for b in can if head in dom.get(b, ())}


def intervals(vmax):
    return [(lo, hi) for lo in range(vmax + 1) for hi in range(lo, vmax + 1)]


def iset(iv):
    return set(range(iv[0], iv[1] + 1)) if iv else set()


class Round:
    """What one interpreted round did, in terms of the sweep."""
    pass


class Sweep:
    def __init__(self, facts, body, op, vmax=8):
        self.f = facts
        self.b = body
        self.op = op                 # "intersection" | "difference" | "subset" | "member"
        self.vmax = vmax
        self.m = SX.Machine(facts, vmax)
        self.live = SX.liveness(body)
        self.dom = body.dominators()
        self.heads = sorted(SX.loop_heads(body))
        if not self.heads:
            raise Unsupported("%s has no loop" % body.name)
        self.layouts = {}
        self.loops = {}
        for h in self.heads:
            self.loops[h] = natural_loop(body, h, self.dom)
            self.layouts[h] = Layout(body, h, self.live[h], self.loops[h])
        self.problems = []
        self.rounds = 0
        self.states = 0
        self.shapes = {}

    # -- states ------------------------------------------------------------------------------------------------------
    # shape of a head: (("self", has_block), ("other", has_block), mode, flags...)
    def make_env(self, head, shape, A, C, X, flags):
        lay = self.layouts[head]
        env = {}
        seqs = {}
        blocks = {"self": A, "other": C}
        for side in ("self", "other"):
            blk = blocks[side]
            cur = lay.cursor.get(side)
            known = []
            ended = False
            if cur is None:
                # the head of the source is the current block
                if blk is not None:
                    known = [("block", blk[0], blk[1], ("state", side))]
                else:
                    ended = True
            seq = Seq(side, known, ended)
            seqs[side] = seq
            for l in lay.source.get(side, []):
                env[l] = ("view", seq, 0)
            if cur is not None:
                l, kind = cur
                if kind == "pair":
                    env[l] = ("tuple", (blk[0], blk[1]))
                elif kind == "ref":
                    env[l] = ("block", blk[0], blk[1], ("state", side))
                else:
                    env[l] = NONE if blk is None else some(("block", blk[0], blk[1], ("state", side)))
        if lay.out:
            l, kind = lay.out
            if kind == "vec":
                env[l] = ("vec", ("sym", "R0"), ())
            else:
                env[l] = ("adt", "Result", "Ok", (("lin", "idx", 0),)) if shape["mode"] == "Ok" else \
                    ("adt", "Result", "Err", (("vec", ("sym", "R0"), ()),))
        for l in lay.index.values():
            env[l] = 0
        for l in lay.points:
            env[l] = X
        for l, v in zip(lay.bools, flags):
            env[l] = v
        for l, side in lay.chains.items():
            env[l] = ("adt", "Chain", "Chain", (("opaque", side + ".0"),))
        return env, seqs

    def shape_of(self, head, env):
        """Shape of the state in which a round arrived at `head`."""
        lay = self.layouts[head]
        sh = {}
        for side in ("self", "other"):
            cur = lay.cursor.get(side)
            if cur is not None:
                v = self.m.deref_val(env, env.get(cur[0], TOP))
                if cur[1] == "optref":
                    if not (isinstance(v, tuple) and v[0] == "adt" and v[1] == "Option"):
                        raise Unsupported("cursor of the %s sequence is %s at bb%d" % (side, SX._kind(v), head))
                    sh[side] = v[2] == "Some"
                else:
                    sh[side] = True
            elif side in lay.source:
                v = self.m.deref_val(env, env.get(lay.source[side][0], TOP))
                if not (isinstance(v, tuple) and v[0] == "view"):
                    raise Unsupported("source of the %s sequence is %s at bb%d" % (side, SX._kind(v), head))
                seq, i = v[1], v[2] + self._pos(lay, side, env)
                if i < len(seq.elems):
                    sh[side] = True
                elif seq.ended:
                    sh[side] = False
                else:
                    sh[side] = None         # unknown: both
            else:
                sh[side] = None if False else "absent"
        if lay.out and lay.out[1] == "resvec":
            v = self.m.deref_val(env, env.get(lay.out[0], TOP))
            if not (isinstance(v, tuple) and v[0] == "adt" and v[1] == "Result"):
                raise Unsupported("output is %s at bb%d" % (SX._kind(v), head))
            sh["mode"] = v[2]
        else:
            sh["mode"] = "-"
        fl = []
        for l in lay.bools:
            v = env.get(l, TOP)
            fl.append(v if isinstance(v, bool) else None)
        sh["flags"] = tuple(fl)
        return sh

    def _pos(self, lay, side, env):
        """Offset of the current block in the side's slice when the position is kept in an index local."""
        l = lay.index.get(side)
        if l is None:
            return 0
        v = env.get(l, TOP)
        if isinstance(v, bool) or not isinstance(v, int):
            raise Unsupported("position of the %s sequence is %s" % (side, SX._kind(v)))
        return v

    @staticmethod
    def expand_shape(sh):
        out = [dict(sh)]
        for key in ("self", "other"):
            if sh[key] is None:
                out = [dict(o, **{key: v}) for o in out for v in (True, False)]
        res = []
        for o in out:
            fl = [()]
            for v in o["flags"]:
                fl = [x + (w,) for x in fl for w in ((v,) if v is not None else (False, True))]
            for x in fl:
                res.append(dict(o, flags=x))
        return res

    @staticmethod
    def shape_key(head, sh):
        return (head, sh["self"], sh["other"], sh["mode"], sh["flags"])

    # -- reading a round -----------------------------------------------------------------------------------------------
    def remaining(self, side, head, env):
        """(concrete interval still to be processed or None, pulled_new, exhausted) of a sequence at `head`."""
        lay = self.layouts[head]
        cur = lay.cursor.get(side)
        if cur is not None:
            v = self.m.deref_val(env, env.get(cur[0], TOP))
            if cur[1] == "optref":
                if v[2] == "None":
                    return None, False, True
                v = v[3][0]
            if isinstance(v, tuple) and v[0] == "tuple":
                lo, hi = v[1]
            elif isinstance(v, tuple) and v[0] == "block":
                lo, hi = v[1], v[2]
            else:
                raise Unsupported("cursor of the %s sequence holds %s" % (side, SX._kind(v)))
            if isinstance(lo, int) and isinstance(hi, int):
                return (lo, hi), False, False
            if isinstance(lo, tuple) and isinstance(hi, tuple) and lo[0] == "sym" and hi[0] == "sym" and \
                    lo[1].rsplit(".", 1)[0] == hi[1].rsplit(".", 1)[0]:
                return None, True, False
            raise Unsupported("cursor of the %s sequence mixes known and unknown bounds: (%s, %s)" % (side, lo, hi))
        if side in lay.source:
            v = self.m.deref_val(env, env.get(lay.source[side][0], TOP))
            seq, i = v[1], v[2] + self._pos(lay, side, env)
            if i < len(seq.elems):
                e = seq.elems[i]
                if SX.is_concrete_block(e):
                    return (e[1], e[2]), False, False
                return None, True, False
            return None, False, seq.ended
        return None, False, False

    def output_of(self, v):
        """('orig', k, items) | ('base', items) of an output value."""
        if isinstance(v, tuple) and v[0] == "chain":
            v = v[1]
        if isinstance(v, tuple) and v[0] == "adt" and v[1] == "Result":
            inner = v[3][0]
            if v[2] == "Ok":
                if isinstance(inner, tuple) and inner[0] == "lin" and inner[1] == "idx":
                    return ("orig", inner[2], ())
                if isinstance(inner, int) and not isinstance(inner, bool):
                    return ("orig", inner, ())
                raise Unsupported("output index is %s" % (inner,))
            v = inner
        if isinstance(v, tuple) and v[0] == "vec":
            base, items = v[1], v[2]
            if base == ("sym", "R0"):
                return ("base", 0, tuple(items))
            if isinstance(base, tuple) and base[0] == "prefix" and base[1] == "self.0" and isinstance(base[2], tuple) \
                    and base[2][0] == "lin" and base[2][1] == "idx":
                return ("origvec", base[2][2], tuple(items))
            if base is None:
                return ("fresh", 0, tuple(items))
            raise Unsupported("output vector built on %s" % (base,))
        raise Unsupported("output is %s" % SX._kind(v))

    # -- the fixpoint over shapes and the rounds ------------------------------------------------------------------------
    def run(self):
        b = self.b
        # prologue: entry to the first loop head / return, sequences entirely unknown
        def entry_state():
            env = {}
            seqs = {}
            for l in range(1, b.arg_count + 1):
                ty = b.local_ty(l)
                if T_CHAIN.match(ty):
                    side = "self" if l == 1 else "other"
                    seqs[side] = Seq(side)
                    env[l] = ("adt", "Chain", "Chain", (("view", seqs[side], 0),))
                elif T_POINT.match(ty):
                    env[l] = ("sym", "x")
                else:
                    env[l] = TOP
            return env, seqs
        work = []
        for oc, seqs in self.m.explore(entry_state, b, 0, set(self.heads)):
            self.rounds += 1
            if oc.kind == "cut":
                for sh in self.expand_shape(self.shape_of(oc.bb, oc.env)):
                    work.append((oc.bb, sh))
                self.check_prologue_cut(oc, seqs)
            elif oc.kind == "return":
                self.check_prologue_return(oc, seqs)
            elif oc.kind == "panic":
                self.problems.append({"where": "prologue", "problem": "a path from the entry panics: %s" % oc.ret,
                                      "choices": oc.choices})
        seen = set()
        while work:
            head, sh = work.pop()
            key = self.shape_key(head, sh)
            if key in seen:
                continue
            seen.add(key)
            self.shapes[key] = 0
            for nxt in self.rounds_from(head, sh):
                work.append(nxt)
        return self.problems

    def check_prologue_cut(self, oc, seqs):
        # the sweep must start at the first element of each sequence with nothing emitted
        lay = self.layouts[oc.bb]
        for side, seq in seqs.items():
            pulled = len(seq.elems)
            cur = lay.cursor.get(side)
            want = 1 if cur is not None and cur[1] != "optref" else None
            v = None
            if cur is not None:
                v = self.m.deref_val(oc.env, oc.env.get(cur[0], TOP))
                if cur[1] == "optref" and v[2] == "Some":
                    v = v[3][0]
                lo = v[1][0] if v[0] == "tuple" else (v[1] if v[0] == "block" else None)
                if isinstance(v, tuple) and v[0] == "adt":
                    continue
                if not (isinstance(lo, tuple) and lo[0] == "sym" and lo[1].startswith(side + "+1.")):
                    self.problems.append({"where": "prologue", "problem": "the sweep does not start at the first block of the %s sequence (cursor = %s)" % (side, v)})
            for l in lay.source.get(side, []):
                sv = self.m.deref_val(oc.env, oc.env.get(l, TOP))
                exp = 1 if (cur is not None and not (cur[1] == "optref" and v is not None and v[0] == "adt" and v[2] == "None" and False)) else 0
                if cur is not None and cur[1] == "optref":
                    ov = self.m.deref_val(oc.env, oc.env.get(cur[0], TOP))
                    exp = 1 if ov[2] == "Some" else 0
                if isinstance(sv, tuple) and sv[0] == "view" and sv[2] != exp:
                    self.problems.append({"where": "prologue", "problem": "the %s source starts at element %d, the cursor accounts for %d" % (side, sv[2], exp)})
        if lay.out:
            try:
                o = self.output_of(oc.env.get(lay.out[0]))
            except Unsupported as e:
                self.problems.append({"where": "prologue", "problem": str(e)})
                return
            if o[2] or (o[0] in ("orig", "origvec") and o[1] != 0) or o[0] == "base":
                self.problems.append({"where": "prologue", "problem": "the output is not empty when the sweep starts: %s" % (o,)})

    def check_prologue_return(self, oc, seqs):
        """Returns before the sweep: decided for empty / non-empty inputs only."""
        empty = {s: (q.ended and not q.elems) for s, q in seqs.items()}
        known_nonempty = {s: bool(q.elems) for s, q in seqs.items()}
        v = oc.ret
        op = self.op
        ok = False
        if op == "intersection":
            # Ok(()) = self unchanged; Err(chain) = that chain
            if isinstance(v, tuple) and v[0] == "adt" and v[1] == "Result":
                if v[2] == "Ok":
                    ok = empty.get("self", False)
                else:
                    o = self.output_of(v[3][0])
                    ok = o[0] == "fresh" and not o[2] and (empty.get("other", False) or empty.get("self", False))
        elif op == "difference":
            o = self.output_of(v)
            ok = o[0] == "fresh" and not o[2] and empty.get("self", False)
        elif op == "subset":
            if isinstance(v, bool):
                if empty.get("self", False):
                    ok = v is True
                elif known_nonempty.get("self") and empty.get("other", False):
                    ok = v is False
        elif op == "member":
            ok = v is False and empty.get("self", False)
        if not ok:
            self.problems.append({"where": "prologue", "problem": "returns %s before the sweep with self %s, other %s"
                                  % (render_val(v), "empty" if empty.get("self") else "non-empty/unknown",
                                     "empty" if empty.get("other") else "non-empty/unknown"), "choices": oc.choices})

    def rounds_from(self, head, sh):
        lay = self.layouts[head]
        ivs = intervals(self.vmax)
        As = ivs if sh["self"] is True else [None]
        Cs = ivs if sh["other"] is True else [None]
        Xs = list(range(self.vmax + 1)) if lay.points else [None]
        succ = set()
        nprob = len(self.problems)
        for A in As:
            for C in Cs:
                for X in Xs:
                    self.states += 1

                    def mk(A=A, C=C, X=X):
                        return self.make_env(head, sh, A, C, X, sh["flags"])
                    try:
                        outs = self.m.explore(mk, self.b, head, set(self.heads))
                    except Unsupported as e:
                        self.problems.append({"where": "bb%d" % head, "state": fmt_state(A, C, X, sh), "unsupported": True,
                                              "problem": "cannot interpret the round: %s" % e})
                        if len(self.problems) - nprob > 3:
                            return []
                        continue
                    for oc, seqs in outs:
                        self.rounds += 1
                        try:
                            for p in self.judge(head, sh, A, C, X, oc, seqs):
                                self.problems.append(dict(p, where="bb%d" % head, state=fmt_state(A, C, X, sh),
                                                          forks=oc.choices))
                            if oc.kind == "cut":
                                for s2 in self.expand_shape(self.shape_of(oc.bb, oc.env)):
                                    succ.add((oc.bb, tuple(sorted((k, v) for k, v in s2.items()))))
                        except Unsupported as e:
                            self.problems.append({"where": "bb%d" % head, "state": fmt_state(A, C, X, sh), "unsupported": True,
                                                  "problem": "cannot read what the round did: %s" % e})
                    if len(self.problems) - nprob > 12:
                        return []
        return [(h, dict(s)) for h, s in succ]

    # -- the specification ---------------------------------------------------------------------------------------------------
    def judge(self, head, sh, A, C, X, oc, seqs):
        op = self.op
        if oc.kind == "panic":
            return [{"problem": "the round panics: %s" % oc.ret}]
        lay = self.layouts[head]
        SA, SC = iset(A), iset(C)
        probs = []
        # ---- what was emitted ------------------------------------------------------------------------------------------
        E = []
        mode_after = None
        moved_idx = 0
        whole_input = False
        if lay.out:
            if oc.kind == "cut":
                lo = self.layouts[oc.bb].out
                if lo is None:
                    raise Unsupported("the output is not live at bb%d" % oc.bb)
                o = self.output_of(self.m.deref_val(oc.env, oc.env.get(lo[0], TOP)))
            else:
                o, whole_input = self.returned_output(oc.ret, sh)
            kind, k, items = o
            start_kind = "orig" if sh["mode"] == "Ok" else "base"
            if kind in ("orig", "origvec"):
                if start_kind != "orig":
                    probs.append({"problem": "the output collected so far is replaced by a prefix of the input"})
                if k not in (0, 1):
                    probs.append({"problem": "the index of kept blocks moves by %d in one round" % k})
                moved_idx = k
                if k == 1:
                    if A is None:
                        probs.append({"problem": "a block is kept though the first sequence has none"})
                    else:
                        E.append(A)
            elif kind == "base":
                if start_kind != "base":
                    probs.append({"problem": "the blocks kept so far (a prefix of the input) are dropped from the output"})
            else:
                probs.append({"problem": "the output collected so far is discarded"})
            for it in items:
                if not SX.is_concrete_block(it):
                    raise Unsupported("an emitted block has unknown bounds: %s" % render_val(it))
                if it[1] > it[2]:
                    probs.append({"problem": "emits the inverted block %d-%d" % (it[1], it[2])})
                E.append((it[1], it[2]))
            mode_after = kind if items == () else "own"
        SE = set()
        last = None
        for e in E:
            if last is not None and e[0] <= last + 1:
                probs.append({"problem": "emitted blocks %s are not ascending and apart" % (E,)})
            last = e[1]
            SE |= iset(e)
        end_a = seqs["self"].ended if "self" in seqs else True
        end_c = seqs["other"].ended if "other" in seqs else True
        if probs:
            return probs
        # ---- the round goes on to another round -------------------------------------------------------------------------
        if oc.kind == "cut":
            ra, pulled_a, _ = self.remaining("self", oc.bb, oc.env)
            rc, pulled_c, _ = self.remaining("other", oc.bb, oc.env)
            RA, RC = iset(ra), iset(rc)
            if ra is not None and (A is None or not RA <= SA or max(RA) != A[1]):
                return [{"problem": "the first cursor becomes %s, which is not an upper part of %s" % (ra, A)}]
            if rc is not None and (C is None or not RC <= SC or max(RC) != C[1]):
                return [{"problem": "the second cursor becomes %s, which is not an upper part of %s" % (rc, C)}]
            KA, KC = SA - RA, SC - RC
            if lay.out and self.layouts[oc.bb].out and sh["mode"] == "Ok":
                o2 = self.output_of(self.m.deref_val(oc.env, oc.env.get(self.layouts[oc.bb].out[0], TOP)))
                if o2[0] == "orig" and not o2[2]:
                    # still "a prefix of the input": the cursor must be an original block, in step with the index
                    if ra is not None and ra != A:
                        probs.append({"problem": "the first cursor is cut down to %s while the output is still a prefix of the input" % (ra,)})
                    if (moved_idx == 1) != (ra is None and A is not None):
                        probs.append({"problem": "the kept-prefix index moves by %d but the first cursor %s"
                                      % (moved_idx, "moved on" if ra is None else "did not")})
            if op in ("intersection", "difference"):
                if KA and C is not None and max(KA) > C[1] + 1:
                    probs.append({"problem": "consumes %s of the first cursor %s, beyond the reach of the second cursor %s"
                                  % (rng(KA), A, C)})
                want = (KA & SC) if op == "intersection" else (KA - SC)
                if SE != want:
                    probs.append({"problem": "consumes %s of the first cursor against %s and emits %s; the %s of the consumed part is %s"
                                  % (rng(KA), ("%d-%d" % C) if C else "nothing", rng(SE), op, rng(want))})
            elif op == "subset":
                if KA and not KA <= SC:
                    probs.append({"problem": "moves past %s of the first cursor, which the second cursor %s does not cover" % (rng(KA - SC), C)})
            elif op == "member":
                if KA and X in KA:
                    probs.append({"problem": "moves past the block %s that holds the item %d" % (A, X)})
            if KC:
                if KC & RA:
                    probs.append({"problem": "drops %s of the second cursor, which still meets the rest %s of the first" % (rng(KC), ra)})
                if A is not None and max(KC) > A[1] + 1:
                    probs.append({"problem": "drops %s of the second cursor, beyond the reach of the first cursor %s" % (rng(KC), A)})
            if not (KA or KC or pulled_a or pulled_c):
                # entering a loop nested in this one (the element just pulled becomes its cursor) is not a round of its own
                inner = self.loops[oc.bb] < self.loops[head]
                if not inner:
                    probs.append({"problem": "the round neither consumes anything nor ends the sweep"})
            return probs
        # ---- the sweep ends ----------------------------------------------------------------------------------------------
        no_later_c = end_c or C is None
        a_within_c_reach = A is None or C is None or A[1] <= C[1] + 1
        c_within_a_reach = C is None or A is None or C[1] <= A[1] + 1
        if op == "intersection":
            if whole_input and not end_a:
                probs.append({"problem": "reports the input as already trimmed though more of its blocks follow"})
            decided = (end_a and (no_later_c or a_within_c_reach)) or (no_later_c and c_within_a_reach)
            if not decided:
                probs.append({"problem": "ends the sweep at first cursor %s%s, second cursor %s%s: later blocks may still intersect"
                              % (A, " (last)" if end_a else "", C, " (last)" if end_c else "")})
            elif SE != (SA & SC):
                probs.append({"problem": "ends the sweep emitting %s; the intersection of the cursors %s and %s is %s"
                              % (rng(SE), A, C, rng(SA & SC))})
        elif op == "difference":
            decided = end_a and (no_later_c or a_within_c_reach)
            if not decided:
                probs.append({"problem": "ends the sweep at first cursor %s%s, second cursor %s%s: blocks not yet looked at still matter"
                              % (A, " (last)" if end_a else "", C, " (last)" if end_c else "")})
            elif SE != (SA - SC):
                probs.append({"problem": "ends the sweep emitting %s; %s without %s is %s" % (rng(SE), A, C, rng(SA - SC))})
        elif op == "subset":
            v = oc.ret
            if v is True:
                if not (end_a and SA <= SC):
                    probs.append({"problem": "answers true at first cursor %s%s against %s" % (A, " (last)" if end_a else " (more follow)", C)})
            elif v is False:
                wit = [x for x in SA if x not in SC and (no_later_c or x <= C[1] + 1)]
                if not wit:
                    probs.append({"problem": "answers false though every element of %s is in %s or may be in a later block" % (A, C)})
            else:
                raise Unsupported("returns %s" % render_val(v))
        elif op == "member":
            v = oc.ret
            if v is True:
                if not (A is not None and X in SA):
                    probs.append({"problem": "answers true for item %d at block %s" % (X, A)})
            elif v is False:
                if not (X not in SA and (end_a or (A is not None and X < A[0]))):
                    probs.append({"problem": "answers false for item %d at block %s%s" % (X, A, "" if end_a else " (more follow)")})
            else:
                raise Unsupported("returns %s" % render_val(v))
        return probs

    def returned_output(self, v, sh):
        """((kind, k, items), whole_input) of the value a sweep returns."""
        op = self.op
        if op == "intersection":
            if isinstance(v, tuple) and v[0] == "adt" and v[1] == "Result":
                if v[2] == "Ok":
                    # "the input is fine as it is": every block of it is kept — right only while the output is still a
                    # prefix of the input and the current block is kept too
                    if sh["mode"] != "Ok":
                        return ("fresh", 0, ()), True
                    return ("orig", 1, ()), True
                return self.output_of(v[3][0]), False
            raise Unsupported("returns %s" % render_val(v))
        if op == "difference":
            return self.output_of(v), False
        raise Unsupported("no output expected")


def rng(s):
    if not s:
        return "{}"
    s = sorted(s)
    out = []
    lo = prev = s[0]
    for x in s[1:]:
        if x != prev + 1:
            out.append((lo, prev))
            lo = x
        prev = x
    out.append((lo, prev))
    return ",".join("%d-%d" % p if p[0] != p[1] else "%d" % p[0] for p in out)


def fmt_state(A, C, X, sh):
    s = "A=%s C=%s" % ("%d-%d" % A if A else "none", "%d-%d" % C if C else "none")
    if X is not None:
        s += " item=%d" % X
    if sh.get("mode") not in (None, "-"):
        s += " output=%s" % ("prefix of the input" if sh["mode"] == "Ok" else "own vector")
    return s


def render_val(v, depth=0):
    if isinstance(v, tuple) and v:
        if v[0] == "adt":
            return "%s::%s(%s)" % (v[1], v[2], ", ".join(render_val(x, depth + 1) for x in v[3]))
        if v[0] == "block":
            return "%s-%s" % (render_val(v[1]), render_val(v[2]))
        if v[0] == "sym":
            return v[1]
        if v[0] == "vec":
            return "vec(%s + [%s])" % (v[1], ", ".join(render_val(x) for x in v[2]))
        if v[0] == "chain":
            return "chain " + render_val(v[1])
        if v[0] == "unit":
            return "()"
        if v[0] == "view":
            return "seq(%s)[%d..]" % (v[1].side, v[2])
    return str(v)


# ------------------------------------------------------------------------------------------------------------------
# the canonicalising append: a vector of blocks kept ascending and apart while blocks arrive in (hoped-for) order

T_GENITER = re.compile(r"^<I as std::iter::IntoIterator>::IntoIter$|^I$|^std::vec::IntoIter<T>$|^std::slice::Iter<'_, T>$")


class AppendSweep:
    """One round of `OwnedChain::from_iter`'s fast path: the next input block X against the last block T of the result
    built so far (whose earlier blocks all end before T.min − 1).  Admissible: hand everything over to another function
    (result, X and the rest of the input unchanged) — or go on with the tail of the result replaced by the canonical form
    of T ∪ X, and that only when X does not start before T (it could touch earlier blocks otherwise)."""

    def __init__(self, facts, body, vmax=8):
        self.f, self.b, self.vmax = facts, body, vmax
        self.m = SX.Machine(facts, vmax)
        self.m.delegates = []
        self.live = SX.liveness(body)
        self.heads = sorted(SX.loop_heads(body))
        if len(self.heads) != 1:
            raise Unsupported("%d loops in %s" % (len(self.heads), body.name))
        h = self.heads[0]
        self.out = [l for l in self.live[h] if T_VEC.match(body.local_ty(l))]
        self.src = [l for l in self.live[h] if T_GENITER.match(body.local_ty(l)) and l not in self.out]
        other = [l for l in self.live[h] if l not in self.out and l not in self.src]
        if len(self.out) != 1 or len(self.src) != 1 or other:
            raise Unsupported("state of the append loop is not (result vector, input iterator): vectors %s, iterators %s, other %s"
                              % (self.out, self.src, [(l, body.local_ty(l)) for l in other]))
        self.problems, self.rounds, self.states = [], 0, 0

    def run(self):
        h = self.heads[0]
        ivs = intervals(self.vmax)
        for T in [None] + ivs:
            for X in [None] + ivs:
                self.states += 1

                def mk(T=T, X=X):
                    seq = Seq("input", [("block", X[0], X[1], ("state", "input"))] if X else [], ended=X is None)
                    env = {self.src[0]: ("view", seq, 0),
                           self.out[0]: ("vec", ("sym", "R0"), (("block", T[0], T[1], ("state", "last")),)) if T else ("vec", None, ())}
                    return env, seq
                self.m.delegates = []
                try:
                    outs = self.m.explore(mk, self.b, h, {h})
                except Unsupported as e:
                    self.problems.append({"state": self.fmt(T, X), "unsupported": True, "problem": "cannot interpret the round: %s" % e})
                    if len(self.problems) > 3:
                        return self.problems
                    continue
                for oc, seq in outs:
                    self.rounds += 1
                    try:
                        for p in self.judge(T, X, oc, seq):
                            self.problems.append({"state": self.fmt(T, X), "problem": p})
                    except Unsupported as e:
                        self.problems.append({"state": self.fmt(T, X), "unsupported": True, "problem": "cannot read what the round did: %s" % e})
                if len([p for p in self.problems if not p.get("unsupported")]) > 12:
                    return self.problems
        return self.problems

    @staticmethod
    def fmt(T, X):
        return "last=%s next=%s" % ("%d-%d" % T if T else "none", "%d-%d" % X if X else "none")

    def judge(self, T, X, oc, seq):
        if oc.kind == "panic":
            return ["the round panics: %s" % oc.ret]
        start_items = ((T[0], T[1]),) if T else ()
        start_base = ("sym", "R0") if T else None

        def vec_of(v):
            if isinstance(v, tuple) and v and v[0] == "chain":
                v = v[1]
            if not (isinstance(v, tuple) and v and v[0] == "vec"):
                raise Unsupported("result is %s" % SX._kind(v))
            items = []
            for it in v[2]:
                if not SX.is_concrete_block(it):
                    raise Unsupported("a stored block has unknown bounds")
                items.append((it[1], it[2]))
            return v[1], tuple(items)
        if oc.kind == "return":
            v = oc.ret
            if isinstance(v, tuple) and v and v[0] == "delegated":
                args = v[2]
                vecs = [a for a in args if isinstance(a, tuple) and a and a[0] == "vec"]
                blks = [a for a in args if isinstance(a, tuple) and a and a[0] == "block"]
                views = [a for a in args if isinstance(a, tuple) and a and a[0] == "view"]
                if len(vecs) != 1 or len(blks) != 1 or len(views) != 1:
                    raise Unsupported("hand-over with arguments %s" % [SX._kind(a) for a in args])
                base, items = vec_of(vecs[0])
                out = []
                if base != start_base or items != start_items:
                    out.append("hands over a result that is not the one built so far: %s" % (items,))
                if X is None or (blks[0][1], blks[0][2]) != X:
                    out.append("hands over %s-%s instead of the block just read" % (blks[0][1], blks[0][2]))
                if views[0][2] != 1:
                    out.append("hands over the input at the wrong position")
                return out
            if X is not None:
                return ["returns although the input has another block"]
            base, items = vec_of(v)
            return [] if (base == start_base and items == start_items) else ["returns %s, not the result built so far" % (items,)]
        # the loop goes on
        lo = self.out[0]
        base, items = vec_of(self.m.deref_val(oc.env, oc.env.get(lo, TOP)))
        sv = self.m.deref_val(oc.env, oc.env.get(self.src[0], TOP))
        out = []
        if X is None:
            return ["goes round the loop without an input block"]
        if not (isinstance(sv, tuple) and sv[0] == "view" and sv[2] == 1):
            out.append("does not consume exactly the block just read")
        if base != start_base:
            out.append("the blocks stored before the last one are replaced")
        if T is not None and X[0] < T[0]:
            out.append("goes on in place although the new block starts before the last one (it may reach earlier blocks)")
        want = iset(T) | iset(X)
        got = set()
        prev = None
        for it in items:
            if it[0] > it[1]:
                out.append("stores the inverted block %d-%d" % it)
            if prev is not None and it[0] <= prev + 1:
                out.append("stores blocks that are not ascending and apart: %s" % (items,))
            prev = it[1]
            got |= iset(it)
        if got != want:
            out.append("stores %s for last ∪ next = %s" % (rng(got), rng(want)))
        return out
