"""MIR-level inlining of calls to crate functions (on the JSON facts).

Extracting a private helper (or folding one back) is the most common behaviour-preserving edit; a rule that looks
for a guard or a call *in one function body* must not fire on it.  `inlined(facts, body, depth)` returns a new
Body in which every static call to a small, non-recursive, non-coroutine crate function is replaced by the
callee's blocks (arguments assigned to the callee's parameter locals, `return` turned into an assignment of the
destination plus a jump).  Inlining preserves semantics, so a rule that holds on an inlined body holds on the
program.  Nothing is executed; this is a graph rewrite of the compiler's MIR."""
import copy, re
from .facts import Body

_CACHE = {}


def _renumber(node, loff, boff, poff):
    """Shift local, block and promoted indices in a callee fragment (in place)."""
    if isinstance(node, dict):
        if "l" in node and "p" in node and isinstance(node["p"], list) and isinstance(node["l"], int):
            node["l"] += loff
            for pe in node["p"]:
                if pe and pe[0] == "i" and isinstance(pe[1], int):
                    pe[1] += loff
            return
        if "promoted" in node and isinstance(node["promoted"], int) and len(node) <= 3:
            node["promoted"] += poff
        for k, v in node.items():
            if k in ("target", "otherwise", "unwind", "cleanup_target", "real_target", "imaginary_target", "resume", "drop") \
                    and isinstance(v, int) and not isinstance(v, bool):
                node[k] = v + boff
            elif k == "targets" and isinstance(v, list):
                for t in v:
                    if isinstance(t, list) and len(t) == 2 and isinstance(t[1], int):
                        t[1] += boff
            else:
                _renumber(v, loff, boff, poff)
    elif isinstance(node, list):
        for x in node:
            _renumber(x, loff, boff, poff)


def _callee_of(facts, term):
    f = term.get("func")
    k = f.get("k") if isinstance(f, dict) else None
    if not k or "fn" not in k:
        return None
    res = k.get("res") or k["fn"]
    if "res" not in k and k.get("trait"):
        return None                     # unresolved trait call
    return res if res in facts.bodies else None


def inlinable(facts, caller_name, callee_name, max_blocks):
    cb = facts.bodies.get(callee_name)
    if cb is None or cb.is_coroutine or len(cb.blocks) > max_blocks:
        return False
    if callee_name == caller_name or callee_name.startswith(caller_name + "::{closure"):
        return False
    if cb.rec.get("kind") not in (None, "Fn", "AssocFn"):
        return False
    # direct self-recursion
    for blk in cb.blocks:
        t = blk["term"]
        if t["t"] == "call" and _callee_of(facts, t) == callee_name:
            return False
    return True


# ---------------------------------------------------------------------------------------------------------------
# Jump threading of Option/Result variants across an inlined return.
#
# `helper(x)?` with the helper inlined leaves   … `_r = Err(e)` ─┐
#                                                … `_r = Ok(v)` ──┴→ `_b = Try::branch(_r)`; switch discr(_b) …
# and a path rule sees the infeasible path "helper's Err-exit → caller's Ok-arm".  For every exit of the inlined
# callee whose return value has a known variant, the straight-line continuation up to the first switch on that
# variant is duplicated and the switch decided (tail duplication + constant folding of a discriminant — both
# semantics-preserving).  The models of std's combinators below state only which variant comes out for which
# variant going in; that is their documented contract.

_SAME = {"Ok": "Ok", "Err": "Err", "Some": "Some", "None": "None"}
_COMBINATORS = {
    ("Result", "map_err"): _SAME, ("Result", "map"): _SAME, ("Result", "as_ref"): _SAME, ("Result", "as_mut"): _SAME,
    ("Result", "inspect_err"): _SAME, ("Result", "inspect"): _SAME, ("Result", "copied"): _SAME, ("Result", "cloned"): _SAME,
    ("Option", "map"): _SAME, ("Option", "as_ref"): _SAME, ("Option", "as_mut"): _SAME, ("Option", "copied"): _SAME,
    ("Option", "cloned"): _SAME, ("Option", "as_deref"): _SAME, ("Option", "inspect"): _SAME,
    ("Option", "ok_or"): {"Some": "Ok", "None": "Err"}, ("Option", "ok_or_else"): {"Some": "Ok", "None": "Err"},
    ("Result", "ok"): {"Ok": "Some", "Err": "None"}, ("Result", "err"): {"Ok": "None", "Err": "Some"},
    ("Option", "and_then"): {"None": "None"}, ("Result", "and_then"): {"Err": "Err"},
    ("Option", "filter"): {"None": "None"}, ("Result", "or_else"): {"Ok": "Ok"}, ("Option", "or_else"): {"Some": "Some"},
    ("Try", "branch"): {"Ok": "Continue", "Some": "Continue", "Err": "Break", "None": "Break"},
}
_BOOL_COMBINATORS = {
    ("Option", "is_some"): {"Some": 1, "None": 0}, ("Option", "is_none"): {"Some": 0, "None": 1},
    ("Result", "is_ok"): {"Ok": 1, "Err": 0}, ("Result", "is_err"): {"Ok": 0, "Err": 1},
}
_VIDX = {"Ok": 0, "Err": 1, "None": 0, "Some": 1, "Continue": 0, "Break": 1, "Ready": 0, "Pending": 1}
_THREAD_ADTS = ("std::task::Poll", "core::task::Poll", "std::result::Result", "std::option::Option", "std::ops::ControlFlow", "core::result::Result",
                "core::option::Option", "core::ops::ControlFlow")


def _combinator(term):
    f = term.get("func")
    k = f.get("k") if isinstance(f, dict) else None
    if not k or "fn" not in k:
        return None
    fn = k["fn"]
    for ty in ("Result", "Option"):
        if fn.startswith("std::%s::%s::<" % (ty.lower(), ty)) or fn.startswith("core::%s::%s::<" % (ty.lower(), ty)):
            return (ty, k.get("name") or fn.rsplit("::", 1)[-1])
    if fn in ("std::ops::Try::branch", "core::ops::Try::branch"):
        return ("Try", "branch")
    return None


def _plain(pl):
    return pl["l"] if isinstance(pl, dict) and "l" in pl and not pl.get("p") else None


def _op_local(op):
    if isinstance(op, dict):
        for k in ("m", "c"):
            if k in op:
                return _plain(op[k])
    return None


def _variant_of_agg(rv):
    if isinstance(rv, dict) and rv.get("r") == "agg" and rv.get("ak") == "adt" and rv.get("adt") in _THREAD_ADTS:
        return rv.get("variant")
    return None


def _written(stmt):
    pl = stmt.get("pl")
    return pl["l"] if isinstance(pl, dict) and "l" in pl else None


def _thread_from(blocks, start, known, dvals0=None, limit=24, payload0=None):
    """Follow the straight-line continuation from block `start` with `known` = {local: variant}.  Returns a list of
    new blocks (clones) whose last one ends in a goto to the decided switch target, or None."""
    clones = []
    decided = 0
    dvals = dict(dvals0 or {})     # local -> int (a discriminant or bool known on this path)
    payload = dict(payload0 or {}) # local -> variant of its (single) payload field 0, e.g. Ready(Ok(..)) -> "Ok"
    cur = start
    seen = set()
    known = dict(known)
    while len(clones) < limit and cur not in seen:
        seen.add(cur)
        blk = blocks[cur]
        if blk.get("cleanup"):
            break
        nb = {"stmts": copy.deepcopy(blk["stmts"]), "term": copy.deepcopy(blk["term"])}
        for st in nb["stmts"]:
            if st.get("s") != "assign":
                w = _written(st)
                if w is not None:
                    known.pop(w, None); dvals.pop(w, None)
                continue
            dst = _plain(st["pl"])
            rv = st["rv"]
            w = _written(st)
            val = dv = pv = None
            if dst is not None:
                if rv.get("r") == "use":
                    src = _op_local(rv["op"])
                    if src is not None:
                        val, dv, pv = known.get(src), dvals.get(src), payload.get(src)
                    else:
                        # `x = (p as V).0` with the payload's own variant known
                        op = rv["op"]
                        pl_ = (op.get("m") or op.get("c")) if isinstance(op, dict) else None
                        if isinstance(pl_, dict) and "l" in pl_ and len(pl_.get("p", [])) == 2 and pl_["p"][0][0] == "dc" \
                                and pl_["p"][1][0] == "f" and str(pl_["p"][1][1]) == "0" \
                                and known.get(pl_["l"]) == pl_["p"][0][1] and pl_["l"] in payload:
                            val = payload[pl_["l"]]
                elif rv.get("r") == "discr":
                    src = _plain(rv.get("pl"))
                    if src is not None and src in known:
                        dv = _VIDX.get(known[src])
                else:
                    val = _variant_of_agg(rv)
                    if val is not None and len(rv.get("ops", [])) == 1:
                        inner = _op_local(rv["ops"][0])
                        if inner is not None and inner in known:
                            pv = known[inner]
                if rv.get("r") == "use" and isinstance(rv["op"], dict) and "k" in rv["op"] \
                        and isinstance(rv["op"]["k"].get("v"), int) and rv["op"]["k"].get("ty") == "bool":
                    dv = rv["op"]["k"]["v"]
            if w is not None:
                known.pop(w, None); dvals.pop(w, None); payload.pop(w, None)
            if dst is not None:
                if val is not None:
                    known[dst] = val
                if dv is not None:
                    dvals[dst] = dv
                if pv is not None:
                    payload[dst] = pv
        t = nb["term"]
        clones.append(nb)
        if t["t"] == "goto":
            cur = t["target"]
            continue
        if t["t"] == "drop" and t.get("target") is not None:
            dl = t["pl"].get("l") if isinstance(t.get("pl"), dict) else None
            known.pop(dl, None); dvals.pop(dl, None)
            cur = t["target"]
            continue
        if t["t"] == "call" and t.get("target") is not None:
            comb = _combinator(t)
            dst = _plain(t["dest"])
            src = _op_local(t["args"][0]) if t.get("args") else None
            w = t["dest"].get("l") if isinstance(t["dest"], dict) else None
            out = dv = None
            if comb is not None and src is not None and src in known:
                if comb in _COMBINATORS:
                    out = _COMBINATORS[comb].get(known[src])
                elif comb in _BOOL_COMBINATORS:
                    dv = _BOOL_COMBINATORS[comb].get(known[src])
            # a call may move its arguments
            for a in t.get("args", []):
                al = _op_local(a)
                if al is not None and isinstance(a, dict) and "m" in a:
                    known.pop(al, None)
            if w is not None:
                known.pop(w, None); dvals.pop(w, None)
            if dst is not None and out is not None:
                known[dst] = out
            if dst is not None and dv is not None:
                dvals[dst] = dv
            if not known and not dvals:
                break
            cur = t["target"]
            continue
        if t["t"] == "switch":
            d = _op_local(t["discr"])
            if d is not None and d in dvals:
                v = dvals[d]
                tgt = t["otherwise"]
                for val, b in t["targets"]:
                    if val == v:
                        tgt = b
                nb["term"] = {"t": "goto", "target": tgt, "sp": t.get("sp"), "threaded": True}
                decided += 1
                cur = tgt
                continue
            break
        break
    # the copies up to here are exact copies of straight-line code with decided switches folded; the last copy keeps its
    # own terminator (pointing at original blocks).  Worth keeping only if something was decided.
    if not decided:
        return None
    # drop trailing copies after the last decided switch (they would only duplicate code without deciding anything)
    while clones and not clones[-1]["term"].get("threaded"):
        clones.pop()
    return clones or None


def _thread_returns(blocks, first, last, ret_local):
    """`blocks[first:last]` are the freshly inlined callee blocks (their `return`s already rewritten to
    `dest = _ret; goto target`).  Thread every exit at which `_ret` is given a known variant (or a constant)."""
    n = 0
    for bi in range(first, last):
        blk = blocks[bi]
        t = blk["term"]
        if blk.get("cleanup"):
            continue
        if t["t"] == "call" and t.get("target") is not None and _plain(t["dest"]) == ret_local:
            # `return Err(e)?`-style exits: FromResidual::from_residual always builds the failure variant
            k = t["func"].get("k") if isinstance(t["func"], dict) else None
            if k and k.get("fn") in ("std::ops::FromResidual::from_residual", "core::ops::FromResidual::from_residual"):
                ty = k.get("ty") or ""
                out = ty.rsplit("->", 1)[-1]
                v = "Err" if re.search(r"^\s*(std|core)::result::Result<", out) else ("None" if re.search(r"^\s*(std|core)::option::Option<", out) else None)
                if v:
                    clones = _thread_from(blocks, t["target"], {ret_local: v})
                    if clones is not None:
                        base = len(blocks)
                        for i, c in enumerate(clones[:-1]):
                            c["term"]["target"] = base + i + 1
                        blocks.extend(clones)
                        blk["term"] = dict(t, target=base)
                        n += 1
            continue
        if t["t"] not in ("goto", "drop") or t.get("target") is None:
            continue
        variant = const = None
        for st in reversed(blk["stmts"]):
            if st.get("s") == "assign" and _plain(st["pl"]) == ret_local:
                variant = _variant_of_agg(st["rv"])
                rv = st["rv"]
                if variant is None and rv.get("r") == "use" and isinstance(rv["op"], dict) and "k" in rv["op"] \
                        and isinstance(rv["op"]["k"].get("v"), int) and rv["op"]["k"].get("ty") == "bool":
                    const = rv["op"]["k"]["v"]
                break
            if _written(st) == ret_local:
                break
        if variant is None and const is None:
            continue
        clones = _thread_from(blocks, t["target"], {ret_local: variant} if variant is not None else {},
                              {ret_local: const} if const is not None else {})
        if clones is None:
            continue
        base = len(blocks)
        for i, c in enumerate(clones[:-1]):
            c["term"]["target"] = base + i + 1
        blocks.extend(clones)
        blk["term"] = dict(t, target=base)
        n += 1
    return n


def _targets(t):
    out = []
    for k in ("target", "otherwise", "cleanup_target", "real_target", "imaginary_target", "drop"):
        v = t.get(k)
        if isinstance(v, int) and not isinstance(v, bool):
            out.append(v)
    u = t.get("unwind")
    if isinstance(u, int) and not isinstance(u, bool):
        out.append(u)
    for x in t.get("targets", []) or []:
        if isinstance(x, list) and len(x) == 2 and isinstance(x[1], int):
            out.append(x[1])
    return out


def _prune_unreachable(blocks):
    """Blocks no path from the entry reaches any more (the joined continuation after every exit was threaded) are
    emptied: they keep their index but define and call nothing, so they cannot make a local look multiply defined."""
    seen = set()
    stack = [0]
    while stack:
        b = stack.pop()
        if b in seen or b >= len(blocks):
            continue
        seen.add(b)
        stack.extend(_targets(blocks[b]["term"]))
    for i, blk in enumerate(blocks):
        if i not in seen and (blk["stmts"] or blk["term"]["t"] != "unreachable"):
            blk["stmts"] = []
            blk["term"] = {"t": "unreachable", "pruned": True}


# ---------------------------------------------------------------------------------------------------------------
# Splitting a local into its def-use webs.
#
# After inlining and threading, one MIR local (the callee's return slot, the `?` temporary) is assigned on several
# paths that never meet at a use: each use is reached by exactly one of the definitions.  The provenance terms
# (engine/sym.py) are flow-insensitive and would call such a local "multiply defined".  Renaming every web (a set
# of definitions and the uses they reach, closed under "reach the same use") to its own local changes nothing
# about the program and makes those locals singly defined again.

def _places(node, out, role="use"):
    """Collect (place dict, role) for every place occurrence under node."""
    if isinstance(node, dict):
        if "l" in node and "p" in node and isinstance(node["l"], int) and isinstance(node["p"], list):
            out.append((node, role))
            for pe in node["p"]:
                if pe and pe[0] == "i" and isinstance(pe[1], int):
                    out.append(({"l": pe[1], "p": [], "_idx_of": pe}, "use"))
            return
        for k, v in node.items():
            if k in ("sp", "locals"):
                continue
            _places(v, out, role)
    elif isinstance(node, list):
        for x in node:
            _places(x, out, role)


def split_webs(rec):
    """Rewrite rec (a body record) in place; returns the number of locals split."""
    blocks = rec["blocks"]
    nloc = len(rec["locals"])
    argc = rec.get("arg_count", 0)
    # locals we must not touch: arguments, the return place, address-taken, partially assigned, named in debuginfo
    frozen = set(range(0, argc + 1))
    defs = {}                      # local -> [(bb, idx)]   idx: statement index, or "term"
    for bi, blk in enumerate(blocks):
        for si, st in enumerate(blk["stmts"]):
            if st.get("s") == "assign":
                pl = st["pl"]
                if pl["p"]:
                    frozen.add(pl["l"])
                else:
                    defs.setdefault(pl["l"], []).append((bi, si))
                rv = st["rv"]
                if rv.get("r") in ("ref", "rawptr") and isinstance(rv.get("pl"), dict) and not rv["pl"]["p"]:
                    frozen.add(rv["pl"]["l"])
            else:
                acc = []
                _places(st, acc)
                for pl, _ in acc:
                    frozen.add(pl["l"])
        t = blk["term"]
        if t["t"] == "call":
            d = t["dest"]
            if d["p"]:
                frozen.add(d["l"])
            else:
                defs.setdefault(d["l"], []).append((bi, "term"))
        elif t["t"] == "yield":
            frozen.add(t["resume_arg"]["l"])
        elif t["t"] == "drop":
            pass
    for name, pl in rec.get("upvars", []):
        if isinstance(pl, dict) and "l" in pl:
            frozen.add(pl["l"])
    cands = [l for l, ds in defs.items() if len(ds) > 1 and l not in frozen]
    if not cands:
        return 0
    cset = set(cands)
    # reaching definitions (per candidate local: set of def ids), forward may-analysis
    succs = [_targets(b["term"]) for b in blocks]
    gen = [dict() for _ in blocks]            # bb -> {local: def id at block end}
    for l in cands:
        for (bi, si) in defs[l]:
            cur = gen[bi].get(l)
            if cur is None or (cur[1] != "term" and (si == "term" or si > cur[1])):
                gen[bi][l] = (bi, si)
    IN = [dict() for _ in blocks]
    work = list(range(len(blocks)))
    inq = set(work)
    while work:
        b = work.pop()
        inq.discard(b)
        out = {l: set(v) for l, v in IN[b].items()}
        for l, d in gen[b].items():
            out[l] = {d}
        for sck in succs[b]:
            if sck >= len(blocks):
                continue
            changed = False
            tgt = IN[sck]
            for l, ds in out.items():
                cur = tgt.get(l)
                if cur is None:
                    tgt[l] = set(ds)
                    changed = True
                elif not ds <= cur:
                    cur |= ds
                    changed = True
            if changed and sck not in inq:
                inq.add(sck)
                work.append(sck)
    # union-find over definitions
    parent = {}

    def find(x):
        while parent.setdefault(x, x) != x:
            parent[x] = parent[parent[x]]
            x = parent[x]
        return x

    def union(a, b):
        ra, rb = find(a), find(b)
        if ra != rb:
            parent[ra] = rb
    uses = []                      # (place dict, local, frozenset of reaching defs)
    bad = set()
    for bi, blk in enumerate(blocks):
        cur = {l: set(v) for l, v in IN[bi].items()}

        def note(node, skip=None):
            acc = []
            _places(node, acc)
            for pl, _ in acc:
                if pl is skip:
                    continue
                l = pl["l"]
                if l in cset:
                    rd = cur.get(l)
                    if not rd:
                        bad.add(l)          # read with no reaching definition we know of
                    else:
                        rd = frozenset(rd)
                        first = next(iter(rd))
                        for d in rd:
                            union((l,) + d, (l,) + first)
                        uses.append((pl, l, rd))
        for si, st in enumerate(blk["stmts"]):
            if st.get("s") == "assign":
                note(st["rv"])
                pl = st["pl"]
                if not pl["p"] and pl["l"] in cset:
                    cur[pl["l"]] = {(bi, si)}
                else:
                    note(pl)
            else:
                note(st)
        t = blk["term"]
        if t["t"] == "call":
            note({k: v for k, v in t.items() if k != "dest"})
            if t["dest"]["p"]:
                note(t["dest"])
        else:
            note(t)
    nsplit = 0
    for l in cands:
        if l in bad:
            continue
        webs = {}
        for d in defs[l]:
            webs.setdefault(find((l,) + d), []).append(d)
        if len(webs) < 2:
            continue
        nsplit += 1
        newname = {}
        for k, (root, ds) in enumerate(sorted(webs.items(), key=lambda kv: min(kv[1], key=lambda d: (d[0], -1 if d[1] == "term" else d[1])))):
            if k == 0:
                newname[root] = l
            else:
                rec["locals"].append(dict(rec["locals"][l]))
                newname[root] = len(rec["locals"]) - 1
        for (bi, si) in defs[l]:
            nl = newname[find((l, bi, si))]
            if si == "term":
                blocks[bi]["term"]["dest"]["l"] = nl
            else:
                blocks[bi]["stmts"][si]["pl"]["l"] = nl
        for pl, ll, rd in uses:
            if ll != l:
                continue
            nl = newname[find((l,) + next(iter(rd)))]
            if "_idx_of" in pl:
                pl["_idx_of"][1] = nl
            else:
                pl["l"] = nl
    return nsplit


def inline_once(facts, body, select=None, max_blocks=120):
    """One round: inline every selected call currently in `body`. Returns (new Body, number of calls inlined)."""
    rec = copy.deepcopy(body.rec)
    blocks = rec["blocks"]
    locals_ = rec["locals"]
    promoted = rec.setdefault("promoted", [])
    n = 0
    for bi in range(len(blocks)):
        t = blocks[bi]["term"]
        if t["t"] != "call" or blocks[bi].get("cleanup"):
            continue
        callee = _callee_of(facts, t)
        if callee is None or not inlinable(facts, body.name, callee, max_blocks):
            continue
        if select is not None and not select(callee):
            continue
        cb = facts.bodies[callee]
        if len(t["args"]) != cb.arg_count:
            continue                    # spread arguments (closure call ABI) — leave alone
        crec = copy.deepcopy(cb.rec)
        loff, boff, poff = len(locals_), len(blocks), len(promoted)
        cblocks = crec["blocks"]
        _renumber(cblocks, loff, boff, poff)
        for l in crec["locals"]:
            locals_.append(dict(l))
        promoted.extend(crec.get("promoted", []))
        ret_local = loff            # callee _0
        dest, target = t["dest"], t.get("target")
        for cblk in cblocks:
            ct = cblk["term"]
            if ct["t"] == "return":
                cblk["stmts"].append({"s": "assign", "pl": copy.deepcopy(dest), "rv": {"r": "use", "op": {"m": {"l": ret_local, "p": []}}},
                                      "sp": ct.get("sp")})
                cblk["term"] = {"t": "goto", "target": target, "sp": ct.get("sp"), "ret_of_inlined": True} if target is not None else {"t": "unreachable", "sp": ct.get("sp")}
        # argument passing
        pre = []
        for k, a in enumerate(t["args"]):
            pre.append({"s": "assign", "pl": {"l": loff + 1 + k, "p": []}, "rv": {"r": "use", "op": copy.deepcopy(a)}, "sp": t.get("sp")})
        blocks[bi]["stmts"] = blocks[bi]["stmts"] + pre
        blocks[bi]["term"] = {"t": "goto", "target": boff, "sp": t.get("sp"), "inlined": callee}
        blocks.extend(cblocks)
        if target is not None:
            _thread_returns(blocks, boff, boff + len(cblocks), ret_local)
        n += 1
    if n:
        _prune_unreachable(blocks)
        try:
            split_webs(rec)
        except Exception:
            pass
    nb = Body(rec, facts)
    return nb, n


def inlined(facts, body, depth=1, select=None, max_blocks=120):
    """`body` with calls to crate functions inlined `depth` levels deep."""
    key = (id(facts), body.name, depth, select, max_blocks)      # the selector itself: ids of dead lambdas are reused
    if key in _CACHE:
        return _CACHE[key]
    cur = body
    for _ in range(depth):
        if len(cur.blocks) > 2500:
            break
        cur, n = inline_once(facts, cur, select, max_blocks)
        if n == 0:
            break
    _CACHE[key] = cur
    return cur


def variants(facts, body, depths=(0, 1, 2), select=None):
    """The body as written, then with callees inlined one and two levels deep — a rule may accept any of them."""
    out = []
    seen = set()
    for d in depths:
        b = body if d == 0 else inlined(facts, body, d, select)
        sig = len(b.blocks)
        if d and sig in seen:
            continue
        seen.add(sig)
        out.append(b)
    return out


# ---------------------------------------------------------------------------------------------------------------
# Folding a newly extracted *async* helper back into the async body that awaits it.
#
# `helper(args).await` is, in MIR: `fut = helper(args)` (the helper's outer body only builds the coroutine value from
# its arguments), then a loop that calls the coroutine body `helper::{closure#0}(pin(&mut fut), cx)` — `Future::poll`
# resolved — and yields while it returns Pending.  Replacing that call by the coroutine body itself (captured
# arguments spelt as the values handed to `helper`, completion = `Poll::Ready(result)`, the helper's own suspension
# points kept as suspension points) describes the same computation; the Pending arm of the awaiting loop becomes
# dead and is pruned.

def _find_creator(facts, body, sym, poll_arg, async_fn):
    from .sym import walk, strip_deep
    t = strip_deep(sym.operand(poll_arg))
    for x in walk(t):
        if x[0] == "call" and x[1] == async_fn:
            bb = (x[3] or {}).get("bb")
            if bb is not None:
                return bb
    return None


def inline_polls(facts, body, async_helpers, max_blocks=400):
    """Inline every `poll` of a coroutine created by one of `async_helpers` (names of async fns).  -> (Body, n)"""
    from .sym import Sym
    rec = copy.deepcopy(body.rec)
    blocks = rec["blocks"]
    locals_ = rec["locals"]
    promoted = rec.setdefault("promoted", [])
    work = Body(copy.deepcopy(body.rec), facts)
    sym = Sym(work)
    n = 0
    for bi in range(len(blocks)):
        t = blocks[bi]["term"]
        if t["t"] != "call" or blocks[bi].get("cleanup") or t.get("target") is None:
            continue
        callee = _callee_of(facts, t)
        if callee is None or not callee.endswith("::{closure#0}"):
            continue
        afn = callee[:-len("::{closure#0}")]
        cb = facts.bodies.get(callee)
        if afn not in async_helpers or cb is None or not cb.is_coroutine or len(cb.blocks) > max_blocks or len(t["args"]) != 2:
            continue
        if callee == body.name or body.name.startswith(afn + "::"):
            continue
        creator = _find_creator(facts, work, sym, t["args"][0], afn)
        if creator is None:
            continue
        ct = blocks[creator]["term"]
        if ct["t"] != "call" or _callee_of(facts, ct) != afn:
            continue
        upv = cb.rec.get("upvars", [])
        idx_of = {}
        for name, pl in upv:
            p0 = pl.get("p", [])
            if pl.get("l") == 1 and p0 and p0[0][0] == "f":
                try:
                    idx_of[int(p0[0][1])] = (name, p0[0][3] if len(p0[0]) > 3 else "?")
                except (TypeError, ValueError):
                    pass
        if len(ct["args"]) < len(idx_of):
            continue
        crec = copy.deepcopy(cb.rec)
        loff, boff, poff = len(locals_), len(blocks), len(promoted)
        cblocks = crec["blocks"]
        _renumber(cblocks, loff, boff, poff)
        for l in crec["locals"]:
            locals_.append(dict(l))
        promoted.extend(crec.get("promoted", []))
        # captured arguments: one fresh local each, set where the coroutine value is created
        ulocal = {}
        for i, (name, ty) in sorted(idx_of.items()):
            locals_.append({"ty": ty, "name": name})
            ulocal[i] = len(locals_) - 1
            a = copy.deepcopy(ct["args"][i])
            if isinstance(a, dict) and "m" in a:
                a = {"c": a["m"]}
            blocks[creator]["stmts"].append({"s": "assign", "pl": {"l": ulocal[i], "p": []}, "rv": {"r": "use", "op": a}, "sp": ct.get("sp")})
        env = loff + 1

        def fix(node):
            if isinstance(node, dict):
                if "l" in node and "p" in node and isinstance(node["p"], list) and node.get("l") == env and node["p"] \
                        and node["p"][0][0] == "f":
                    try:
                        i = int(node["p"][0][1])
                    except (TypeError, ValueError):
                        i = None
                    if i in ulocal:
                        node["l"] = ulocal[i]
                        node["p"] = node["p"][1:]
                        return
                for v in node.values():
                    fix(v)
            elif isinstance(node, list):
                for x in node:
                    fix(x)
        fix(cblocks)
        ret_local = loff
        dest, target = t["dest"], t["target"]
        rty = locals_[dest["l"]]["ty"] if not dest["p"] else "?"
        for cblk in cblocks:
            ctm = cblk["term"]
            if ctm["t"] == "return":
                cblk["stmts"].append({"s": "assign", "pl": copy.deepcopy(dest),
                                      "rv": {"r": "agg", "ak": "adt", "adt": "std::task::Poll", "variant": "Ready", "vidx": 0,
                                             "fields": ["0"], "ga": [], "ops": [{"m": {"l": ret_local, "p": []}}]},
                                      "sp": ctm.get("sp")})
                cblk["term"] = {"t": "goto", "target": target, "sp": ctm.get("sp"), "ret_of_inlined": True}
        pre = [{"s": "assign", "pl": {"l": loff + 2, "p": []}, "rv": {"r": "use", "op": copy.deepcopy(t["args"][1])}, "sp": t.get("sp")}]
        blocks[bi]["stmts"] = blocks[bi]["stmts"] + pre
        blocks[bi]["term"] = {"t": "goto", "target": boff, "sp": t.get("sp"), "inlined": callee}
        blocks.extend(cblocks)
        # exits with a known Ok/Err completion: threaded through `Ready(..)`, the awaiting loop's switch and the `?`
        _thread_returns(blocks, boff, boff + len(cblocks), ret_local)
        # completion is always Ready: decide the awaiting loop's switch on the copies that follow each completion
        for ci in range(boff, boff + len(cblocks)):
            cb_ = blocks[ci]
            if cb_["term"].get("ret_of_inlined"):
                d = _plain(dest)
                if d is not None:
                    clones = _thread_from(blocks, target, {d: "Ready"})
                    if clones is not None:
                        base = len(blocks)
                        for i, c in enumerate(clones[:-1]):
                            c["term"]["target"] = base + i + 1
                        blocks.extend(clones)
                        cb_["term"] = dict(cb_["term"], target=base)
        n += 1
    if n:
        _prune_unreachable(blocks)
        try:
            split_webs(rec)
        except Exception:
            pass
    return Body(rec, facts), n


class InlinedFacts:
    """A view of a Facts object in which every function body has its calls to *private* crate functions inlined
    (two levels).  Functions that are private and whose every call site was inlined have no existence of their own in
    this view (`absorbed`): what they contain is judged inside their callers."""

    def __init__(self, facts, depth=5, max_blocks=160, only=None, async_helpers=None):
        self._into_coroutines = only is not None     # folding back *new* helpers: also inside async bodies
        self._async = set(async_helpers or ())
        self._f = facts
        self._depth = depth
        self._max = max_blocks
        self._cache = {}
        priv = set()
        for n, r in facts.fns.items():
            if r.get("has_body") and not r.get("exported") and not r.get("impl_trait") and not r.get("async"):
                if only is None or n in only:
                    priv.add(n)
        self._priv = priv
        self._select = lambda callee: callee in priv
        # absorbed: private fns, every static call to which is inlinable
        called_from = {}
        for n, b in facts.bodies.items():
            for blk in b.blocks:
                t = blk["term"]
                if t["t"] == "call":
                    c = _callee_of(facts, t)
                    if c in priv:
                        called_from.setdefault(c, []).append((n, bool(blk.get("cleanup"))))
        # also fn items used as values (not inlinable)
        used_as_value = set()
        for n, b in facts.bodies.items():
            for blk in b.blocks:
                t = blk["term"]
                if t["t"] == "call":
                    for a in t["args"]:
                        k = a.get("k") if isinstance(a, dict) else None
                        if k and "fn" in k:
                            used_as_value.add(k.get("res") or k["fn"])
        self.absorbed = {c for c, sites in called_from.items()
                         if c not in used_as_value and all(inlinable(facts, caller, c, max_blocks) for caller, _ in sites)}
        self.bodies = _Bodies(self)

    def __getattr__(self, name):
        return getattr(self._f, name)

    def body(self, name):
        if name in self.absorbed:
            return None
        b = self._f.bodies.get(name)
        if b is None:
            return None
        if name not in self._cache:
            if (b.is_coroutine and not self._into_coroutines) or name.split("::{closure")[0] in self.absorbed:
                self._cache[name] = b
            else:
                nb = inlined(self._f, b, self._depth, self._select, self._max)
                if self._async and nb.is_coroutine:
                    for _ in range(3):
                        nb2, k = inline_polls(self._f, nb, self._async)
                        if not k:
                            break
                        nb = nb2
                        for _d in range(self._depth):         # (not `inlined()`: its cache is keyed by the body's name)
                            if not self._priv or len(nb.blocks) > 2500:
                                break
                            nb3, k3 = inline_once(self._f, nb, self._select, self._max)
                            if not k3:
                                break
                            nb = nb3
                self._cache[name] = nb
        return self._cache[name]

    def find_bodies(self, pattern):
        import re
        rx = re.compile(pattern)
        return [self.body(n) for n in self._f.bodies if rx.search(n) and self.body(n) is not None]

    def callers_of(self, callee_pred):
        out = []
        for n in self._f.bodies:
            b = self.body(n)
            if b is None:
                continue
            for c in b.calls():
                if c.is_static and callee_pred(c):
                    out.append(c)
        return out


class _Bodies:
    """dict-like over the inlined bodies."""

    def __init__(self, view):
        self._v = view

    def _names(self):
        return [n for n in self._v._f.bodies if n not in self._v.absorbed and n.split("::{closure")[0] not in self._v.absorbed]

    def __iter__(self):
        return iter(self._names())

    def __len__(self):
        return len(self._names())

    def __contains__(self, n):
        return n in self._v._f.bodies and n not in self._v.absorbed

    def __getitem__(self, n):
        b = self._v.body(n)
        if b is None:
            raise KeyError(n)
        return b

    def get(self, n, d=None):
        b = self._v.body(n) if n in self._v._f.bodies else None
        return b if b is not None else d

    def keys(self):
        return self._names()

    def values(self):
        return [self._v.body(n) for n in self._names()]

    def items(self):
        return [(n, self._v.body(n)) for n in self._names()]


def new_private_helpers(facts):
    """Private, non-async functions that did not exist in the tree the rules were written against."""
    import json, os
    p = os.path.join(os.path.dirname(os.path.dirname(os.path.abspath(__file__))), "tables", "head_functions.json")
    try:
        head = set(json.load(open(p))["functions"])
    except FileNotFoundError:
        return set()
    out = set()
    for n, r in facts.fns.items():
        if n in head or not r.get("has_body") or r.get("exported") or r.get("impl_trait") or r.get("async"):
            continue
        b = facts.bodies.get(n)
        if b is None or b.is_coroutine:
            continue
        out.add(n)
    return out


def new_async_helpers(facts):
    """Private async functions that did not exist in the tree the rules were written against."""
    import json, os
    p = os.path.join(os.path.dirname(os.path.dirname(os.path.abspath(__file__))), "tables", "head_functions.json")
    try:
        head = set(json.load(open(p))["functions"])
    except FileNotFoundError:
        return set()
    return {n for n, r in facts.fns.items()
            if n not in head and r.get("has_body") and r.get("async") and not r.get("exported") and not r.get("impl_trait")
            and (n + "::{closure#0}") in facts.bodies}


def normalised(facts):
    """The facts with helpers extracted since the rules were written folded back into their callers (the facts
    themselves when there are none)."""
    new = new_private_helpers(facts)
    anew = new_async_helpers(facts)
    if not new and not anew:
        return facts
    v = InlinedFacts(facts, depth=6, max_blocks=400, only=new, async_helpers=anew)
    v.new_helpers = sorted(new | anew)
    return v
