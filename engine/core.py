"""Check runner: obligations, violations, known findings, evidence."""
import importlib, json, os, sys, time, hashlib, traceback

from . import build, facts as factsmod

VERIF = build.VERIF
EVID = os.environ.get("VERIF_EVIDENCE") or os.path.join(VERIF, "evidence")     # (scratch runs of the same property in parallel keep their evidence apart)
KNOWN = os.path.join(VERIF, "known_findings.json")


class Obligation:
    __slots__ = ("rule", "key", "ok", "what", "where", "detail", "cfg", "nontrivial", "noverdict")

    def __init__(self, rule, key, ok, what, where=None, detail=None, cfg=None, nontrivial=True, noverdict=False):
        self.rule = rule
        self.key = key
        self.ok = ok
        self.what = what
        self.where = where
        self.detail = detail
        self.cfg = cfg
        self.nontrivial = nontrivial
        self.noverdict = noverdict      # "this rule cannot read the shape": holds vacuously, and never rescues a failure

    def as_json(self):
        d = {"rule": self.rule, "key": self.key, "verdict": "holds" if self.ok else "VIOLATED",
             "what": self.what}
        if self.where:
            d["where"] = self.where
        if self.detail is not None:
            d["detail"] = self.detail
        if self.cfg:
            d["config"] = self.cfg
        return d


class Ctx:
    """What a property module sees."""

    def __init__(self, prop, tier, seed):
        self.prop = prop
        self.tier = tier
        self.seed = seed
        self.obligations = []
        self.analysed = {"functions": set(), "call_sites": 0, "paths": 0, "adts": set()}
        self.notes = []
        self.cfg = "B"
        self._facts = {}
        self._views = {}
        self.view = None          # None: the program as written; "inlined": private helpers inlined into their callers
        self.rule_docs = {}

    # facts -------------------------------------------------------------
    def facts(self, cfg=None):
        cfg = cfg or self.cfg
        if cfg not in self._facts:
            p = build.build_facts(cfg)
            f = factsmod.load(p)
            if len(f.bodies) < build.MIN_BODIES[cfg]:
                raise build.BuildError("config %s: only %d bodies extracted (floor %d)"
                                       % (cfg, len(f.bodies), build.MIN_BODIES[cfg]))
            self._facts[cfg] = f
        from .inline import InlinedFacts, normalised
        if self.view is None:
            return self._facts[cfg]
        key = (self.view, cfg)
        if key not in self._views:
            if self.view == "norm":
                self._views[key] = normalised(self._facts[cfg])
            else:
                self._views[key] = InlinedFacts(self._facts[cfg])
        return self._views[key]

    def configs(self):
        """Configurations to analyse in this tier."""
        return ["B"] if self.tier == "quick" else ["B", "C", "A"]

    # recording ---------------------------------------------------------
    def rule(self, rule, doc):
        self.rule_docs[rule] = doc

    def ob(self, rule, key, ok, what, where=None, detail=None, nontrivial=True, noverdict=False):
        noverdict = noverdict or ("no verdict" in (what or ""))
        o = Obligation(rule, key, bool(ok), what, where, detail, self.cfg, nontrivial, noverdict)
        self.obligations.append(o)
        return o.ok

    def missing(self, rule, key, what):
        """Fail closed: an anchor the rule needs is gone."""
        return self.ob(rule, key, False, "anchor missing: " + what)

    def floor(self, rule, name, count, minimum):
        """A rule must have matched at least `minimum` instances (counted when armed)."""
        # The floor is there so that a rule which has stopped matching cannot pass vacuously.  Small floors (≤ 8) are exact
        # counts of hand-confirmed sites and stay exact — losing one of three "merges on adjacency" functions is how a seeded
        # change shows.  Large floors count many like instances (30 byte-order conversions, 40 read sites); merging duplicated
        # code into one helper legitimately removes a few, so they alarm below three quarters of the armed count.  An instance
        # that loses the *property* still fails its own obligation — it does not vanish.
        need = minimum if minimum <= 8 else (3 * minimum + 3) // 4
        return self.ob(rule, "floor:" + name, count >= need,
                       "%s: matched %d instance(s), %d when armed, alarm below %d" % (name, count, minimum, need),
                       nontrivial=False)

    def saw_fn(self, *names):
        for n in names:
            self.analysed["functions"].add(n)

    def note(self, s):
        self.notes.append(s)


def load_known():
    try:
        with open(KNOWN) as f:
            return json.load(f)
    except FileNotFoundError:
        return {"findings": [], "fixed": []}


def vkey(prop, o):
    return "%s|%s|%s" % (prop, o.rule, o.key)


# rules that enumerate constructs (one obligation per panic site / loop / allocation): when a helper is folded into its
# callers the same constructs are enumerated there, so "absent in the view" means "judged in the callers".  For any
# other rule an obligation that disappears in a view is NOT thereby established.
SITE_RULES = {"R-PANIC", "R-LOOP", "R-ALLOC"}


def run_property(prop, tier="quick", seed=0, explain=None):
    t0 = time.time()
    os.makedirs(EVID, exist_ok=True)
    os.makedirs(os.path.join(EVID, "violations"), exist_ok=True)
    evfile = os.path.join(EVID, prop + ".json")
    import glob as _glob
    for old in _glob.glob(os.path.join(EVID, "violations", prop + "-*.json")):
        try:
            os.remove(old)
        except OSError:
            pass
    ctx = Ctx(prop, tier, seed)
    mod = importlib.import_module("props." + prop)
    err = None
    try:
        for cfg in ctx.configs():
            only = getattr(mod, "CONFIGS", None)
            if only is not None and cfg not in only and cfg != "B":
                continue
            ctx.cfg = cfg
            if cfg == "A" and not getattr(mod, "RUN_IN_A", False):
                continue
            try:
                mod.run(ctx)
            except build.BuildError:
                raise
            except Exception as e:      # fail closed: an unexpected program shape must not pass silently
                tb = traceback.extract_tb(e.__traceback__)
                where = "%s:%d" % (os.path.basename(tb[-1].filename), tb[-1].lineno) if tb else "?"
                ctx.ob("ENGINE", "analysis-error[%s]" % cfg, False,
                       "the rule engine could not analyse this tree (%s: %s at %s); treated as not established"
                       % (type(e).__name__, str(e)[:200], where), detail=traceback.format_exc()[-1500:])
    except build.BuildError as e:
        print("ERROR property=%s cannot analyse /repo: %s" % (prop, e))
        return 2
    known = load_known()
    known_keys = {k["key"]: k for k in known.get("findings", []) if k.get("property") == prop}
    # Further views.  An obligation that does not hold on the program as written is re-examined on semantics-preserving
    # rewrites of the same MIR: (norm) private helpers that did not exist when the rules were written
    # (tables/head_functions.json) folded into their callers; (inlined) all private helpers folded in.  Extracting or
    # folding a private helper must not change a verdict.  Only failures are ever rescued; nothing is added.
    pending_floor = {}
    for view in ("norm", "inlined"):
        failing = [o for o in ctx.obligations if not o.ok and vkey(prop, o) not in known_keys and o.rule != "ENGINE"]
        if not failing:
            break
        ctx2 = Ctx(prop, tier, seed)
        ctx2.view = view
        ctx2._facts = ctx._facts
        ctx2._views = ctx._views
        try:
            skip = True
            for cfg in sorted({o.cfg for o in failing}):
                ctx2.cfg = cfg
                v = ctx2.facts(cfg)
                if view == "norm" and not getattr(v, "new_helpers", None):
                    continue            # nothing to fold: this view is the program as written
                skip = False
                mod.run(ctx2)
            if skip:
                continue
            second = {}
            for o in ctx2.obligations:
                second.setdefault((o.cfg, o.rule, o.key), []).append(o)
            absorbed = {}
            for (vw, cfg), v in ctx2._views.items():
                if vw == view:
                    absorbed[cfg] = getattr(v, "absorbed", set())
            first_keys = {(o.cfg, o.rule, o.key) for o in ctx.obligations}
            # constructs that exist only in this view: code of an absorbed helper, now seen inside its callers
            moved_bad = {}
            for (cfg, rule, key), alts in second.items():
                if (cfg, rule, key) not in first_keys and any(not a.ok for a in alts):
                    moved_bad.setdefault((cfg, rule), []).append([a for a in alts if not a.ok][0])
            rescued = 0
            if os.environ.get("VERIF_DEBUG_VIEWS"):
                for (cfg_, rule_), lst_ in moved_bad.items():
                    for a_ in lst_[:6]:
                        print("  [view %s only] %s|%s — %s" % (view, rule_, a_.key[:260], a_.what[-160:]))
                for o in failing:
                    alt = second.get((o.cfg, o.rule, o.key))
                    print("  [view %s] %s|%s: %s" % (view, o.rule, o.key[:100], "absent" if alt is None else
                          ("holds" if all(a.ok for a in alt) else "fails: " + json.dumps([a.detail for a in alt if not a.ok], default=str)[:1500])))
            for o in failing:
                alt = second.get((o.cfg, o.rule, o.key))
                if alt and all(a.ok for a in alt) and not any(a.noverdict for a in alt):
                    if o.key.startswith("floor:") and o.rule not in SITE_RULES and moved_bad.get((o.cfg, o.rule)):
                        # the instances that bring the count back up exist only in this view (code of a new helper seen
                        # inside its callers) — then what the rule says about them counts too: a floor is not rescued by
                        # instances that fail their own obligation.  The other view may read the same code better, so the
                        # decision is deferred to the last view: rescued cleanly there, or the failing instances are
                        # reported (those of the last view that saw any).
                        # (an instance whose construct — same rule, same source position — was already judged on the
                        # program as written and holds there is the same instance seen twice, not a new one)
                        held_at = {(x.rule, x.where) for x in ctx.obligations if x.ok and x.where and x.cfg == o.cfg}
                        pend = [a for a in moved_bad[(o.cfg, o.rule)] if not (a.where and (a.rule, a.where) in held_at)
                                and not (a.what or "").startswith("anchor missing")]      # an anchor folded away by the view itself
                        if pend:
                            for a in pend:
                                if "[seen with" not in a.what:
                                    a.what += "  [seen with %s]" % ("newly extracted private helpers folded back" if view == "norm" else "private helpers inlined")
                            pending_floor[(o.cfg, o.rule, o.key)] = pend
                            continue
                    pending_floor.pop((o.cfg, o.rule, o.key), None)
                    o.ok = True
                    o.what += "  [holds with %s]" % ("newly extracted private helpers folded back" if view == "norm" else "private helpers inlined")
                    rescued += 1
                elif alt is None and not o.key.startswith("floor:") and o.rule in SITE_RULES and \
                        any(a in o.key or a.rsplit("::", 2)[-2] + "::" + a.rsplit("::", 1)[-1] in o.key for a in absorbed.get(o.cfg, ()) if "::" in a):
                    # about a construct inside a private helper that is inlined into all its callers: judged there
                    bad = moved_bad.get((o.cfg, o.rule), [])
                    if not bad:
                        o.ok = True
                        o.what += "  [inside a private helper; established in its callers]"
                        rescued += 1
                    else:
                        o.detail = {"in_callers": [b.key[:200] for b in bad[:4]], "own": o.detail}
            if rescued:
                ctx.note("%d obligation(s) established on the view '%s'" % (rescued, view))
        except build.BuildError:
            raise
        except Exception as e:
            ctx.note("view %s failed: %s: %s" % (view, type(e).__name__, str(e)[:200]))
    if pending_floor:
        seen_p = set()
        for (cfg_, rule_, key_), pend in pending_floor.items():
            for o in ctx.obligations:
                if (o.cfg, o.rule, o.key) == (cfg_, rule_, key_) and not o.ok:
                    o.ok = True
                    o.what += "  [count restored by instances seen with private helpers folded into their callers]"
            for a in pend:
                if (a.cfg, a.rule, a.key) not in seen_p:
                    seen_p.add((a.cfg, a.rule, a.key))
                    ctx.obligations.append(a)
    # Last resort: the tree as a whole is function-for-function identical (after the compiler's own normalisation) to
    # the tree the rules were reviewed on — engine/equiv.py.  Then nothing observable changed and a failing pattern
    # match is a false alarm of ours.  Costs a second compiler pass, so only consulted when something fails.
    failing = [o for o in ctx.obligations if not o.ok and vkey(prop, o) not in known_keys]
    if failing:
        try:
            from . import equiv
            for cfg in sorted({o.cfg for o in failing if o.cfg}):
                res = equiv.compare(cfg)
                if res.get("reason"):
                    ctx.note("config %s: equivalence with the reviewed tree not consulted: %s" % (cfg, res["reason"]))
                    continue
                if res.get("equivalent"):
                    n = 0
                    for o in failing:
                        if o.cfg == cfg:
                            o.ok = True
                            o.what += "  [tree is function-for-function identical to the reviewed tree: %d optimised bodies compared]" % res["compared"]
                            n += 1
                    ctx.note("config %s: %d failing obligation(s) discharged by equivalence with the reviewed tree (%d functions, all declarations identical)"
                             % (cfg, n, res["compared"]))
                    print("%s note: config %s: %d obligation(s) fail as written but the tree is function-for-function identical to the "
                          "reviewed tree (%d bodies, all declarations) — discharged" % (prop, cfg, n, res["compared"]))
                else:
                    ctx.note("config %s: not equivalent to the reviewed tree (%d functions differ, %d added, %d removed, %d declarations differ)"
                             % (cfg, len(res.get("changed", ())), len(res.get("added", ())), len(res.get("removed", ())),
                                len(res.get("decl_changed", ())) + len(res.get("decl_added", ())) + len(res.get("decl_removed", ()))))
        except build.BuildError:
            raise
        except Exception as e:
            ctx.note("equivalence check failed: %s: %s" % (type(e).__name__, str(e)[:200]))
    viol = []
    knownhit = []
    seen = set()
    for o in ctx.obligations:
        if o.ok:
            continue
        k = vkey(prop, o)
        if k in seen:
            continue
        seen.add(k)
        if k in known_keys:
            knownhit.append((k, o))
        else:
            viol.append((k, o))
    # summary per rule
    per_rule = {}
    for o in ctx.obligations:
        r = per_rule.setdefault(o.rule, [0, 0])
        r[0] += 1
        r[1] += 1 if o.ok else 0
    for r in sorted(per_rule):
        n, okc = per_rule[r]
        print("%s %-14s %3d/%3d obligations hold  %s" % (prop, r, okc, n, ctx.rule_docs.get(r, "")))
    for k, o in knownhit:
        print("KNOWN-FINDING: property=%s %s %s" % (prop, k, known_keys[k].get("what", o.what)))
    for k, o in viol:
        h = hashlib.sha1(k.encode()).hexdigest()[:12]
        rp = os.path.join(EVID, "violations", "%s-%s.json" % (prop, h))
        with open(rp, "w") as f:
            json.dump({"property": prop, "key": k, "obligation": o.as_json(),
                       "rule_doc": ctx.rule_docs.get(o.rule, ""), "tier": tier}, f, indent=1)
        print("  violated: [%s] %s — %s%s" % (o.rule, o.key, o.what, (" @ " + o.where) if o.where else ""))
        print("VIOLATION property=%s replay=%s" % (prop, rp))
    obl = ctx.obligations
    distinct = len({(o.rule, o.key) for o in obl if o.nontrivial})
    samples = []
    by_rule_seen = set()
    for o in obl:
        if o.rule not in by_rule_seen and o.nontrivial:
            by_rule_seen.add(o.rule)
            samples.append(o.as_json())
    for k, o in viol[:5]:
        samples.append(o.as_json())
    meta = getattr(mod, "META", {})
    ev = {
        "property_id": prop,
        "tier": tier,
        "seed": seed,
        "level": meta.get("level", "other"),
        "coverage": {
            "explanation": meta.get("explanation", ""),
            "obligations": len(obl),
            "discharged": sum(1 for o in obl if o.ok),
            "evaluations": len(obl),
            "distinct_nontrivial": distinct,
            "rule": "one obligation per rule instance (function / call site / ADT / path family) "
                    "found in the compiler's MIR of /repo's working tree; non-trivial = tied to a "
                    "concrete program construct (floors and bookkeeping excluded); distinct by (rule, instance key)",
            "samples": samples[:24],
            "checker_cmd": "./check %s --tier %s" % (prop, tier),
            "trusted_base": meta.get("trusted_base", []) + [
                "rustc nightly MIR construction and callee resolution",
                "/verif/driver fact extractor", "/verif/engine rule engine"],
            "configs_analysed": [c for c in ctx.configs() if c in ctx._facts],
            "functions_analysed": len(ctx.analysed["functions"]),
            "paths_interpreted": ctx.analysed.get("paths", 0),        # rounds / paths walked by the abstract interpreters (R-STEP)
            "functions_sample": sorted(ctx.analysed["functions"])[:40],
            "rules": ctx.rule_docs,
            "per_rule": {r: {"obligations": v[0], "hold": v[1]} for r, v in per_rule.items()},
            "known_findings_hit": [k for k, _ in knownhit],
            "not_decided": meta.get("not_decided", []),
            "notes": ctx.notes,
            "tree_hash": build.tree_hash(),
            "exhaustive": False,
        },
        "assumptions": meta.get("assumptions", []),
        "wall_s": round(time.time() - t0, 2),
        "violations": len(viol),
    }
    if tier == "thorough" and os.environ.get("VERIF_SELFTEST", "1") != "0" and build.REPO == "/repo":
        # sensitivity self-test: the stored breaking changes this check is recorded to report must still be reported when
        # applied to a scratch copy of the tree under analysis (evidence of sensitivity, never part of the verdict)
        try:
            st = selftest(prop)
            ev["coverage"]["selftest"] = st
            print("%s selftest: %d of %d stored breaking changes reported (%d no longer apply to this tree)%s"
                  % (prop, st["reported"], st["applied"], st["skipped"], "" if not st["missed"] else "; NOT reported: " + ", ".join(st["missed"])))
        except Exception as e:          # the self-test must never disturb the verdict
            ev["coverage"]["selftest"] = {"error": "%s: %s" % (type(e).__name__, str(e)[:200])}
    with open(evfile, "w") as f:
        json.dump(ev, f, indent=1)
    print("%s: %d obligations, %d hold, %d known finding(s), %d violation(s); %.1fs"
          % (prop, len(obl), ev["coverage"]["discharged"], len(knownhit), len(viol), time.time() - t0))
    return 1 if viol else 0


def selftest(prop, jobs=8):
    """Apply each stored breaking change that `prop`'s check is recorded to report (seeded/*/meta.json) to a scratch copy
    of the analysed tree (under a fresh mkdtemp directory, removed afterwards) and run the quick check on it."""
    import glob, shutil, subprocess, tempfile
    from concurrent.futures import ThreadPoolExecutor
    todo = []
    for d in sorted(glob.glob(os.path.join(VERIF, "seeded", "C*-*"))):
        try:
            with open(os.path.join(d, "meta.json")) as fh:
                meta = json.load(fh)
        except Exception:
            continue
        if prop in (meta.get("verified", {}).get("caught_by") or {}):
            todo.append((os.path.basename(d), os.path.join(d, "patch.diff")))

    def one(item):
        name, patch = item
        t = tempfile.mkdtemp(prefix="verif-selftest-")
        try:
            for x in ("src", "Cargo.toml", "Cargo.lock"):
                sp = os.path.join(build.REPO, x)
                (shutil.copytree if os.path.isdir(sp) else shutil.copy)(sp, os.path.join(t, x))
            r = subprocess.run(["patch", "-s", "-p1", "-d", t, "-i", patch], capture_output=True, text=True)
            if r.returncode != 0:
                return name, None
            env = dict(os.environ, VERIF_REPO=t, VERIF_EVIDENCE=os.path.join(t, ".verif-evidence"), VERIF_SELFTEST="0",
                       VERIF_BUILD_SLOTS=os.environ.get("VERIF_BUILD_SLOTS", "8"), VERIF_CACHE_KEEP=os.environ.get("VERIF_CACHE_KEEP", "64"))
            r = subprocess.run([os.path.join(VERIF, "check"), prop, "--tier", "quick"], env=env, capture_output=True, text=True)
            return name, r.returncode == 1
        finally:
            shutil.rmtree(t, ignore_errors=True)
    res = {}
    with ThreadPoolExecutor(jobs) as ex:
        for name, ok in ex.map(one, todo):
            res[name] = ok
    applied = [n for n, v in res.items() if v is not None]
    return {"stored": len(todo), "applied": len(applied), "skipped": len(todo) - len(applied),
            "reported": sum(1 for n in applied if res[n]), "missed": sorted(n for n in applied if not res[n])}
