// verif-driver: rustc_private fact extractor for the rpki-rs static checks.
//
// Injected as RUSTC_WORKSPACE_WRAPPER.  For the crate named by VERIF_CRATE
// (default "rpki") it saves a copy of every MIR body at the `mir_promoted`
// stage (by overriding the `mir_borrowck` provider), and after analysis
// writes one JSON line per body / ADT / fn / impl to VERIF_FACTS_OUT.
// Every other crate is compiled untouched.
#![feature(rustc_private)]
#![allow(unused)]

extern crate rustc_abi;
extern crate rustc_data_structures;
extern crate rustc_driver;
extern crate rustc_hir;
extern crate rustc_index;
extern crate rustc_interface;
extern crate rustc_middle;
extern crate rustc_session;
extern crate rustc_span;
extern crate rustc_type_ir;

use std::cell::RefCell;
use std::fmt::Write as _;
use std::sync::OnceLock;

use rustc_driver::Compilation;
use rustc_hir::def::DefKind;
use rustc_hir::def_id::{DefId, LocalDefId};
use rustc_index::IndexVec;
use rustc_middle::mir::{self, *};
use rustc_middle::ty::print::{with_no_trimmed_paths, PrintTraitRefExt};
use rustc_middle::ty::{
    self, GenericArgsRef, Instance, Ty, TyCtxt, TypeFoldable, TypeFolder,
    TypeSuperFoldable, TypingEnv, Unnormalized,
};
use rustc_span::Span;

// ------------------------------------------------------------------ JSON

enum J {
    N,
    B(bool),
    I(i128),
    S(String),
    A(Vec<J>),
    O(Vec<(&'static str, J)>),
}

fn esc(s: &str, out: &mut String) {
    out.push('"');
    for c in s.chars() {
        match c {
            '"' => out.push_str("\\\""),
            '\\' => out.push_str("\\\\"),
            '\n' => out.push_str("\\n"),
            '\r' => out.push_str("\\r"),
            '\t' => out.push_str("\\t"),
            c if (c as u32) < 0x20 => {
                let _ = write!(out, "\\u{:04x}", c as u32);
            }
            c => out.push(c),
        }
    }
    out.push('"');
}

impl J {
    fn s(x: impl Into<String>) -> J {
        J::S(x.into())
    }
    fn w(&self, out: &mut String) {
        match self {
            J::N => out.push_str("null"),
            J::B(b) => out.push_str(if *b { "true" } else { "false" }),
            J::I(i) => {
                let _ = write!(out, "{}", i);
            }
            J::S(s) => esc(s, out),
            J::A(v) => {
                out.push('[');
                for (i, x) in v.iter().enumerate() {
                    if i > 0 {
                        out.push(',');
                    }
                    x.w(out);
                }
                out.push(']');
            }
            J::O(v) => {
                out.push('{');
                for (i, (k, x)) in v.iter().enumerate() {
                    if i > 0 {
                        out.push(',');
                    }
                    esc(k, out);
                    out.push(':');
                    x.w(out);
                }
                out.push('}');
            }
        }
    }
}

// ------------------------------------------------------------------ saved bodies

struct Saved {
    def: LocalDefId,
    body: Body<'static>,
    promoted: IndexVec<Promoted, Body<'static>>,
}

thread_local! {
    static SAVED: RefCell<Vec<Saved>> = RefCell::new(Vec::new());
}

type BorrowckFn = for<'tcx> fn(
    TyCtxt<'tcx>,
    LocalDefId,
) -> rustc_middle::queries::mir_borrowck::ProvidedValue<'tcx>;

static ORIG_BORROWCK: OnceLock<BorrowckFn> = OnceLock::new();

fn save_body<'tcx>(tcx: TyCtxt<'tcx>, def: LocalDefId) {
    let (b, p) = tcx.mir_promoted(def);
    if b.is_stolen() || p.is_stolen() {
        eprintln!("verif-driver: STOLEN {:?}", def);
        return;
    }
    let body: Body<'tcx> = b.borrow().clone();
    let promoted: IndexVec<Promoted, Body<'tcx>> = p.borrow().clone();
    // SAFETY: the saved bodies are only used while `tcx` is alive
    // (in `after_analysis` of the same compilation session).
    let body: Body<'static> = unsafe { std::mem::transmute(body) };
    let promoted: IndexVec<Promoted, Body<'static>> = unsafe { std::mem::transmute(promoted) };
    SAVED.with(|s| s.borrow_mut().push(Saved { def, body, promoted }));
}

fn my_borrowck<'tcx>(
    tcx: TyCtxt<'tcx>,
    def: LocalDefId,
) -> rustc_middle::queries::mir_borrowck::ProvidedValue<'tcx> {
    save_body(tcx, def);
    for nested in tcx.nested_bodies_within(def) {
        save_body(tcx, nested);
    }
    (ORIG_BORROWCK.get().unwrap())(tcx, def)
}

// ------------------------------------------------------------------ dumping

struct Revealer<'tcx> {
    tcx: TyCtxt<'tcx>,
    depth: usize,
}

impl<'tcx> TypeFolder<TyCtxt<'tcx>> for Revealer<'tcx> {
    fn cx(&self) -> TyCtxt<'tcx> {
        self.tcx
    }
    fn fold_ty(&mut self, t: Ty<'tcx>) -> Ty<'tcx> {
        if self.depth > 24 {
            return t;
        }
        if let ty::Alias(at) = t.kind() {
            if let ty::AliasTyKind::Opaque { def_id } = at.kind {
                self.depth += 1;
                let hidden = self.tcx.type_of(def_id).instantiate(self.tcx, at.args).skip_norm_wip();
                let r = self.fold_ty(hidden);
                self.depth -= 1;
                return r;
            }
        }
        t.super_fold_with(self)
    }
}

struct Cx<'a, 'tcx> {
    tcx: TyCtxt<'tcx>,
    def: LocalDefId,
    body: &'a Body<'tcx>,
    env: TypingEnv<'tcx>,
}

fn tystr<'tcx>(t: Ty<'tcx>) -> String {
    with_no_trimmed_paths!(format!("{}", t))
}

fn path<'tcx>(tcx: TyCtxt<'tcx>, d: DefId) -> String {
    with_no_trimmed_paths!(tcx.def_path_str(d))
}

fn has_opaque<'tcx>(t: Ty<'tcx>) -> bool {
    use rustc_middle::ty::TypeVisitableExt;
    t.has_opaque_types()
}

fn span_json<'tcx>(tcx: TyCtxt<'tcx>, sp: Span) -> J {
    // [line, macro-or-null]
    let sm = tcx.sess.source_map();
    let call = sp.source_callsite();
    let lo = sm.lookup_char_pos(call.lo());
    let mut v = vec![J::I(lo.line as i128)];
    if sp.from_expansion() {
        // outermost macro name
        let mut cur = sp;
        let mut name = String::new();
        let mut guard = 0;
        while cur.from_expansion() && guard < 64 {
            let ed = cur.ctxt().outer_expn_data();
            name = format!("{}", ed.kind.descr());
            cur = ed.call_site;
            guard += 1;
        }
        v.push(J::S(name));
    }
    J::A(v)
}

fn file_line<'tcx>(tcx: TyCtxt<'tcx>, sp: Span) -> String {
    let sm = tcx.sess.source_map();
    let call = sp.source_callsite();
    let lo = sm.lookup_char_pos(call.lo());
    format!("{}:{}", lo.file.name.prefer_local_unconditionally(), lo.line)
}

impl<'a, 'tcx> Cx<'a, 'tcx> {
    fn place(&self, p: &Place<'tcx>) -> J {
        let mut proj = Vec::new();
        let mut pty = mir::PlaceTy::from_ty(self.body.local_decls[p.local].ty);
        for elem in p.projection.iter() {
            let e = match elem {
                ProjectionElem::Deref => J::A(vec![J::s("d")]),
                ProjectionElem::Field(f, fty) => {
                    let mut name = format!("{}", f.index());
                    let mut owner = String::new();
                    match pty.ty.kind() {
                        ty::Adt(adt, _) => {
                            let vi = pty.variant_index.unwrap_or(rustc_abi::FIRST_VARIANT);
                            if vi.index() < adt.variants().len() {
                                let v = adt.variant(vi);
                                if f.index() < v.fields.len() {
                                    name = v.fields[f].name.to_string();
                                }
                                owner = path(self.tcx, adt.did());
                                if adt.is_enum() {
                                    owner = format!("{}::{}", owner, v.name);
                                }
                            }
                        }
                        ty::Closure(did, _) | ty::Coroutine(did, _) | ty::CoroutineClosure(did, _) => {
                            owner = format!("{{upvar}}{}", path(self.tcx, *did));
                        }
                        ty::Tuple(_) => owner = "(tuple)".into(),
                        _ => {}
                    }
                    J::A(vec![J::s("f"), J::S(name), J::S(owner), J::S(tystr(fty))])
                }
                ProjectionElem::Index(l) => J::A(vec![J::s("i"), J::I(l.index() as i128)]),
                ProjectionElem::ConstantIndex { offset, min_length, from_end } => J::A(vec![
                    J::s("ci"),
                    J::I(offset as i128),
                    J::I(min_length as i128),
                    J::B(from_end),
                ]),
                ProjectionElem::Subslice { from, to, from_end } => {
                    J::A(vec![J::s("ss"), J::I(from as i128), J::I(to as i128), J::B(from_end)])
                }
                ProjectionElem::Downcast(name, vi) => J::A(vec![
                    J::s("dc"),
                    J::S(name.map(|s| s.to_string()).unwrap_or_default()),
                    J::I(vi.index() as i128),
                ]),
                ProjectionElem::OpaqueCast(_) => J::A(vec![J::s("oc")]),
                ProjectionElem::UnwrapUnsafeBinder(_) => J::A(vec![J::s("ub")]),
            };
            proj.push(e);
            pty = pty.projection_ty(self.tcx, elem);
        }
        J::O(vec![("l", J::I(p.local.index() as i128)), ("p", J::A(proj))])
    }

    fn fn_ref(&self, did: DefId, args: GenericArgsRef<'tcx>) -> Vec<(&'static str, J)> {
        let tcx = self.tcx;
        let mut o: Vec<(&'static str, J)> = Vec::new();
        o.push(("fn", J::S(path(tcx, did))));
        o.push(("krate", J::S(tcx.crate_name(did.krate).to_string())));
        let mut ga = Vec::new();
        let mut rv = Revealer { tcx, depth: 0 };
        for a in args.iter() {
            if let Some(t) = a.as_type() {
                let t2 = if has_opaque(t) { rv.fold_ty(t) } else { t };
                ga.push(J::S(tystr(t2)));
            } else if let Some(c) = a.as_const() {
                ga.push(J::S(format!("{}", c)));
            }
        }
        o.push(("ga", J::A(ga)));
        if let Some(assoc) = tcx.opt_associated_item(did) {
            o.push(("name", J::S(assoc.name().to_string())));
            if let Some(tr) = tcx.trait_of_assoc(did) {
                o.push(("trait", J::S(path(tcx, tr))));
            }
        } else if matches!(tcx.def_kind(did), DefKind::Fn) {
            o.push(("name", J::S(tcx.item_name(did).to_string())));
        }
        // resolution
        let revealed_args = {
            let mut rv = Revealer { tcx, depth: 0 };
            args.fold_with(&mut rv)
        };
        let norm = tcx
            .try_normalize_erasing_regions(self.env, Unnormalized::new_wip(revealed_args))
            .unwrap_or(revealed_args);
        if let Ok(Some(inst)) = Instance::try_resolve(tcx, self.env, did, norm) {
            let rd = inst.def_id();
            if rd != did {
                o.push(("res", J::S(path(tcx, rd))));
                o.push(("res_krate", J::S(tcx.crate_name(rd.krate).to_string())));
            }
            match inst.def {
                ty::InstanceKind::Item(_) => {}
                ref other => {
                    let s = format!("{:?}", other);
                    let kind = s.split('(').next().unwrap_or("").to_string();
                    o.push(("res_kind", J::S(kind)));
                }
            }
        }
        o
    }

    fn bytes_json(&self, b: &[u8]) -> J {
        if b.len() > 4096 {
            return J::N;
        }
        J::A(b.iter().map(|x| J::I(*x as i128)).collect())
    }

    /// Exact rendering of an allocation (bytes, and what every pointer in it points to).
    fn alloc_render(&self, id: rustc_middle::mir::interpret::AllocId, depth: usize, out: &mut String) {
        use rustc_middle::mir::interpret::GlobalAlloc;
        let tcx = self.tcx;
        if depth > 12 {
            out.push_str("<deep>");
            return;
        }
        match tcx.try_get_global_alloc(id) {
            Some(GlobalAlloc::Memory(a)) => {
                let a = a.inner();
                let n = a.size().bytes() as usize;
                let b = a.inspect_with_uninit_and_ptr_outside_interpreter(0..n);
                out.push_str("mem[");
                for x in b {
                    let _ = write!(out, "{:02x}", x);
                }
                out.push(']');
                for (off, prov) in a.provenance().ptrs().iter() {
                    let _ = write!(out, "@{}->", off.bytes());
                    self.alloc_render(prov.alloc_id(), depth + 1, out);
                }
            }
            Some(GlobalAlloc::Function { instance }) => {
                let _ = write!(out, "fn<{}>", with_no_trimmed_paths!(format!("{}", instance)));
            }
            Some(GlobalAlloc::Static(d)) => {
                let _ = write!(out, "static<{}>", path(tcx, d));
            }
            Some(other) => {
                let _ = write!(out, "other<{}>", with_no_trimmed_paths!(format!("{:?}", other)));
            }
            None => out.push_str("<dangling>"),
        }
    }

    /// Exact value of a constant operand, for the optimised-MIR fingerprints (no truncation, no allocation ids).
    fn konst_exact(&self, c: &ConstOperand<'tcx>) -> String {
        use rustc_middle::mir::interpret::Scalar;
        let tcx = self.tcx;
        let mut s = String::new();
        match c.const_.eval(tcx, self.env, c.span) {
            Ok(ConstValue::Scalar(Scalar::Int(i))) => {
                let _ = write!(s, "int:{:?}", i);
            }
            Ok(ConstValue::Scalar(Scalar::Ptr(ptr, _))) => {
                let (prov, off) = ptr.prov_and_relative_offset();
                let _ = write!(s, "ptr+{}:", off.bytes());
                self.alloc_render(prov.alloc_id(), 0, &mut s);
            }
            Ok(ConstValue::ZeroSized) => s.push_str("zst"),
            Ok(ConstValue::Slice { alloc_id, meta }) => {
                let _ = write!(s, "slice[{}]:", meta);
                self.alloc_render(alloc_id, 0, &mut s);
            }
            Ok(ConstValue::Indirect { alloc_id, offset }) => {
                let _ = write!(s, "ind+{}:", offset.bytes());
                self.alloc_render(alloc_id, 0, &mut s);
            }
            Err(_) => {
                // generic: cannot be evaluated here; name it
                match c.const_ {
                    Const::Unevaluated(uv, _) => {
                        let _ = write!(s, "uneval:{}:{:?}:{:?}", path(tcx, uv.def), uv.args, uv.promoted);
                    }
                    other => {
                        let _ = write!(s, "sym:{}", with_no_trimmed_paths!(format!("{}", other)));
                    }
                }
            }
        }
        if s.len() > 96 {
            use std::hash::{Hash, Hasher};
            let mut h = std::collections::hash_map::DefaultHasher::new();
            s.hash(&mut h);
            let mut h2 = std::collections::hash_map::DefaultHasher::new();
            (s.len(), &s, 0x9e37u32).hash(&mut h2);
            format!("h:{:016x}{:016x}:{}", h.finish(), h2.finish(), s.len())
        } else {
            s
        }
    }

    fn konst(&self, c: &ConstOperand<'tcx>) -> J {
        let tcx = self.tcx;
        let ty = c.const_.ty();
        let mut o: Vec<(&'static str, J)> = Vec::new();
        o.push(("ty", J::S(tystr(ty))));
        if OMIR_MODE.load(std::sync::atomic::Ordering::Relaxed) {
            if let ty::FnDef(did, args) = ty.kind() {
                o.extend(self.fn_ref(*did, args));
                return J::O(vec![("k", J::O(o))]);
            }
            if let Const::Unevaluated(uv, _) = c.const_ {
                if let Some(p) = uv.promoted {
                    o.push(("promoted", J::I(p.index() as i128)));
                    return J::O(vec![("k", J::O(o))]);
                }
            }
            o.push(("cv", J::S(self.konst_exact(c))));
            return J::O(vec![("k", J::O(o))]);
        }
        if let ty::FnDef(did, args) = ty.kind() {
            o.extend(self.fn_ref(*did, args));
            return J::O(vec![("k", J::O(o))]);
        }
        if let Const::Unevaluated(uv, _) = c.const_ {
            if let Some(p) = uv.promoted {
                o.push(("promoted", J::I(p.index() as i128)));
                return J::O(vec![("k", J::O(o))]);
            }
            o.push(("cdef", J::S(path(tcx, uv.def))));
        }
        let inner = ty.peel_refs();
        if ty.is_integral() || ty.is_bool() || ty.is_char() {
            if let Some(si) = c.const_.try_eval_scalar_int(tcx, self.env) {
                let size = si.size();
                let v: i128 = if ty.is_signed() {
                    si.to_int(size)
                } else {
                    let u = si.to_uint(size);
                    if u > i128::MAX as u128 { -1 } else { u as i128 }
                };
                o.push(("v", J::I(v)));
                if ty.is_integral() && !ty.is_signed() && si.to_uint(size) > i128::MAX as u128 {
                    o.push(("vs", J::S(format!("{}", si.to_uint(size)))));
                }
            }
        } else if ty.is_ref() && (inner.is_str() || matches!(inner.kind(), ty::Slice(e) if *e == tcx.types.u8)) {
            if let Ok(val) = c.const_.eval(tcx, self.env, c.span) {
                match val {
                    ConstValue::Slice { .. } | ConstValue::Indirect { .. } => {
                        if let Some(b) = val.try_get_slice_bytes_for_diagnostics(tcx) {
                            o.push(("bytes", self.bytes_json(b)));
                        }
                    }
                    _ => {}
                }
            }
        } else if ty.is_ref() && matches!(inner.kind(), ty::Array(e, _) if *e == tcx.types.u8) {
            if let Ok(ConstValue::Scalar(rustc_middle::mir::interpret::Scalar::Ptr(ptr, _))) =
                c.const_.eval(tcx, self.env, c.span)
            {
                let (prov, off) = ptr.prov_and_relative_offset();
                if let rustc_middle::mir::interpret::GlobalAlloc::Memory(a) =
                    tcx.global_alloc(prov.alloc_id())
                {
                    let a = a.inner();
                    let start = off.bytes() as usize;
                    let end = a.size().bytes() as usize;
                    if start <= end {
                        let b = a.inspect_with_uninit_and_ptr_outside_interpreter(start..end);
                        o.push(("bytes", self.bytes_json(b)));
                    }
                }
            }
        } else {
            let mut s = with_no_trimmed_paths!(format!("{}", c.const_));
            if s.len() > 200 {
                s.truncate(200);
            }
            o.push(("dbg", J::S(s)));
        }
        J::O(vec![("k", J::O(o))])
    }

    fn operand(&self, op: &Operand<'tcx>) -> J {
        match op {
            Operand::Copy(p) => J::O(vec![("c", self.place(p))]),
            Operand::Move(p) => J::O(vec![("m", self.place(p))]),
            Operand::Constant(c) => self.konst(c),
            Operand::RuntimeChecks(rc) => J::O(vec![("rc", J::S(format!("{:?}", rc)))]),
        }
    }

    fn rvalue(&self, rv: &Rvalue<'tcx>) -> J {
        let tcx = self.tcx;
        match rv {
            Rvalue::Use(op, _) => J::O(vec![("r", J::s("use")), ("op", self.operand(op))]),
            Rvalue::Repeat(op, n) => J::O(vec![
                ("r", J::s("repeat")),
                ("op", self.operand(op)),
                ("n", J::S(format!("{}", n))),
            ]),
            Rvalue::Ref(_, bk, p) => J::O(vec![
                ("r", J::s("ref")),
                ("mut", J::B(matches!(bk, BorrowKind::Mut { .. }))),
                ("fake", J::B(matches!(bk, BorrowKind::Fake(_)))),
                ("pl", self.place(p)),
            ]),
            Rvalue::ThreadLocalRef(d) => J::O(vec![("r", J::s("tls")), ("def", J::S(path(tcx, *d)))]),
            Rvalue::RawPtr(k, p) => J::O(vec![
                ("r", J::s("rawptr")),
                ("kind", J::S(format!("{:?}", k))),
                ("pl", self.place(p)),
            ]),
            Rvalue::Cast(k, op, t) => J::O(vec![
                ("r", J::s("cast")),
                ("ck", J::S(format!("{:?}", k).split('(').next().unwrap_or("").to_string())),
                ("op", self.operand(op)),
                ("from", J::S(tystr(op.ty(&self.body.local_decls, tcx)))),
                ("ty", J::S(tystr(*t))),
            ]),
            Rvalue::BinaryOp(op, ab) => J::O(vec![
                ("r", J::s("bin")),
                ("bop", J::S(format!("{:?}", op))),
                ("a", self.operand(&ab.0)),
                ("b", self.operand(&ab.1)),
                ("oty", J::S(tystr(ab.0.ty(&self.body.local_decls, tcx)))),
            ]),
            Rvalue::UnaryOp(op, a) => J::O(vec![
                ("r", J::s("un")),
                ("uop", J::S(format!("{:?}", op))),
                ("a", self.operand(a)),
                ("oty", J::S(tystr(a.ty(&self.body.local_decls, tcx)))),
            ]),
            Rvalue::Discriminant(p) => J::O(vec![("r", J::s("discr")), ("pl", self.place(p))]),
            Rvalue::Aggregate(kind, ops) => {
                let mut o: Vec<(&'static str, J)> = vec![("r", J::s("agg"))];
                match &**kind {
                    AggregateKind::Array(t) => {
                        o.push(("ak", J::s("array")));
                        o.push(("ety", J::S(tystr(*t))));
                    }
                    AggregateKind::Tuple => o.push(("ak", J::s("tuple"))),
                    AggregateKind::Adt(did, vi, args, _, active) => {
                        o.push(("ak", J::s("adt")));
                        let adt = tcx.adt_def(*did);
                        o.push(("adt", J::S(path(tcx, *did))));
                        let v = adt.variant(*vi);
                        o.push(("variant", J::S(v.name.to_string())));
                        o.push(("vidx", J::I(vi.index() as i128)));
                        o.push((
                            "fields",
                            J::A(v.fields.iter().map(|f| J::S(f.name.to_string())).collect()),
                        ));
                        o.push((
                            "ga",
                            J::A(args.iter().filter_map(|a| a.as_type()).map(|t| J::S(tystr(t))).collect()),
                        ));
                        if let Some(a) = active {
                            o.push(("active", J::I(a.index() as i128)));
                        }
                    }
                    AggregateKind::Closure(did, _) => {
                        o.push(("ak", J::s("closure")));
                        o.push(("def", J::S(path(tcx, *did))));
                    }
                    AggregateKind::Coroutine(did, _) => {
                        o.push(("ak", J::s("coroutine")));
                        o.push(("def", J::S(path(tcx, *did))));
                    }
                    AggregateKind::CoroutineClosure(did, _) => {
                        o.push(("ak", J::s("coroutine_closure")));
                        o.push(("def", J::S(path(tcx, *did))));
                    }
                    AggregateKind::RawPtr(t, _) => {
                        o.push(("ak", J::s("rawptr")));
                        o.push(("ety", J::S(tystr(*t))));
                    }
                }
                o.push(("ops", J::A(ops.iter().map(|x| self.operand(x)).collect())));
                J::O(o)
            }
            Rvalue::CopyForDeref(p) => J::O(vec![
                ("r", J::s("use")),
                ("op", J::O(vec![("c", self.place(p))])),
            ]),
            Rvalue::WrapUnsafeBinder(op, _) => J::O(vec![("r", J::s("use")), ("op", self.operand(op))]),
        }
    }

    fn stmt(&self, s: &Statement<'tcx>) -> Option<J> {
        match &s.kind {
            StatementKind::Assign(b) => {
                let (pl, rv) = &**b;
                Some(J::O(vec![
                    ("s", J::s("assign")),
                    ("pl", self.place(pl)),
                    ("rv", self.rvalue(rv)),
                    ("sp", span_json(self.tcx, s.source_info.span)),
                ]))
            }
            StatementKind::SetDiscriminant { place, variant_index } => Some(J::O(vec![
                ("s", J::s("setdiscr")),
                ("pl", self.place(place)),
                ("vidx", J::I(variant_index.index() as i128)),
            ])),
            StatementKind::Intrinsic(i) => Some(J::O(vec![
                ("s", J::s("intrinsic")),
                ("dbg", J::S(format!("{:?}", i).chars().take(120).collect::<String>())),
            ])),
            _ => None,
        }
    }

    fn resolve_target(&self, mut bb: BasicBlock) -> BasicBlock {
        bb
    }

    fn term(&self, t: &Terminator<'tcx>) -> J {
        let tcx = self.tcx;
        let sp = ("sp", span_json(tcx, t.source_info.span));
        let unwind_json = |u: &UnwindAction| match u {
            UnwindAction::Cleanup(b) => J::I(b.index() as i128),
            _ => J::N,
        };
        match &t.kind {
            TerminatorKind::Goto { target } => {
                J::O(vec![("t", J::s("goto")), ("target", J::I(target.index() as i128))])
            }
            TerminatorKind::SwitchInt { discr, targets } => {
                let mut tv = Vec::new();
                for (v, b) in targets.iter() {
                    let vv = if v > i128::MAX as u128 { J::S(format!("{}", v)) } else { J::I(v as i128) };
                    tv.push(J::A(vec![vv, J::I(b.index() as i128)]));
                }
                J::O(vec![
                    ("t", J::s("switch")),
                    ("discr", self.operand(discr)),
                    ("dty", J::S(tystr(discr.ty(&self.body.local_decls, tcx)))),
                    ("targets", J::A(tv)),
                    ("otherwise", J::I(targets.otherwise().index() as i128)),
                    sp,
                ])
            }
            TerminatorKind::UnwindResume => J::O(vec![("t", J::s("resume"))]),
            TerminatorKind::UnwindTerminate(_) => J::O(vec![("t", J::s("terminate"))]),
            TerminatorKind::Return => J::O(vec![("t", J::s("return")), sp]),
            TerminatorKind::Unreachable => J::O(vec![("t", J::s("unreachable"))]),
            TerminatorKind::Drop { place, target, unwind, .. } => J::O(vec![
                ("t", J::s("drop")),
                ("pl", self.place(place)),
                ("target", J::I(target.index() as i128)),
                ("unwind", unwind_json(unwind)),
            ]),
            TerminatorKind::Call { func, args, destination, target, unwind, call_source, fn_span } => {
                let mut o: Vec<(&'static str, J)> = vec![("t", J::s("call"))];
                o.push(("func", self.operand(func)));
                o.push(("args", J::A(args.iter().map(|a| self.operand(&a.node)).collect())));
                o.push(("dest", self.place(destination)));
                o.push(("target", target.map(|b| J::I(b.index() as i128)).unwrap_or(J::N)));
                o.push(("unwind", unwind_json(unwind)));
                o.push(("src", J::S(format!("{:?}", call_source))));
                o.push(sp);
                J::O(o)
            }
            TerminatorKind::TailCall { func, args, .. } => J::O(vec![
                ("t", J::s("tailcall")),
                ("func", self.operand(func)),
                ("args", J::A(args.iter().map(|a| self.operand(&a.node)).collect())),
                sp,
            ]),
            TerminatorKind::Assert { cond, expected, msg, target, unwind } => {
                let (kind, ops): (String, Vec<J>) = match &**msg {
                    AssertKind::BoundsCheck { len, index } => {
                        ("BoundsCheck".into(), vec![self.operand(len), self.operand(index)])
                    }
                    AssertKind::Overflow(op, a, b) => {
                        (format!("Overflow:{:?}", op), vec![self.operand(a), self.operand(b)])
                    }
                    AssertKind::OverflowNeg(a) => ("OverflowNeg".into(), vec![self.operand(a)]),
                    AssertKind::DivisionByZero(a) => ("DivisionByZero".into(), vec![self.operand(a)]),
                    AssertKind::RemainderByZero(a) => ("RemainderByZero".into(), vec![self.operand(a)]),
                    AssertKind::ResumedAfterReturn(_) => ("ResumedAfterReturn".into(), vec![]),
                    AssertKind::ResumedAfterPanic(_) => ("ResumedAfterPanic".into(), vec![]),
                    AssertKind::ResumedAfterDrop(_) => ("ResumedAfterDrop".into(), vec![]),
                    AssertKind::MisalignedPointerDereference { .. } => ("Misaligned".into(), vec![]),
                    AssertKind::NullPointerDereference => ("NullPtr".into(), vec![]),
                    AssertKind::InvalidEnumConstruction(_) => ("InvalidEnum".into(), vec![]),
                };
                J::O(vec![
                    ("t", J::s("assert")),
                    ("cond", self.operand(cond)),
                    ("expected", J::B(*expected)),
                    ("kind", J::S(kind)),
                    ("ops", J::A(ops)),
                    ("target", J::I(target.index() as i128)),
                    ("unwind", unwind_json(unwind)),
                    sp,
                ])
            }
            TerminatorKind::Yield { value, resume, resume_arg, drop } => J::O(vec![
                ("t", J::s("yield")),
                ("value", self.operand(value)),
                ("target", J::I(resume.index() as i128)),
                ("resume_arg", self.place(resume_arg)),
                ("drop", drop.map(|b| J::I(b.index() as i128)).unwrap_or(J::N)),
                sp,
            ]),
            TerminatorKind::CoroutineDrop => J::O(vec![("t", J::s("coroutine_drop"))]),
            TerminatorKind::FalseEdge { real_target, .. } => {
                J::O(vec![("t", J::s("goto")), ("target", J::I(real_target.index() as i128)), ("false", J::B(true))])
            }
            TerminatorKind::FalseUnwind { real_target, .. } => {
                J::O(vec![("t", J::s("goto")), ("target", J::I(real_target.index() as i128)), ("false", J::B(true))])
            }
            TerminatorKind::InlineAsm { .. } => J::O(vec![("t", J::s("asm"))]),
        }
    }

    fn body_json(&self, promoted: Option<&IndexVec<Promoted, Body<'tcx>>>) -> Vec<(&'static str, J)> {
        let tcx = self.tcx;
        let body = self.body;
        let mut o: Vec<(&'static str, J)> = Vec::new();
        o.push(("arg_count", J::I(body.arg_count as i128)));
        // locals
        let mut names: Vec<Option<String>> = vec![None; body.local_decls.len()];
        let mut upvar_names: Vec<J> = Vec::new();
        for vdi in body.var_debug_info.iter() {
            if let VarDebugInfoContents::Place(p) = &vdi.value {
                if p.projection.is_empty() {
                    names[p.local.index()] = Some(vdi.name.to_string());
                } else {
                    upvar_names.push(J::A(vec![J::S(vdi.name.to_string()), self.place(p)]));
                }
            }
        }
        let mut locals = Vec::new();
        for (l, d) in body.local_decls.iter_enumerated() {
            let mut lo: Vec<(&'static str, J)> = vec![("ty", J::S(tystr(d.ty)))];
            if let Some(n) = &names[l.index()] {
                lo.push(("name", J::S(n.clone())));
            }
            if matches!(d.local_info, ClearCrossCrate::Set(_)) && d.is_user_variable() {
                lo.push(("user", J::B(true)));
            }
            locals.push(J::O(lo));
        }
        o.push(("locals", J::A(locals)));
        o.push(("upvars", J::A(upvar_names)));
        let mut blocks = Vec::new();
        for (bb, data) in body.basic_blocks.iter_enumerated() {
            let stmts: Vec<J> = data.statements.iter().filter_map(|s| self.stmt(s)).collect();
            let mut bo: Vec<(&'static str, J)> = vec![("stmts", J::A(stmts))];
            if data.is_cleanup {
                bo.push(("cleanup", J::B(true)));
            }
            bo.push(("term", self.term(data.terminator())));
            blocks.push(J::O(bo));
        }
        o.push(("blocks", J::A(blocks)));
        if let Some(pr) = promoted {
            let mut pv = Vec::new();
            for pb in pr.iter() {
                let cx = Cx { tcx, def: self.def, body: pb, env: self.env };
                pv.push(J::O(cx.body_json(None)));
            }
            o.push(("promoted", J::A(pv)));
        }
        o
    }
}

fn vis_str<'tcx>(tcx: TyCtxt<'tcx>, d: DefId) -> String {
    match tcx.visibility(d) {
        ty::Visibility::Public => "pub".to_string(),
        ty::Visibility::Restricted(m) => {
            if m.is_top_level_module() {
                "crate".to_string()
            } else {
                format!("in:{}", path(tcx, m))
            }
        }
    }
}

fn parent_info<'tcx>(tcx: TyCtxt<'tcx>, d: DefId, o: &mut Vec<(&'static str, J)>) {
    // walk up through closures to the enclosing fn
    let mut root = d;
    while matches!(tcx.def_kind(root), DefKind::Closure | DefKind::InlineConst | DefKind::SyntheticCoroutineBody) {
        root = tcx.parent(root);
    }
    if root != d {
        o.push(("root", J::S(path(tcx, root))));
    }
    if matches!(tcx.def_kind(root), DefKind::AssocFn | DefKind::AssocConst { .. }) {
        let p = tcx.parent(root);
        match tcx.def_kind(p) {
            DefKind::Impl { of_trait } => {
                let self_ty = tcx.type_of(p).instantiate_identity().skip_norm_wip();
                o.push(("impl_self", J::S(tystr(self_ty))));
                if let ty::Adt(adt, _) = self_ty.kind() {
                    o.push(("impl_adt", J::S(path(tcx, adt.did()))));
                }
                if of_trait {
                    let tr = tcx.impl_trait_ref(p).instantiate_identity().skip_norm_wip();
                    o.push(("impl_trait", J::S(path(tcx, tr.def_id))));
                    o.push(("impl_trait_full", J::S(with_no_trimmed_paths!(format!("{}", tr.print_only_trait_path())))));
                }
                o.push(("impl_def", J::S(path(tcx, p))));
            }
            DefKind::Trait => {
                o.push(("in_trait", J::S(path(tcx, p))));
            }
            _ => {}
        }
    }
}

fn dump_all<'tcx>(tcx: TyCtxt<'tcx>, out_path: &str) {
    let mut out = String::new();
    let saved: Vec<Saved> = SAVED.with(|s| std::mem::take(&mut *s.borrow_mut()));
    let mut nbodies = 0usize;
    let mut ncoro = 0usize;
    let mut seen = std::collections::HashSet::new();
    for s in saved.iter() {
        if !seen.insert(s.def) {
            continue;
        }
        // SAFETY: see save_body.
        let body: &Body<'tcx> = unsafe { std::mem::transmute(&s.body) };
        let promoted: &IndexVec<Promoted, Body<'tcx>> = unsafe { std::mem::transmute(&s.promoted) };
        let did = s.def.to_def_id();
        let kind = tcx.def_kind(did);
        let mut o: Vec<(&'static str, J)> = Vec::new();
        o.push(("rec", J::s("body")));
        o.push(("def", J::S(path(tcx, did))));
        o.push(("kind", J::S(format!("{:?}", kind))));
        o.push(("loc", J::S(file_line(tcx, body.span))));
        if matches!(kind, DefKind::Fn | DefKind::AssocFn) {
            o.push(("vis", J::S(vis_str(tcx, did))));
        }
        let is_coro = body.coroutine.is_some();
        if is_coro {
            ncoro += 1;
            o.push(("coroutine", J::B(true)));
        }
        parent_info(tcx, did, &mut o);
        o.push(("ret", J::S(tystr(body.local_decls[RETURN_PLACE].ty))));
        let env = TypingEnv::post_analysis(tcx, did);
        let cx = Cx { tcx, def: s.def, body, env };
        o.extend(cx.body_json(Some(promoted)));
        J::O(o).w(&mut out);
        out.push('\n');
        nbodies += 1;
    }

    // fn signatures, ADTs, impls
    let mut nfn = 0usize;
    let mut nadt = 0usize;
    let mut nimpl = 0usize;
    for ldid in tcx.hir_crate_items(()).definitions() {
        let did = ldid.to_def_id();
        let kind = tcx.def_kind(did);
        match kind {
            DefKind::Fn | DefKind::AssocFn => {
                let mut o: Vec<(&'static str, J)> = Vec::new();
                o.push(("rec", J::s("fn")));
                o.push(("def", J::S(path(tcx, did))));
                o.push(("kind", J::S(format!("{:?}", kind))));
                o.push(("vis", J::S(vis_str(tcx, did))));
                o.push(("loc", J::S(file_line(tcx, tcx.def_span(did)))));
                o.push(("name", J::S(tcx.item_name(did).to_string())));
                let sig = tcx.fn_sig(did).instantiate_identity().skip_norm_wip().skip_binder();
                o.push(("inputs", J::A(sig.inputs().iter().map(|t| J::S(tystr(*t))).collect())));
                o.push(("output", J::S(tystr(sig.output()))));
                o.push(("unsafe", J::B(!sig.safety().is_safe())));
                o.push(("async", J::B(tcx.asyncness(did).is_async())));
                o.push(("has_body", J::B(tcx.is_mir_available(did) || ldid_has_body(tcx, ldid))));
                parent_info(tcx, did, &mut o);
                // effective visibility (reachable from outside the crate)
                let ev = tcx.effective_visibilities(());
                o.push(("exported", J::B(ev.is_exported(ldid))));
                o.push(("reachable", J::B(ev.is_reachable(ldid))));
                J::O(o).w(&mut out);
                out.push('\n');
                nfn += 1;
            }
            DefKind::Struct | DefKind::Enum | DefKind::Union => {
                let adt = tcx.adt_def(did);
                let mut o: Vec<(&'static str, J)> = Vec::new();
                o.push(("rec", J::s("adt")));
                o.push(("def", J::S(path(tcx, did))));
                o.push(("kind", J::S(format!("{:?}", kind))));
                o.push(("vis", J::S(vis_str(tcx, did))));
                o.push(("loc", J::S(file_line(tcx, tcx.def_span(did)))));
                o.push(("repr", J::S(format!("{:?}", adt.repr()))));
                let ev = tcx.effective_visibilities(());
                o.push(("exported", J::B(ev.is_exported(ldid))));
                let mut vs = Vec::new();
                for v in adt.variants().iter() {
                    let mut fs = Vec::new();
                    for f in v.fields.iter() {
                        let fty = tcx.type_of(f.did).instantiate_identity().skip_norm_wip();
                        fs.push(J::O(vec![
                            ("name", J::S(f.name.to_string())),
                            ("ty", J::S(tystr(fty))),
                            ("vis", J::S(match f.vis {
                                ty::Visibility::Public => "pub".to_string(),
                                ty::Visibility::Restricted(m) => {
                                    if m.is_crate_root() { "crate".to_string() } else { format!("in:{}", path(tcx, m)) }
                                }
                            })),
                        ]));
                    }
                    vs.push(J::O(vec![("name", J::S(v.name.to_string())), ("fields", J::A(fs))]));
                }
                o.push(("variants", J::A(vs)));
                // layout size for non-generic ADTs
                let generics = tcx.generics_of(did);
                if generics.count() == 0 {
                    let t = tcx.type_of(did).instantiate_identity().skip_norm_wip();
                    let env = TypingEnv::fully_monomorphized();
                    if let Ok(l) = tcx.layout_of(env.as_query_input(t)) {
                        o.push(("size", J::I(l.size.bytes() as i128)));
                        o.push(("align", J::I(l.align.abi.bytes() as i128)));
                    }
                }
                J::O(o).w(&mut out);
                out.push('\n');
                nadt += 1;
            }
            DefKind::Impl { of_trait } => {
                let mut o: Vec<(&'static str, J)> = Vec::new();
                o.push(("rec", J::s("impl")));
                o.push(("def", J::S(path(tcx, did))));
                o.push(("loc", J::S(file_line(tcx, tcx.def_span(did)))));
                let self_ty = tcx.type_of(did).instantiate_identity().skip_norm_wip();
                o.push(("self", J::S(tystr(self_ty))));
                if let ty::Adt(adt, _) = self_ty.kind() {
                    o.push(("adt", J::S(path(tcx, adt.did()))));
                }
                if of_trait {
                    let tr = tcx.impl_trait_ref(did).instantiate_identity().skip_norm_wip();
                    o.push(("trait", J::S(path(tcx, tr.def_id))));
                    o.push(("trait_full", J::S(with_no_trimmed_paths!(format!("{}", tr.print_only_trait_path())))));
                }
                o.push(("derived", J::B(tcx.is_automatically_derived(did))));
                let items: Vec<J> = tcx
                    .associated_item_def_ids(did)
                    .iter()
                    .map(|d| J::S(path(tcx, *d)))
                    .collect();
                o.push(("items", J::A(items)));
                J::O(o).w(&mut out);
                out.push('\n');
                nimpl += 1;
            }
            DefKind::Const { .. } | DefKind::AssocConst { .. } => {
                // value of integer constants
                let mut o: Vec<(&'static str, J)> = Vec::new();
                o.push(("rec", J::s("const")));
                o.push(("def", J::S(path(tcx, did))));
                let t = tcx.type_of(did).instantiate_identity().skip_norm_wip();
                o.push(("ty", J::S(tystr(t))));
                if tcx.generics_of(did).count() == 0 && (t.is_integral() || t.is_bool()) {
                    if let DefKind::AssocConst { .. } = kind {
                        // trait-declared consts without default have no value
                        if matches!(tcx.def_kind(tcx.parent(did)), DefKind::Trait) {
                            J::O(o).w(&mut out);
                            out.push('\n');
                            continue;
                        }
                    }
                    if let Ok(v) = tcx.const_eval_poly(did) {
                        if let Some(si) = v.try_to_scalar_int() {
                            let size = si.size();
                            let val: i128 = if t.is_signed() { si.to_int(size) } else {
                                let u = si.to_uint(size); if u > i128::MAX as u128 { -1 } else { u as i128 } };
                            o.push(("v", J::I(val)));
                        }
                    }
                }
                J::O(o).w(&mut out);
                out.push('\n');
            }
            _ => {}
        }
    }
    let mut o: Vec<(&'static str, J)> = Vec::new();
    o.push(("rec", J::s("meta")));
    o.push(("crate", J::S(tcx.crate_name(rustc_hir::def_id::LOCAL_CRATE).to_string())));
    o.push(("bodies", J::I(nbodies as i128)));
    o.push(("coroutines", J::I(ncoro as i128)));
    o.push(("fns", J::I(nfn as i128)));
    o.push(("adts", J::I(nadt as i128)));
    o.push(("impls", J::I(nimpl as i128)));
    let mut feats: Vec<J> = Vec::new();
    for (k, v) in tcx.sess.config.iter() {
        if k.as_str() == "feature" {
            if let Some(v) = v {
                feats.push(J::S(v.to_string()));
            }
        }
    }
    o.push(("features", J::A(feats)));
    J::O(o).w(&mut out);
    out.push('\n');
    std::fs::write(out_path, out).expect("verif-driver: cannot write facts");
    eprintln!(
        "verif-driver: wrote {} bodies ({} coroutines), {} fns, {} adts, {} impls to {}",
        nbodies, ncoro, nfn, nadt, nimpl, out_path
    );
}

fn ldid_has_body<'tcx>(tcx: TyCtxt<'tcx>, l: LocalDefId) -> bool {
    tcx.hir_maybe_body_owned_by(l).is_some()
}

struct Cb {
    out: String,
}

impl rustc_driver::Callbacks for Cb {
    fn config(&mut self, config: &mut rustc_interface::interface::Config) {
        config.override_queries = Some(|_sess, providers| {
            let _ = ORIG_BORROWCK.set(providers.queries.mir_borrowck);
            providers.queries.mir_borrowck = my_borrowck;
        });
    }
    fn after_analysis<'tcx>(
        &mut self,
        _compiler: &rustc_interface::interface::Compiler,
        tcx: TyCtxt<'tcx>,
    ) -> Compilation {
        // make sure every body owner went through borrowck (and so was saved)
        for def in tcx.hir_body_owners() {
            if !tcx.is_typeck_child(def.to_def_id()) {
                let _ = tcx.ensure_ok().mir_borrowck(def);
            }
        }
        dump_all(tcx, &self.out);
        Compilation::Continue
    }
}

struct Plain;
impl rustc_driver::Callbacks for Plain {}

// ------------------------------------------------------------------ optimised-MIR fingerprints
//
// Second mode (VERIF_OMIR_OUT): serialise `optimized_mir` of every function and closure of the crate.  Run with
// -Zmir-opt-level=3 -Zinline-mir the compiler's own simplifications (inlining of small helpers, constant
// propagation, CFG simplification, copy propagation, GVN) act as a normaliser; engine/equiv.py canonicalises the
// result further and compares it with the table recorded for the reviewed tree.

static OMIR_MODE: std::sync::atomic::AtomicBool = std::sync::atomic::AtomicBool::new(false);

struct Omir {
    out: String,
}

impl rustc_driver::Callbacks for Omir {
    fn after_analysis<'tcx>(
        &mut self,
        _compiler: &rustc_interface::interface::Compiler,
        tcx: TyCtxt<'tcx>,
    ) -> Compilation {
        let mut out = String::new();
        let mut n = 0usize;
        for ldid in tcx.mir_keys(()).iter() {
            let did = ldid.to_def_id();
            let kind = tcx.def_kind(did);
            let is_const = matches!(
                kind,
                DefKind::Const { .. } | DefKind::AssocConst { .. } | DefKind::Static { .. } | DefKind::AnonConst | DefKind::InlineConst
            );
            if !is_const
                && !matches!(kind, DefKind::Fn | DefKind::AssocFn | DefKind::Closure | DefKind::SyntheticCoroutineBody)
            {
                continue;
            }
            // constants and statics: their initialiser is a body too (a generic function refers to it by name only)
            let body: &Body<'tcx> = if is_const { tcx.mir_for_ctfe(did) } else { tcx.optimized_mir(did) };
            let promoted = tcx.promoted_mir(did);
            let mut o: Vec<(&'static str, J)> = Vec::new();
            o.push(("rec", J::s("obody")));
            o.push(("def", J::S(path(tcx, did))));
            o.push(("kind", J::S(format!("{:?}", kind))));
            if matches!(kind, DefKind::Closure) {
                // how this closure's type is spelt inside other bodies (`{closure@file:l:c: l:c}`)
                let t = tcx.type_of(did).instantiate_identity().skip_norm_wip();
                o.push(("tyname", J::S(tystr(t))));
            }
            o.push(("ret", J::S(tystr(body.local_decls[RETURN_PLACE].ty))));
            let env = TypingEnv::post_analysis(tcx, did);
            let cx = Cx { tcx, def: *ldid, body, env };
            o.extend(cx.body_json(Some(promoted)));
            J::O(o).w(&mut out);
            out.push('\n');
            n += 1;
        }
        let mut o: Vec<(&'static str, J)> = Vec::new();
        o.push(("rec", J::s("ometa")));
        o.push(("bodies", J::I(n as i128)));
        J::O(o).w(&mut out);
        out.push('\n');
        std::fs::write(&self.out, out).expect("verif-driver: cannot write omir");
        eprintln!("verif-driver: wrote {} optimised bodies to {}", n, self.out);
        Compilation::Continue
    }
}

fn main() {
    let mut args: Vec<String> = std::env::args().collect();
    // RUSTC_WORKSPACE_WRAPPER: argv[1] is the real rustc path; drop it.
    if args.len() > 1 && (args[1].ends_with("rustc") || args[1].contains("/rustc")) {
        args.remove(1);
    }
    let want = std::env::var("VERIF_CRATE").unwrap_or_else(|_| "rpki".to_string());
    let mut crate_name = String::new();
    let mut is_lib = false;
    let mut i = 0;
    while i < args.len() {
        if args[i] == "--crate-name" && i + 1 < args.len() {
            crate_name = args[i + 1].clone();
        }
        if args[i] == "--crate-type" && i + 1 < args.len() && args[i + 1].contains("lib") {
            is_lib = true;
        }
        if args[i].starts_with("--crate-type=") && args[i].contains("lib") {
            is_lib = true;
        }
        i += 1;
    }
    let is_test = args.iter().any(|a| a == "--test");
    let out = std::env::var("VERIF_FACTS_OUT").ok();
    let omir = std::env::var("VERIF_OMIR_OUT").ok();
    if crate_name == want && is_lib && !is_test && omir.is_some() {
        OMIR_MODE.store(true, std::sync::atomic::Ordering::Relaxed);
        let mut cb = Omir { out: omir.unwrap() };
        rustc_driver::run_compiler(&args, &mut cb);
    } else if crate_name == want && is_lib && !is_test && out.is_some() {
        let mut cb = Cb { out: out.unwrap() };
        rustc_driver::run_compiler(&args, &mut cb);
    } else {
        rustc_driver::run_compiler(&args, &mut Plain);
    }
}
