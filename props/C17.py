"""C17 — X.509 times and validity windows mean what the calendar says
(structural clauses; DESIGN §2 C17.a–e)."""
import re
from engine import absint
from engine.absint import region_constraints as RC, outcome_str
from engine.rules import (MustPass, guard_edges, eq_matcher, pred_matcher, outcome, aggregates_of, is_derived, root_fn,
                          success_values, switch_bool_edges, bool_atom, call_checked)
from engine.sym import strip, strip_deep, render, walk, short
from props import common as K

META = {
    "level": "other",
    "technique": "static analysis of type-checked MIR (rustc_private driver): boundary-inclusive guard polarity, abstract-interpretation pivot tables, decoder-shape and digits-only must-pass rules, constructor tables",
    "explanation": "Validity window guards (boundary-inclusive) and Validity::trim provenance; encoder/decoder pivot agreement "
                   "(UTCTime ⇔ 1950..=2049 by abstract interpretation; two-digit years ≥ 50 → 19yy else 20yy in both "
                   "decoder copies); decoder shape (exactly six fixed-width fields, 'Z', every other tag fails, from_parts "
                   "only for real dates); a digits-only rule on every wire-number parse; the serial-number constructor "
                   "tables (1 ≤ len ≤ 20, top bit clear) and construction-site discipline.",
    "not_decided": ["every calendar second round-trips (chrono's calendar)",
                    "decimal Display/FromStr round trip and order preservation of serial numbers (multi-precision loops)"],
    "trusted_base": ["chrono ymd_opt/and_hms_opt", "bcder take_primitive exhausts the content", "std u32::from_str"],
}

X = "repository::x509::"


def run(ctx):
    f = ctx.facts()
    ctx.rule("R-REG", "decision table equals the spec")
    K.check_serial_start(ctx, f)
    ctx.rule("R-GRD", "success requires the guard literal")
    ctx.rule("R-CHK", "every success path passes a checked call to the sink")
    ctx.rule("R-FLOW", "operand provenance")
    ctx.rule("R-REG", "outcome regions by abstract interpretation equal the spec table")
    ctx.rule("R-SIB", "sibling decoders / encoder agree")
    ctx.rule("R-WHO", "construction sites are exactly the confirmed ones")

    # ---- C17.a validity ---------------------------------------------------------
    K.check_validity_window(ctx, f)
    tb = f.body(X + "Validity::trim")
    if tb is None:
        ctx.missing("R-FLOW", "Validity::trim", X + "Validity::trim")
    else:
        ctx.saw_fn(tb.name)
        vals = [render(t) for _, _, t in success_values(tb)]
        want = "Validity::new(cmp::max(self.not_before, other.not_before), cmp::min(self.not_after, other.not_after))"

        def canon_trim(v):
            # max/min as free functions or methods, in either operand order; the constructor or the struct literal
            v = v.replace("Ord::max", "cmp::max").replace("Ord::min", "cmp::min")
            v = re.sub(r"^x509::Validity::Validity\{not_before: (.*), not_after: (.*)\}$", r"Validity::new(\1, \2)", v)
            v = v.replace("cmp::max(other.not_before, self.not_before)", "cmp::max(self.not_before, other.not_before)")
            v = v.replace("cmp::min(other.not_after, self.not_after)", "cmp::min(self.not_after, other.not_after)")
            return v
        ctx.ob("R-FLOW", "Validity::trim", [canon_trim(v) for v in vals] == [want],
               "Validity::trim = (max of the not-befores, min of the not-afters)", where=tb.loc, detail=vals)
    nb = f.body(X + "Validity::new")
    if nb is not None:
        vals = [render(t) for _, _, t in success_values(nb)]
        ctx.ob("R-FLOW", "Validity::new", vals == ["x509::Validity::Validity{not_before: not_before, not_after: not_after}"],
               "Validity::new stores its arguments in order", where=nb.loc, detail=vals)

    # ---- C17.b pivots ------------------------------------------------------------
    K.check_time_pivots(ctx, f)
    # writers: year % 100 for UTCTime, full year for GeneralizedTime; six fields each
    for ty, first in (("UtcTime", r"^Rem\(DateTime::year\(self\.0\), 100\)$"), ("GeneralizedTime", r"^DateTime::year\(self\.0\)$")):
        wb = f.body("<%s%s as bcder::encode::PrimitiveContent>::write_encoded" % (X, ty))
        if wb is None:
            ctx.missing("R-FLOW", ty + "::write_encoded", ty)
            continue
        ctx.saw_fn(wb.name)
        al = [l for l in range(len(wb.locals)) if wb.local_name(l) == "args"]
        r = render(strip_deep(K.sym_of(wb).local(al[0]))) if al else ""
        m = re.match(r"^tuple\((.*)\)$", r)
        parts = _split_top(m.group(1)) if m else []
        want_rest = ["DateTime::month(self.0)", "DateTime::day(self.0)", "DateTime::hour(self.0)", "DateTime::minute(self.0)",
                     "DateTime::second(self.0)"]
        ok = len(parts) == 6 and re.match(first, parts[0]) is not None and parts[1:] == want_rest
        ctx.ob("R-FLOW", "%s::write_encoded:fields" % ty, ok,
               "%s writes (year%s, month, day, hour, minute, second) of its own time" % (ty, " % 100" if ty == "UtcTime" else ""),
               where=wb.loc, detail=parts)

    # ---- C17.c decoder shape -------------------------------------------------------
    # Anchors are found by what the code does: a *digit reader* is a function of x509.rs that returns a wire number
    # (Result<integer, DecodeError>) and takes octets from the source; its width is the number of octets it takes.  A
    # *decoder* is a body that makes at least five two-octet reads.  The *calendar validator* is the function that
    # builds a Time through chrono's checked constructors.
    readers = _Readers(f)
    parses = _int_parses(f)
    readers.guarded = {(pb.name, c.bb) for pb, c, _, _, oks in parses if oks and all(oks)}
    cal_fns = _calendar_fns(f)
    if not cal_fns:
        ctx.missing("R-GRD", "Time::from_parts", X + "Time::from_parts")
    cal_names = {b.name for b in cal_fns}
    consts = getattr(f, "consts", {})
    nfields = 0
    for b in _decoder_bodies(f, readers):
        oc = outcome(b)
        reads = [(c, readers.width(c)) for c in b.calls() if not b.is_cleanup(c.bb) and readers.width(c)]
        two = [c for c, w in reads if w == 2]
        four = [c for c, w in reads if w == 4]
        odd = [(short(c.res), w) for c, w in reads if w not in (2, 4)]
        if not two:
            continue
        ctx.saw_fn(b.name)
        # classify by tag arm: blocks of UTC part have no four-octet read on their success paths
        # every read is on every success path of *its* arm and is checked
        arms = _arms(b, oc, two, four)
        for kind, rds in arms.items():
            want = (6, 0) if kind == "utc" else (5, 1)
            n2 = sum(1 for c in rds if readers.width(c) == 2)
            n4 = sum(1 for c in rds if readers.width(c) == 4)
            chk = all(call_checked(b, c.bb, oc)[0] for c in rds)
            good = (n2, n4) == want and chk and not odd
            if good:
                nfields += sum(1 for c in rds if readers.digits_only(c))
            ctx.ob("R-CHK", "%s[%s]:field-reads" % (_dec_name(f, b), kind), good,
                   "the %s arm reads exactly %s fixed-width numeric fields, each checked" % (kind, "6×2" if kind == "utc" else "4+5×2"),
                   where=b.loc, detail={"two_char": n2, "four_char": n4, "all_checked": chk, "other_widths": odd})
        mpz = MustPass(f, lambda c: False, guard_fn=lambda bd, s, bb: _byte_is_edges(bd, s, bb, 90, consts), name="terminating 'Z'")
        ok = mpz.holds(b.name)
        ctx.ob("R-GRD", "%s:terminated-by-Z" % _dec_name(f, b), ok,
               "%s accepts only values whose next byte after the fields is 'Z'" % _dec_name(f, b), where=b.loc,
               detail=None if ok else K.why(f, mpz, b.name))
        mpp = MustPass(f, lambda c: c.res in cal_names, name="Time::from_parts")
        ok = mpp.holds(b.name)
        ctx.ob("R-CHK", "%s→from_parts" % _dec_name(f, b), ok,
               "%s builds the time only through from_parts (calendar validation)" % _dec_name(f, b), where=b.loc,
               detail=None if ok else K.why(f, mpp, b.name))
    # the tag match in take_from: any other tag fails
    tfb = f.body(X + "Time::take_from")
    if tfb is None:
        ctx.missing("R-GRD", "Time::take_from:other-tags-fail", X + "Time::take_from")
    else:
        # the content parser is whatever take_from hands to take_primitive (a closure or a named function)
        tf = []
        for c in tfb.calls():
            if c.name in ("take_primitive", "take_primitive_if", "take_value", "take_value_if") and not tfb.is_cleanup(c.bb):
                for t in K.arg_terms(c):
                    if t[0] in ("closure", "fnref") and f.body(t[1]) is not None:
                        tf.append(f.body(t[1]))
        if not tf:
            tf = [b for n, b in f.bodies.items() if re.match(r"^repository::x509::Time::take_from::\{closure#0\}$", n)]
        for b in tf[:1]:
            # success paths must contain a field read (directly or in a callee all of whose success paths do): a path to
            # success with no numeric field read = another tag accepted
            mpr = MustPass(f, lambda c: bool(readers.width(c)), name="field reader")
            ok = mpr.holds(b.name)
            ctx.ob("R-GRD", "Time::take_from:other-tags-fail", ok,
                   "Time::take_from has no success path that avoids the UTCTime / GeneralizedTime field readers", where=b.loc,
                   detail=None if ok else K.why(f, mpr, b.name))
    for fp in cal_fns:
        ctx.saw_fn(fp.name)
        oc = outcome(fp)
        sym = oc.sym
        # success only via LocalResult::Single and Some(and_hms_opt)
        okd = False
        okt = False
        adt = None
        for bi, blk in enumerate(fp.blocks):
            t = blk["term"]
            if t["t"] != "switch":
                continue
            d = strip(sym.operand(t["discr"]))
            if d[0] != "discr":
                continue
            r = render(strip_deep(d[1]))
            reach = oc.success_reach()
            live = [v for v, tb in fp.switch_edges(bi) if tb in reach]
            if re.search(r"ymd_opt\(.*parts\.0, parts\.1, parts\.2\)$", r):
                # LocalResult: variants None=0? use names from the dependency: Single is index 1 in chrono 0.4 (None, Single, Ambiguous)
                okd = len(live) == 1
                adt = (r, live)
            if re.search(r"and_hms_opt\(.*parts\.3, parts\.4, parts\.5\)$", r):
                okt = live == [1]
        # the same fact read off the value instead of the control flow: whatever the spelling (match, let-else, `?`,
        # ok_or / map / and_then chains, parameter pattern), every value returned as Ok is
        # Time(<Some-payload of and_hms_opt(<Single-payload of ymd_opt(y, m, d)>, h, m, s)>) of the six parts in order —
        # a payload can only be had on the branch where the variant is the one named
        forms = _Canon(f, fp).success_forms()
        okc = bool(forms) and all(any(rx.match(v) for rx in _CALENDAR_FORMS) for v in forms)
        key = "Time::from_parts" if fp.name == X + "Time::from_parts" else short(fp.name)
        ctx.ob("R-GRD", "%s:real-date" % key, okd or okc,
               "from_parts succeeds for exactly one outcome of Utc.ymd_opt(y, m, d) (the unambiguous date)", where=fp.loc,
               detail=adt if okd or okc else {"switch": adt, "returned_as_Ok": forms})
        ctx.ob("R-GRD", "%s:real-time" % key, okt or okc,
               "from_parts succeeds only if and_hms_opt(h, m, s) is Some", where=fp.loc,
               detail=None if okt or okc else {"returned_as_Ok": forms})

    # ---- C17.d digits only ------------------------------------------------------------
    # every conversion of octets to a number with the std integer parsers (from_str / str::parse / from_str_radix, which
    # accept a leading '+') is preceded by a test that all those octets are ASCII digits — wherever the conversion sits
    # (the function itself, a closure handed to and_then/map, a helper that receives the octets)
    for pb, c, ity, srcs, oks in parses:
        for (ab, abb, buf), ok in zip(srcs, oks):
            who = short(root_fn(f, ab.name))
            ctx.ob("R-GRD", "%s:digits-only-before-from_str" % who, ok,
                   "%s parses wire bytes with %s::from_str only after checking that all of them are ASCII digits "
                   "(from_str alone accepts a leading '+')" % (who, ity), where=c.where(),
                   detail={"parsed": render(buf)})
    for name in sorted(readers.used):
        rb = f.body(name)
        ok = readers.digits_only_fn(name)
        ctx.ob("R-GRD", "%s:digits-only" % short(name), ok,
               "%s returns a number only for octets that are all ASCII digits" % short(name), where=rb.loc if rb else None,
               detail=None if ok else readers.why.get(name))
    # at review time: 2 parse sites serving the 6+6 fields of one UTCTime and one GeneralizedTime arm (there are two copies
    # of each arm); the rule has looked at what it was armed for when every field of at least one arm of each kind is read
    # by a digits-only reader
    ctx.floor("R-GRD", "wire-number parses in x509.rs", nfields, 12)

    # ---- C17.e serial numbers ------------------------------------------------------------
    S = X + "Serial"
    fs = f.body(S + "::from_slice")
    if fs is None:
        ctx.missing("R-REG", "Serial::from_slice", S + "::from_slice")
    else:
        ctx.saw_fn(fs.name)
        paths, it, err = K.run_absint(f, fs.name, sym_names={"len(s)": "n"})
        if paths is None:
            ctx.ob("R-REG", "Serial::from_slice:analysable", False, "cannot establish: " + err, where=fs.loc)
        else:
            K.check_regions(ctx, "R-REG", "Serial::from_slice", paths, it, [
                ("len=0", RC("n", 0, 0), lambda p: outcome_str(p.outcome).startswith("return Err("), "Err"),
                ("1≤len≤20", RC("n", 1, 20), lambda p: outcome_str(p.outcome) == "return Serial::from_array(array::default())" and
                 any(e[0].endswith("copy_from_slice") and e[1][0] == "array::index_mut(array::default(), ops::RangeFrom{start: Sub(20, n)})"
                     and e[1][1] == "s" for e in p.effects), "from_array(left-padded copy: res[20-len..] = s)"),
                ("len>20", RC("n", 21, None), lambda p: outcome_str(p.outcome).startswith("return Err("), "Err"),
            ], fs.loc)
    fa = f.body(S + "::from_array")
    if fa is None:
        ctx.missing("R-REG", "Serial::from_array", S + "::from_array")
    else:
        ctx.saw_fn(fa.name)
        for lo, hi, want in ((0, 127, "return Ok(x509::Serial{0: array})"), (128, 255, "return Err(SerialSliceError::long())")):
            paths, it, err = K.run_absint(f, fa.name, assume=[(r"^array\[0\]$", lo, hi)])
            ok = paths is not None and len(paths) == 1 and outcome_str(paths[0].outcome) == want
            ctx.ob("R-REG", "Serial::from_array:first-byte∈[%d,%d]" % (lo, hi), ok,
                   "Serial::from_array: first byte in [%d,%d] ⇒ %s" % (lo, hi, want), where=fa.loc,
                   detail=[p.describe() for p in (paths or [])])
    sites = [x for x in aggregates_of(f, S) if not is_derived(x[0])]
    fns = sorted({root_fn(f, x[0].name) for x in sites})
    safe = {S + "::from_array", S + "::random", S + "::short_random", "<%s as std::default::Default>::default" % S}
    arb = [n for n in fns if re.search(r"as arbitrary::Arbitrary<.*>>::arbitrary$", n)]
    extra = [n for n in fns if n not in safe and n not in arb and not re.search(r"From<u(8|16|32|64|128)>|From<usize>", n)]
    ctx.ob("R-WHO", "Serial-literal-sites", not extra, "Serial(..) is built only by the checked constructors "
           "(from_array, random/short_random which clear the top bit, default, From<uN>)", detail=fns)
    for fn in [S + "::random", S + "::short_random"] + arb:
        b = f.body(fn)
        if b is None:
            continue
        # res[0] &= 0x7F on every success path
        blocks = set()
        s = K.sym_of(b)
        for bi, blk in enumerate(b.blocks):
            for st in blk["stmts"]:
                if st["s"] == "assign" and st["rv"]["r"] == "bin" and st["rv"]["bop"] == "BitAnd":
                    if render(s.operand(st["rv"]["b"])) == "127" and any(
                            (p[0] == "ci" and p[1] == 0) or (p[0] == "i" and render(s.local(p[1])) == "0") for p in st["pl"]["p"]):
                        blocks.add(bi)
        oc = outcome(b)
        p = b.path(0, oc.returns(), set(oc.fail_blocks) | blocks)
        ctx.ob("R-CHK", "%s:clears-top-bit" % short(fn), bool(blocks) and p is None,
               "%s clears the top bit of the first octet on every success path" % short(fn), where=b.loc)
    der = [i for i in f.impls if i.get("adt") == S and (i.get("trait") or "").endswith("arbitrary::Arbitrary") and i["derived"]]
    ctx.ob("R-WHO", "Serial:no-derived-Arbitrary", not der,
           "x509::Serial has no derived Arbitrary impl (a derive fills the array without clearing the top bit, which "
           "Serial::start relies on)", where=der[0]["loc"] if der else None)


def _split_top(s):
    out = []
    cur = []
    d = 0
    i = 0
    while i < len(s):
        ch = s[i]
        if ch in "([{":
            d += 1
        elif ch in ")]}":
            d -= 1
        if ch == "," and d == 0:
            out.append("".join(cur).strip())
            cur = []
        else:
            cur.append(ch)
        i += 1
    if cur:
        out.append("".join(cur).strip())
    return out


def _dec_name(f, b):
    return short(root_fn(f, b.name)) + b.name[len(root_fn(f, b.name)):].replace("::{closure", "{c").replace("}", "}")


def _arms(b, oc, two, four):
    """Group the field reads of a decoder closure into its UTCTime / GeneralizedTime arms."""
    arms = {}
    if not four:
        return {"utc": two}
    # a read belongs to the generalized arm iff it is reachable from the (unique) read_four_char
    fb = four[0].bb
    reach = b.reachable(fb)
    gen = [c for c in two if c.bb in reach] + four
    utc = [c for c in two if c.bb not in reach]
    if utc:
        arms["utc"] = utc
    arms["generalized"] = gen
    return arms
