"""C17 — X.509 times and validity windows mean what the calendar says
(structural clauses; DESIGN §2 C17.a–e)."""
import re
from engine import absint
from engine.absint import region_constraints as RC, outcome_str
from engine.rules import (MustPass, guard_edges, eq_matcher, pred_matcher, outcome, aggregates_of, is_derived, root_fn,
                          success_values, switch_bool_edges, bool_atom, call_checked)
from engine.sym import strip, strip_deep, render, walk, short
from props import common as K

META = {
    "level": "other",
    "technique": "static analysis of type-checked MIR (rustc_private driver): boundary-inclusive guard polarity, abstract-interpretation pivot tables, decoder-shape and digits-only must-pass rules, constructor tables; "
                 "spelling-independent second readings (order tables over all weak orderings, canonical Some/Ok/Single payload terms, "
                 "year evaluated for all 100 two-digit values, format templates decoded, anchors found by behaviour)",
    "explanation": "Validity window guards (boundary-inclusive) and Validity::trim provenance; encoder/decoder pivot agreement "
                   "(UTCTime ⇔ 1950..=2049 by abstract interpretation; two-digit years ≥ 50 → 19yy else 20yy in both "
                   "decoder copies); decoder shape (exactly six fixed-width fields, 'Z', every other tag fails, from_parts "
                   "only for real dates); a digits-only rule on every wire-number parse; the serial-number constructor "
                   "tables (1 ≤ len ≤ 20, top bit clear) and construction-site discipline.",
    "not_decided": ["every calendar second round-trips (chrono's calendar)",
                    "decimal Display/FromStr round trip and order preservation of serial numbers (multi-precision loops)"],
    "trusted_base": ["chrono ymd_opt/and_hms_opt", "bcder take_primitive exhausts the content", "std u32::from_str"],
}

X = "repository::x509::"


def run(ctx):
    ctx = _Rescue(ctx, {})          # (keeps the details of the obligations printable)
    f = ctx.facts()
    check_serial_text_zero(ctx, f)
    ctx.rule("R-REG", "decision table equals the spec")
    K.check_serial_start(ctx, f)
    ctx.rule("R-GRD", "success requires the guard literal")
    K.check_serial_sign_guard(ctx, f)
    ctx.rule("R-CHK", "every success path passes a checked call to the sink")
    ctx.rule("R-FLOW", "operand provenance")
    ctx.rule("R-REG", "outcome regions by abstract interpretation equal the spec table")
    ctx.rule("R-SIB", "sibling decoders / encoder agree")
    ctx.rule("R-WHO", "construction sites are exactly the confirmed ones")

    # ---- C17.a validity ---------------------------------------------------------
    K.check_validity_window(_Rescue(ctx, _validity_deciders(f)), f)
    tb = f.body(X + "Validity::trim")
    if tb is None:
        ctx.missing("R-FLOW", "Validity::trim", X + "Validity::trim")
    else:
        ctx.saw_fn(tb.name)
        vals = [render(t) for _, _, t in success_values(tb)]
        want = "Validity::new(cmp::max(self.not_before, other.not_before), cmp::min(self.not_after, other.not_after))"

        def canon_trim(v):
            # max/min as free functions or methods, in either operand order; the constructor or the struct literal
            v = v.replace("Ord::max", "cmp::max").replace("Ord::min", "cmp::min")
            v = re.sub(r"^x509::Validity::Validity\{not_before: (.*), not_after: (.*)\}$", r"Validity::new(\1, \2)", v)
            v = v.replace("cmp::max(other.not_before, self.not_before)", "cmp::max(self.not_before, other.not_before)")
            v = v.replace("cmp::min(other.not_after, self.not_after)", "cmp::min(self.not_after, other.not_after)")
            return v
        ok = [canon_trim(v) for v in vals] == [want]
        how = None
        if not ok:
            # the same fact decided on every ordering of the four bounds: whichever way the larger not-before and the
            # smaller not-after are picked (max/min, if/else, match on cmp, fields updated in place)
            ok, how = _trim_decided(f, tb)
        ctx.ob("R-FLOW", "Validity::trim", ok,
               "Validity::trim = (max of the not-befores, min of the not-afters)", where=tb.loc,
               detail=vals if how is None else {"returns": vals, "on_every_ordering": how})
    nb = f.body(X + "Validity::new")
    if nb is not None:
        vals = [render(t) for _, _, t in success_values(nb)]
        ctx.ob("R-FLOW", "Validity::new", vals == ["x509::Validity::Validity{not_before: not_before, not_after: not_after}"],
               "Validity::new stores its arguments in order", where=nb.loc, detail=vals)

    # ---- C17.b pivots ------------------------------------------------------------
    K.check_time_pivots(_Rescue(ctx, _pivot_deciders(f)), f)
    # writers: year % 100 for UTCTime, full year for GeneralizedTime; six fields each
    for ty, first in (("UtcTime", r"^Rem\(DateTime::year\(self\.0\), 100\)$"), ("GeneralizedTime", r"^DateTime::year\(self\.0\)$")):
        wb = f.body("<%s%s as bcder::encode::PrimitiveContent>::write_encoded" % (X, ty))
        if wb is None:
            ctx.missing("R-FLOW", ty + "::write_encoded", ty)
            continue
        ctx.saw_fn(wb.name)
        al = [l for l in range(len(wb.locals)) if wb.local_name(l) == "args"]
        r = render(strip_deep(K.sym_of(wb).local(al[0]))) if al else ""
        m = re.match(r"^tuple\((.*)\)$", r)
        parts = _split_top(m.group(1)) if m else []
        want_rest = ["DateTime::month(self.0)", "DateTime::day(self.0)", "DateTime::hour(self.0)", "DateTime::minute(self.0)",
                     "DateTime::second(self.0)"]
        ok = len(parts) == 6 and re.match(first, parts[0]) is not None and parts[1:] == want_rest
        # what is written, read off the format template(s): the values in the order the template uses them (a captured
        # `{name}` argument, several write! calls in a row), each zero-padded to its fixed width, then 'Z'
        try:
            script = _format_script(f, wb)
        except Exception:               # an unexpected template: judged by the argument tuple alone
            script = None
        if script is not None:
            w0 = 2 if ty == "UtcTime" else 4
            first2 = first[:-1].replace("^Rem", "^(Rem|\\w*::?rem_euclid)") + "$"
            want = [("num", w0)] + [("num", 2)] * 5 + [("lit", b"Z")]
            ok = [(x[0], x[2] if x[0] == "num" else x[1]) for x in script] == want and \
                re.match(first2, script[0][1]) is not None and [x[1] for x in script[1:6]] == want_rest
            parts = [x[1] if x[0] == "lit" else "%s:0%d" % (x[1], x[2]) if x[3] else "%s:%s" % (x[1], x[2]) for x in script]
        ctx.ob("R-FLOW", "%s::write_encoded:fields" % ty, ok,
               "%s writes (year%s, month, day, hour, minute, second) of its own time" % (ty, " % 100" if ty == "UtcTime" else ""),
               where=wb.loc, detail=parts)

    # ---- C17.c decoder shape -------------------------------------------------------
    # Anchors are found by what the code does: a *digit reader* is a function of x509.rs that returns a wire number
    # (Result<integer, DecodeError>) and takes octets from the source; its width is the number of octets it takes.  A
    # *decoder* is a body that makes at least five two-octet reads.  The *calendar validator* is the function that
    # builds a Time through chrono's checked constructors.
    parses = _int_parses(f)
    guarded = {(pb.name, c.bb) for pb, c, _, _, oks in parses if oks and all(oks)}
    # the decoders are looked at with their own private helpers (anything that is neither a digit reader nor the
    # calendar validator) folded into them: how the fields are read is one fact however the reading is split up
    fd = _decoder_view(f)
    readers = _Readers(fd)
    readers.guarded = guarded
    cal_fns = _calendar_fns(fd)
    if not cal_fns:
        ctx.missing("R-GRD", "Time::from_parts", X + "Time::from_parts")
    cal_names = {b.name for b in cal_fns}
    consts = getattr(f, "consts", {})
    nfields = 0
    decoders = _decoder_bodies(fd, readers)
    # which component of what is handed to the calendar validator is which is read off the decoders: the k-th component
    # is the one computed from the k-th field read from the wire (position in a tuple, name in a struct, place in an
    # argument list are spellings of that)
    slots, disagree = _Sites(fd, readers, cal_names).slots(decoders)
    for b in decoders:
        oc = outcome(b)
        reads = [(c, readers.width(c)) for c in b.calls() if not b.is_cleanup(c.bb) and readers.width(c)]
        two = [c for c, w in reads if w == 2]
        four = [c for c, w in reads if w == 4]
        odd = [(short(c.res), w) for c, w in reads if w not in (2, 4)]
        if not two:
            continue
        ctx.saw_fn(b.name)
        # classify by tag arm: blocks of UTC part have no four-octet read on their success paths
        # every read is on every success path of *its* arm and is checked
        arms = _arms(b, oc, two, four)
        for kind, rds in arms.items():
            want = (6, 0) if kind == "utc" else (5, 1)
            n2 = sum(1 for c in rds if readers.width(c) == 2)
            n4 = sum(1 for c in rds if readers.width(c) == 4)
            chk = all(call_checked(b, c.bb, oc)[0] for c in rds)
            good = (n2, n4) == want and chk and not odd
            if good:
                nfields += sum(1 for c in rds if readers.digits_only(c))
            ctx.ob("R-CHK", "%s[%s]:field-reads" % (_dec_name(fd, b), kind), good,
                   "the %s arm reads exactly %s fixed-width numeric fields, each checked" % (kind, "6×2" if kind == "utc" else "4+5×2"),
                   where=b.loc, detail={"two_char": n2, "four_char": n4, "all_checked": chk, "other_widths": odd})
        mpz = MustPass(fd, lambda c: False, guard_fn=lambda bd, s, bb: _byte_is_edges(bd, s, bb, 90, consts), name="terminating 'Z'")
        ok = mpz.holds(b.name)
        ctx.ob("R-GRD", "%s:terminated-by-Z" % _dec_name(fd, b), ok,
               "%s accepts only values whose next byte after the fields is 'Z'" % _dec_name(fd, b), where=b.loc,
               detail=None if ok else K.why(fd, mpz, b.name))
        mpp = MustPass(fd, lambda c: c.res in cal_names, name="Time::from_parts")
        ok = mpp.holds(b.name)
        ctx.ob("R-CHK", "%s→from_parts" % _dec_name(fd, b), ok,
               "%s builds the time only through from_parts (calendar validation)" % _dec_name(fd, b), where=b.loc,
               detail=None if ok else K.why(fd, mpp, b.name))
        bad = [x for x in disagree if x[0] is b]
        if bad or any(c.is_static and c.res in slots for c in b.calls()):
            ctx.ob("R-FLOW", "%s:fields-in-wire-order" % _dec_name(fd, b), not bad,
                   "%s hands the fields to the calendar validator in the same places as the other decoders do "
                   "(k-th field read → k-th component)" % _dec_name(fd, b), where=b.loc,
                   detail=[{"callee": short(x[1]), "here": {".".join(map(str, k_)): v_ for k_, v_ in x[2].items()},
                            "elsewhere": {".".join(map(str, k_)): v_ for k_, v_ in x[3].items()}} for x in bad] or None)
    # the tag match in take_from: any other tag fails
    tfb = fd.body(X + "Time::take_from")
    if tfb is None:
        ctx.missing("R-GRD", "Time::take_from:other-tags-fail", X + "Time::take_from")
    else:
        # the content parser is whatever take_from hands to take_primitive (a closure or a named function)
        tf = []
        for c in tfb.calls():
            if c.name in ("take_primitive", "take_primitive_if", "take_value", "take_value_if") and not tfb.is_cleanup(c.bb):
                for t in K.arg_terms(c):
                    if t[0] in ("closure", "fnref") and fd.body(t[1]) is not None:
                        tf.append(fd.body(t[1]))
        if not tf:
            tf = [b for n, b in fd.bodies.items() if re.match(r"^repository::x509::Time::take_from::\{closure#0\}$", n)]
        for b in tf[:1]:
            # success paths must contain a field read (directly or in a callee all of whose success paths do): a path to
            # success with no numeric field read = another tag accepted
            mpr = MustPass(fd, lambda c: bool(readers.width(c)), name="field reader")
            ok = mpr.holds(b.name)
            ctx.ob("R-GRD", "Time::take_from:other-tags-fail", ok,
                   "Time::take_from has no success path that avoids the UTCTime / GeneralizedTime field readers", where=b.loc,
                   detail=None if ok else K.why(fd, mpr, b.name))
    for fp in cal_fns:
        ctx.saw_fn(fp.name)
        oc = outcome(fp)
        sym = oc.sym
        # success only via LocalResult::Single and Some(and_hms_opt)
        okd = False
        okt = False
        adt = None
        for bi, blk in enumerate(fp.blocks):
            t = blk["term"]
            if t["t"] != "switch":
                continue
            d = strip(sym.operand(t["discr"]))
            if d[0] != "discr":
                continue
            r = render(strip_deep(d[1]))
            reach = oc.success_reach()
            live = [v for v, tb in fp.switch_edges(bi) if tb in reach]
            if re.search(r"ymd_opt\(.*parts\.0, parts\.1, parts\.2\)$", r):
                # LocalResult: variants None=0? use names from the dependency: Single is index 1 in chrono 0.4 (None, Single, Ambiguous)
                okd = len(live) == 1
                adt = (r, live)
            if re.search(r"and_hms_opt\(.*parts\.3, parts\.4, parts\.5\)$", r):
                okt = live == [1]
        # the same fact read off the value instead of the control flow: whatever the spelling (match, let-else, `?`,
        # ok_or / map / and_then chains, parameter pattern), every value returned as Ok is
        # Time(<Some-payload of and_hms_opt(<Single-payload of ymd_opt(y, m, d)>, h, m, s)>) of the six parts in order —
        # a payload can only be had on the branch where the variant is the one named
        try:
            forms = _Canon(fd, fp, slots.get(fp.name)).success_forms()
        except Exception as e:          # the second reading is optional: the verdict then rests on the first alone
            forms = ["<%s: %s>" % (type(e).__name__, e)]
        okc = bool(forms) and all(any(rx.match(v) for rx in _CALENDAR_FORMS) for v in forms)
        key = "Time::from_parts" if fp.name == X + "Time::from_parts" else short(fp.name)
        ctx.ob("R-GRD", "%s:real-date" % key, okd or okc,
               "from_parts succeeds for exactly one outcome of Utc.ymd_opt(y, m, d) (the unambiguous date)", where=fp.loc,
               detail=adt if okd or okc else {"switch": adt, "returned_as_Ok": forms})
        ctx.ob("R-GRD", "%s:real-time" % key, okt or okc,
               "from_parts succeeds only if and_hms_opt(h, m, s) is Some", where=fp.loc,
               detail=None if okt or okc else {"returned_as_Ok": forms})

    # ---- C17.d digits only ------------------------------------------------------------
    # every conversion of octets to a number with the std integer parsers (from_str / str::parse / from_str_radix, which
    # accept a leading '+') is preceded by a test that all those octets are ASCII digits — wherever the conversion sits
    # (the function itself, a closure handed to and_then/map, a helper that receives the octets)
    for pb, c, ity, srcs, oks in parses:
        for (ab, abb, buf), ok in zip(srcs, oks):
            who = short(root_fn(f, ab.name))
            ctx.ob("R-GRD", "%s:digits-only-before-from_str" % who, ok,
                   "%s parses wire bytes with %s::from_str only after checking that all of them are ASCII digits "
                   "(from_str alone accepts a leading '+')" % (who, ity), where=c.where(),
                   detail={"parsed": render(buf)})
    for name in sorted(readers.used):
        rb = f.body(name)
        ok = readers.digits_only_fn(name)
        ctx.ob("R-GRD", "%s:digits-only" % short(name), ok,
               "%s returns a number only for octets that are all ASCII digits" % short(name), where=rb.loc if rb else None,
               detail=None if ok else readers.why.get(name))
    # at review time: 2 parse sites serving the 6+6 fields of one UTCTime and one GeneralizedTime arm (there are two copies
    # of each arm); the rule has looked at what it was armed for when every field of at least one arm of each kind is read
    # by a digits-only reader
    ctx.floor("R-GRD", "wire-number parses in x509.rs", nfields, 12)

    # ---- C17.e serial numbers ------------------------------------------------------------
    S = X + "Serial"
    fs = f.body(S + "::from_slice")
    if fs is None:
        ctx.missing("R-REG", "Serial::from_slice", S + "::from_slice")
    else:
        ctx.saw_fn(fs.name)
        paths, it, err = K.run_absint(f, fs.name, sym_names={"len(s)": "n"})
        if paths is None:
            ctx.ob("R-REG", "Serial::from_slice:analysable", False, "cannot establish: " + err, where=fs.loc)
        else:
            K.check_regions(ctx, "R-REG", "Serial::from_slice", paths, it, [
                ("len=0", RC("n", 0, 0), lambda p: outcome_str(p.outcome).startswith("return Err("), "Err"),
                ("1≤len≤20", RC("n", 1, 20), _left_padded_copy, "from_array(left-padded copy: res[20-len..] = s)"),
                ("len>20", RC("n", 21, None), lambda p: outcome_str(p.outcome).startswith("return Err("), "Err"),
            ], fs.loc)
    fa = f.body(S + "::from_array")
    if fa is None:
        ctx.missing("R-REG", "Serial::from_array", S + "::from_array")
    else:
        ctx.saw_fn(fa.name)
        for lo, hi, want in ((0, 127, "return Ok(x509::Serial{0: array})"), (128, 255, "return Err(SerialSliceError::long())")):
            paths, it, err = K.run_absint(f, fa.name, assume=[(r"^array\[0\]$", lo, hi)])
            ok = paths is not None and len(paths) == 1 and outcome_str(paths[0].outcome) == want
            ctx.ob("R-REG", "Serial::from_array:first-byte∈[%d,%d]" % (lo, hi), ok,
                   "Serial::from_array: first byte in [%d,%d] ⇒ %s" % (lo, hi, want), where=fa.loc,
                   detail=[p.describe() for p in (paths or [])])
    sites = [x for x in aggregates_of(f, S) if not is_derived(x[0])]
    fns = sorted({root_fn(f, x[0].name) for x in sites})
    safe = {S + "::from_array", S + "::random", S + "::short_random", "<%s as std::default::Default>::default" % S}
    arb = [n for n in fns if re.search(r"as arbitrary::Arbitrary<.*>>::arbitrary$", n)]
    extra = [n for n in fns if n not in safe and n not in arb and not re.search(r"From<u(8|16|32|64|128)>|From<usize>", n)]
    ctx.ob("R-WHO", "Serial-literal-sites", not extra, "Serial(..) is built only by the checked constructors "
           "(from_array, random/short_random which clear the top bit, default, From<uN>)", detail=fns)
    for fn in [S + "::random", S + "::short_random"] + arb:
        b = f.body(fn)
        if b is None:
            continue
        # the first octet is overwritten with a value below 0x80 on every success path: `res[0] &= 0x7F`, `&= !0x80`,
        # `= res[0] & MASK`, `%= 0x80`, … — the assigned expression is evaluated for all 256 values of the old octet
        blocks = set()
        s = K.sym_of(b)
        consts = getattr(f, "consts", {})
        for bi, blk in enumerate(b.blocks):
            for st in blk["stmts"]:
                if st["s"] != "assign" or not any((p[0] == "ci" and p[1] == 0 and not p[3]) or
                                                  (p[0] == "i" and render(s.local(p[1])) == "0") for p in st["pl"]["p"]):
                    continue
                t = K.fold_consts(strip_deep(s.rvalue(st["rv"])), consts)
                vals = [_eval_u8(t, v) for v in range(256)]
                if all(x is not None and x < 128 for x in vals):
                    blocks.add(bi)
        oc = outcome(b)
        p = b.path(0, oc.returns(), set(oc.fail_blocks) | blocks)
        ctx.ob("R-CHK", "%s:clears-top-bit" % short(fn), bool(blocks) and p is None,
               "%s clears the top bit of the first octet on every success path" % short(fn), where=b.loc)
    der = [i for i in f.impls if i.get("adt") == S and (i.get("trait") or "").endswith("arbitrary::Arbitrary") and i["derived"]]
    ctx.ob("R-WHO", "Serial:no-derived-Arbitrary", not der,
           "x509::Serial has no derived Arbitrary impl (a derive fills the array without clearing the top bit, which "
           "Serial::start relies on)", where=der[0]["loc"] if der else None)


def _split_top(s):
    out = []
    cur = []
    d = 0
    i = 0
    while i < len(s):
        ch = s[i]
        if ch in "([{":
            d += 1
        elif ch in ")]}":
            d -= 1
        if ch == "," and d == 0:
            out.append("".join(cur).strip())
            cur = []
        else:
            cur.append(ch)
        i += 1
    if cur:
        out.append("".join(cur).strip())
    return out


def _dec_name(f, b):
    return short(root_fn(f, b.name)) + b.name[len(root_fn(f, b.name)):].replace("::{closure", "{c").replace("}", "}")


def _arms(b, oc, two, four):
    """Group the field reads of a decoder closure into its UTCTime / GeneralizedTime arms."""
    arms = {}
    if not four:
        return {"utc": two}
    # a read belongs to the generalized arm iff it is reachable from the (unique) read_four_char
    fb = four[0].bb
    reach = b.reachable(fb)
    gen = [c for c in two if c.bb in reach] + four
    utc = [c for c in two if c.bb not in reach]
    if utc:
        arms["utc"] = utc
    arms["generalized"] = gen
    return arms


# ---------------------------------------------------------------------------
# anchors found by behaviour

_INT_TYS = ("u8", "u16", "u32", "u64", "u128", "usize", "i8", "i16", "i32", "i64", "i128", "isize")
_DIGITS = frozenset(range(0x30, 0x3a))
_NONDIGITS = frozenset(range(256)) - _DIGITS
# widths the two readers had when the rules were reviewed: used only when the width cannot be read off the body
_REVIEWED_WIDTH = {X + "read_two_char": 2, X + "read_four_char": 4}
# combinators / operators that hand on the good payload (Some / Ok / Single) of their first argument unchanged
_PAYLOAD_KEEPING = {"ok_or", "ok_or_else", "ok", "map_err", "inspect", "inspect_err", "single", "branch", "copied", "cloned"}
_GOOD_VARIANTS = ("Some", "Ok", "Single", "Continue")


def _in_x509(b):
    return b.file.endswith("repository/x509.rs") and not is_derived(b) and "::test" not in b.name


def _std_call(t):
    return t[0] == "call" and ((t[3] or {}).get("krate") in ("core", "std", "alloc", "chrono"))


def _peel_payload(t):
    """The Option / Result / call a value is the good payload of: `x?`, `match x { Ok(v) => v, .. }`,
    `x.ok_or(e)?`, `x.map_err(f)?` … all lead to x."""
    t = strip_deep(t)
    while True:
        if t[0] == "mvar":
            t = strip_deep(t[3])
        elif t[0] == "field" and str(t[2]) == "0" and t[1][0] == "variant" and t[1][2] in _GOOD_VARIANTS:
            t = strip_deep(t[1][1])
        elif _std_call(t) and t[3].get("name") in _PAYLOAD_KEEPING and t[2]:
            t = strip_deep(t[2][0])
        elif t[0] == "cast":
            t = strip_deep(t[1])
        else:
            return t


def _is_wire_byte(t):
    t = _peel_payload(t)
    return t[0] == "call" and (t[3] or {}).get("name") == "take_u8"


def _const_is(t, value):
    t = strip_deep(t)
    while t[0] == "cast":
        t = strip_deep(t[1])
    return t[0] == "const" and not isinstance(t[1], bool) and t[1] == value


def _byte_is_edges(bd, s, bb, value, consts):
    """Edges of the switch at bb on which `<octet taken from the source> == value` holds: `b != v` / `b == v` with
    either arm order, `v == b`, a named constant for v, `match b { v => .., _ => .. }`."""
    from engine import orderlogic as OL
    t = bd.term(bb)
    if t["t"] != "switch":
        return None
    d = K.fold_consts(strip_deep(s.operand(t["discr"])), consts)
    if t.get("dty") == "bool":
        a = OL.atom(d)
        truth = True
        while a[0] == "not":
            a, truth = a[1], not truth
        if a[0] != "cmp" or a[1] not in ("==", "!="):
            return None
        x, y = a[2], a[3]
        if not ((_const_is(y, value) and _is_wire_byte(x)) or (_const_is(x, value) and _is_wire_byte(y))):
            return None
        e = switch_bool_edges(bd, bb)
        if e is None:
            return None
        eq_when_true = (a[1] == "==") == truth
        return [(bb, e[1] if eq_when_true else e[0])]
    if _is_wire_byte(d):
        for v, tb in t["targets"]:
            if v == value:
                # the edge is taken for this value only
                if tb == t["otherwise"] or any(tb2 == tb and v2 != value for v2, tb2 in t["targets"]):
                    return None
                return [(bb, tb)]
    return None


class _Readers:
    """The fixed-width number readers of x509.rs, whatever they are called: functions that return
    Result<integer, DecodeError<..>> and take octets from the source (themselves or through another reader)."""

    def __init__(self, f):
        self.f = f
        self.cand = set()
        self._width = {}
        self._dig = {}
        self.guarded = set()
        self.used = set()
        self.why = {}
        rx = re.compile(r"^std::result::Result<(%s), " % "|".join(_INT_TYS))
        for n, b in f.bodies.items():
            if not n.startswith(X) or "{closure" in n or "{constant" in n or not _in_x509(b) or not rx.match(b.ret_ty or ""):
                continue
            self.cand.add(n)
        # keep those that take octets (directly or through another candidate)
        takes = {n for n in self.cand if any(c.name == "take_u8" for c in f.body(n).calls() if not f.body(n).is_cleanup(c.bb))}
        changed = True
        while changed:
            changed = False
            for n in self.cand - takes:
                if any(c.res in takes for c in f.body(n).calls() if c.is_static):
                    takes.add(n)
                    changed = True
        self.cand = takes

    def width(self, c):
        if not c.is_static or c.res not in self.cand:
            return None
        w = self._w(c.res, tuple(c.ga or ()))
        if w is None:
            w = _REVIEWED_WIDTH.get(c.res)
        if w:
            self.used.add(c.res)
        return w

    def _array_len(self, b, ga):
        ns = set()
        for l in b.locals:
            m = re.match(r"^\[u8; (\w+)\]$", l["ty"])
            if m:
                ns.add(m.group(1))
        if len(ns) != 1:
            return None
        n = ns.pop()
        if n.isdigit():
            return int(n)
        nums = [int(re.match(r"^(\d+)", g).group(1)) for g in ga if re.match(r"^\d+(_?usize)?$", g)]
        return nums[0] if len(nums) == 1 else None

    def _w(self, name, ga, depth=0):
        key = (name, ga)
        if key in self._width:
            return self._width[key]
        self._width[key] = None
        b = self.f.body(name)
        oc = outcome(b)
        loops = set()
        for comp in b.cycles_sccs():
            loops.update(comp)
        total, looped, res = 0, 0, "?"
        for c in b.calls():
            if b.is_cleanup(c.bb) or not c.is_static:
                continue
            if c.name == "take_u8":
                w = 1
            elif c.res in self.cand and c.res != name and depth < 3:
                w = self._w(c.res, tuple(c.ga or ()), depth + 1)
                if w is None:
                    w = _REVIEWED_WIDTH.get(c.res)
                if w is None:
                    res = None
                    break
            else:
                continue
            if c.bb in loops:
                looped += w
            elif b.path(0, oc.returns(), set(oc.fail_blocks) | {c.bb}) is None:
                total += w
            else:
                res = None      # an octet taken on some success paths only: no fixed width
                break
        if res is not None:
            if looped:
                n = self._array_len(b, ga)
                res = None if n is None else total + looped * n
            else:
                res = total or None
        self._width[key] = res
        return res

    # digits only -----------------------------------------------------------------
    def digits_only(self, c):
        return c.is_static and c.res in self.cand and self.digits_only_fn(c.res)

    def digits_only_fn(self, name):
        if name in self._dig:
            return self._dig[name]
        self._dig[name] = False
        f = self.f
        b = f.body(name)
        # (1) every success path goes through a guarded integer parse (in the function, a callee or a closure it
        #     hands to a combinator), or through another digits-only reader
        mp = MustPass(f, lambda c: (c.body.name, c.bb) in self.guarded or
                      (c.is_static and c.res in self.cand and c.res != name and self.digits_only_fn(c.res)), name="digits-only parse")
        ok = mp.holds(name)
        if not ok:
            # (2) every octet taken is itself tested to be a digit before any success return
            ok, det = _each_octet_is_digit(f, b, self)
            if not ok:
                # (3) the number is computed by a fallible fold over all the octets taken whose step can only succeed
                #     on an ASCII digit
                ok, det3 = _number_is_digit_fold(f, b, self)
                if not ok:
                    self.why[name] = {"no_guarded_parse": K.why(f, mp, name), "per_octet": det, "fold": det3}
        self._dig[name] = ok
        return ok


def _digit_literal_edges(f, bd, sym, bb, call_bb, consts):
    """Edges of the switch at bb on which the octet produced by the take_u8 call in block `call_bb` is known to lie in
    b'0'..=b'9' — returns (kind, edges) with kind 'digit' (the whole fact), 'lo' (48 <= c) or 'hi' (c <= 57)."""
    from engine import orderlogic as OL
    t = bd.term(bb)
    if t["t"] != "switch" or t.get("dty") != "bool":
        return None
    e = switch_bool_edges(bd, bb)
    if e is None:
        return None
    d = K.fold_consts(strip_deep(sym.operand(t["discr"])), consts)

    def mine(x):
        x = _peel_payload(x)
        return x[0] == "call" and (x[3] or {}).get("name") == "take_u8" and (x[3] or {}).get("bb") == call_bb
    a = OL.atom(d)
    truth = True
    while a[0] == "not":
        a, truth = a[1], not truth
    if a[0] == "cmp":
        op, x, y = a[1], a[2], a[3]
        if op in (">", ">="):
            op, x, y = {">": "<", ">=": "<="}[op], y, x
        if op not in ("<", "<="):
            return None
        # x op y
        if mine(y) and strip_deep(x)[0] == "const":
            v = strip_deep(x)[1]
            lo = v + 1 if op == "<" else v          # holds: c >= lo ; negation: c <= lo - 1
            if lo == 48:
                return ("lo", [(bb, e[1] if truth else e[0])])
            if lo - 1 == 57:
                return ("hi", [(bb, e[0] if truth else e[1])])
        if mine(x) and strip_deep(y)[0] == "const":
            v = strip_deep(y)[1]
            hi = v - 1 if op == "<" else v          # holds: c <= hi ; negation: c >= hi + 1
            if hi == 57:
                return ("hi", [(bb, e[1] if truth else e[0])])
            if hi + 1 == 48:
                return ("lo", [(bb, e[0] if truth else e[1])])
            # c.wrapping_sub(b'0') < 10
        xs = strip_deep(x)
        if xs[0] == "call" and (xs[3] or {}).get("name") == "wrapping_sub" and len(xs[2]) == 2 and mine(xs[2][0]) and \
                _const_is(xs[2][1], 48) and strip_deep(y)[0] == "const" and \
                (strip_deep(y)[1] - (1 if op == "<" else 0)) == 9:
            return ("digit", [(bb, e[1] if truth else e[0])])
        return None
    dd = strip_deep(d)
    while dd[0] == "un" and dd[1] == "Not":
        dd = strip_deep(dd[2])
    if dd[0] == "call" and _std_call(dd):
        nm = dd[3].get("name")
        if nm == "is_ascii_digit" and dd[2] and mine(dd[2][0]):
            return ("digit", [(bb, e[1] if truth else e[0])])
        if nm == "is_digit" and len(dd[2]) == 2 and mine(dd[2][0]) and _const_is(dd[2][1], 10):
            return ("digit", [(bb, e[1] if truth else e[0])])
        if nm == "contains" and len(dd[2]) == 2 and mine(dd[2][1]):
            rg = strip_deep(dd[2][0])          # (b'0'..=b'9').contains(&c) / (b'0'..b':').contains(&c)
            lo = hi = None
            if rg[0] == "call" and (rg[3] or {}).get("name") == "new" and "RangeInclusive" in (rg[1] or "") and len(rg[2]) == 2:
                lo, hi = strip_deep(rg[2][0]), strip_deep(rg[2][1])
                if lo[0] == hi[0] == "const" and (lo[1], hi[1]) == (48, 57):
                    return ("digit", [(bb, e[1] if truth else e[0])])
            if rg[0] == "agg" and rg[1].endswith("ops::Range") and len(rg[3]) == 2:
                fs = {str(k_): strip_deep(v_) for k_, v_ in rg[3]}
                if fs.get("start", ("",))[0] == "const" and fs.get("end", ("",))[0] == "const" and \
                        (fs["start"][1], fs["end"][1]) == (48, 58):
                    return ("digit", [(bb, e[1] if truth else e[0])])
        if nm in ("is_some", "is_none") and dd[2]:
            inner = strip_deep(dd[2][0])
            if inner[0] == "call" and (inner[3] or {}).get("name") == "to_digit" and len(inner[2]) == 2 and \
                    mine(inner[2][0]) and _const_is(inner[2][1], 10):
                some = (nm == "is_some") == truth
                return ("digit", [(bb, e[1] if some else e[0])])
    return None


def _each_octet_is_digit(f, b, readers):
    """Every octet the reader takes is tested to be an ASCII digit on every success path (`c.is_ascii_digit()`,
    `b'0' <= c && c <= b'9'`, a `b'0'..=b'9'` pattern, `(c as char).to_digit(10)` matched for Some)."""
    oc = outcome(b)
    sym = oc.sym
    consts = getattr(f, "consts", {})
    takes = [c for c in b.calls() if c.name == "take_u8" and not b.is_cleanup(c.bb)]
    others = [c for c in b.calls() if c.is_static and c.res in readers.cand and c.res != b.name and not b.is_cleanup(c.bb)]
    if not takes and not others:
        return False, "takes no octet"
    for c in others:
        if not readers.digits_only_fn(c.res):
            return False, "%s is not digits-only" % short(c.res)
    rets = oc.returns()
    thr = _threaded_succs(b)
    for c in takes:
        cuts = {"digit": set(), "lo": set(), "hi": set()}
        for bi, blk in enumerate(b.blocks):
            if blk["term"]["t"] != "switch" or blk.get("cleanup"):
                continue
            r = _digit_literal_edges(f, b, sym, bi, c.bb, consts)
            if r:
                cuts[r[0]].update(r[1])
            else:
                # `match (c as char).to_digit(10) { Some(d) => .., None => fail }`
                t = blk["term"]
                d = strip(sym.operand(t["discr"]))
                if d[0] == "discr":
                    inner = _peel_payload(d[1])
                    if inner[0] == "call" and (inner[3] or {}).get("name") == "to_digit" and len(inner[2]) == 2 and \
                            _const_is(inner[2][1], 10):
                        x = _peel_payload(inner[2][0])
                        if x[0] == "call" and (x[3] or {}).get("name") == "take_u8" and (x[3] or {}).get("bb") == c.bb:
                            for v, tb in t["targets"]:
                                if v == 1:
                                    cuts["digit"].add((bi, tb))
        def cut(edges):
            # once the octet is taken, neither a success return nor the next octet is reached without the test
            if not edges:
                return False
            seen = _reach(thr, thr.get(c.bb, ()), set(oc.fail_blocks), edges)
            return not (seen & set(rets)) and c.bb not in seen
        if cut(cuts["digit"]) or (cut(cuts["lo"]) and cut(cuts["hi"])):
            continue
        # the value is only used as the payload of to_digit(10)? (ok_or / `?` on it)
        return False, {"octet_taken_at": c.where(), "digit_tests_found": {k: sorted(v) for k, v in cuts.items()}}
    return True, None


# iterators that yield every element of the octet sequence they were made from, each once: `s.iter()`, `.copied()`,
# `.cloned()`, an array by value (anything that skips, takes, chains, reverses a part or maps is not in this list)
_WHOLE_U8_ITER = re.compile(r"^((std|core)::iter::(Copied|Cloned)<)?(std|core)::slice::Iter<'\w+, u8>>?$|"
                            r"^(std|core)::array::IntoIter<u8, \w+>$")
_ELEMENT_KEEPING = ("iter", "into_iter", "copied", "cloned", "by_ref", "as_slice", "as_ref", "borrow", "deref")
_BAD_VARIANTS = ("None", "Err", "Break")


def _success_requires(t):
    """The value that must be Some / Ok / Continue for `t` to be: `x.ok_or_else(e)`, `x.map_err(f)`, `x.map(g)`,
    `x.and_then(g)`, `x?` re-wrapped (`Ok(x?)`, `Some(v)` for the `v` of `Some(v) = x`, also converted with `as`) all
    succeed only if x does.  None when t is a success made of anything else (a literal, `x.unwrap_or(d)`, arithmetic)."""
    def payload_of(v):
        v = strip_deep(v)
        while v[0] == "cast":
            v = strip_deep(v[1])
        if v[0] == "field" and str(v[2]) == "0" and v[1][0] == "variant" and v[1][2] in _GOOD_VARIANTS:
            return strip_deep(v[1][1])
        return None
    t = strip_deep(t)
    for _ in range(24):
        # (a value that is borrowed mutably on the way — `r.insert(0)` — is not looked through)
        if t[0] == "agg" and t[2] in _GOOD_VARIANTS and len(t[3]) == 1:
            t = payload_of(t[3][0][1])
            if t is None:
                return None
        elif _std_call(t) and t[2] and t[3].get("name") in _PAYLOAD_KEEPING | {"map", "and_then"}:
            t = strip_deep(t[2][0])
        else:
            return t
    return None


def _step_accepts(f, g):
    """The octets on which a fold step `(accumulator, element) -> Option / Result / ControlFlow` (closure or function
    item) can hand on a value, by abstract interpretation of the step with the accumulator unknown: every path that is
    not seen to return None / Err / Break counts as handing on (so the set can only be too large).  -> (set, problem)"""
    g = strip_deep(g)
    body = f.body(g[1]) if g[0] in ("closure", "fnref") else None
    if body is None:
        return None, "the step is not a closure or function of the crate: %s" % render(g)[:120]
    ai = 2 if g[0] == "closure" else 1          # closures take their environment first
    if body.arg_count != ai + 1:
        return None, "the step does not take (accumulator, element)"
    it = absint.Interp(f, inline=lambda n: n in f.bodies and f.bodies[n].file == body.file)
    args = [None] * body.arg_count
    args[ai] = absint.mk_obj("c", "u8")
    try:
        paths = it.run_body(body, args)
    except absint.Unsupported as e:
        return None, str(e)
    acc = set()
    for p in paths:
        if p.outcome[0] == "panic":
            continue                            # no number comes out of a panic
        v = p.outcome[1] if p.outcome[0] == "return" else None
        if v is not None and getattr(v, "k", None) == "variant" and getattr(v, "vname", None) in _BAD_VARIANTS:
            continue
        lo, hi = p.zone.bounds("c") if "c" in p.zone.syms else (0, 255)
        acc.update(range(int(max(0, lo)), int(min(255, hi)) + 1))
    return frozenset(acc), None


def _mut_borrows(b, l):
    """How often the local l is borrowed mutably."""
    n = 0
    for blk in b.blocks:
        if blk.get("cleanup"):
            continue
        for st in blk["stmts"]:
            if st["s"] == "assign" and st["rv"]["r"] in ("ref", "rawptr") and \
                    (st["rv"].get("mut") or st["rv"].get("kind") == "Mut") and st["rv"]["pl"]["l"] == l:
                n += 1
    return n


def _number_is_digit_fold(f, b, readers):
    """Every value the reader returns as Ok is the outcome of `try_fold` over the whole of the one octet buffer the
    reader fills from the source, with a step that hands on a value only for an ASCII digit.  try_fold succeeds only
    if the step did on every element (its documented contract), so a number comes out only when all octets are
    digits — however the step says so (`is_ascii_digit().then(..)`, `if !.. { return None }`, a `b'0'..=b'9'`
    pattern with Some/None or Ok/Err arms): the step is evaluated for all 256 octet values.  A step the abstract
    interpreter cannot bound is taken to hand on everything (the rule then stays unestablished)."""
    vals = success_values(b)
    if not vals:
        return False, "nothing returned as Ok"
    # the octets go into the only [u8; N] variable of the body (unnamed locals of that type are the compiler's copies
    # of it, `s.into_iter()`), and as many are taken as it holds (the width is N)
    arrays = {l for l in range(len(b.locals)) if re.match(r"^\[u8; \w+\]$", b.locals[l]["ty"] or "")}
    if len({b.locals[l]["ty"] for l in arrays}) == 1:
        arrays = {l for l in arrays if b.local_name(l)}
    if len(arrays) != 1:
        return False, "not exactly one octet buffer"
    for c in b.calls():
        if not b.is_cleanup(c.bb) and c.is_static and c.res in readers.cand and c.res != b.name:
            return False, "octets are also taken by %s" % short(c.res)
    buf = next(iter(arrays))
    n = re.match(r"^\[u8; (\w+)\]$", b.locals[buf]["ty"]).group(1)
    if n.isdigit() and readers._w(b.name, ()) != int(n):
        return False, "takes %s octet(s) for a buffer of %s" % (readers._w(b.name, ()), n)
    for bb, _, t in vals:
        x = _success_requires(t)
        if x is None or x[0] != "call" or not _std_call(x) or x[3].get("name") != "try_fold" or \
                not (x[3].get("trait") or "").endswith("Iterator") or len(x[2]) != 3:
            return False, {"returned_as_Ok": render(t)[:200], "problem": "not the outcome of a try_fold"}
        ga = x[3].get("ga") or ()
        if not ga or not _WHOLE_U8_ITER.match(ga[0]):
            return False, {"folded": ga[0] if ga else None, "problem": "not an iterator over all octets of a buffer"}
        r = strip_deep(x[2][0])
        while True:
            if r[0] == "mvar" and r[2] != buf:
                # the iterator is borrowed mutably by the fold and by nothing else (no `it.next()` in front of it)
                if _mut_borrows(b, r[2]) != 1:
                    return False, {"folded": render(x[2][0])[:160], "problem": "the iterator is advanced outside the fold"}
                r = strip_deep(r[3])
            elif _std_call(r) and r[2] and r[3].get("name") in _ELEMENT_KEEPING:
                r = strip_deep(r[2][0])
            else:
                break
        if r[0] not in ("var", "mvar") or r[2] != buf:
            return False, {"folded": render(x[2][0])[:160], "problem": "not the whole octet buffer"}
        cls, prob = _step_accepts(f, x[2][2])
        if cls is None:
            return False, {"step": render(x[2][2])[:120], "problem": prob}
        if not cls <= _DIGITS:
            return False, {"step": render(x[2][2])[:120], "hands_on_a_value_for": absint.fmt_class(cls)}
    return True, None


def _decoder_bodies(f, readers):
    out = []
    for n, b in sorted(f.bodies.items()):
        if not n.startswith(X) or not _in_x509(b):
            continue
        two = [c for c in b.calls() if not b.is_cleanup(c.bb) and readers.width(c) == 2]
        if len(two) >= 5:
            out.append(b)
    return out


_CHRONO_DATE_CTORS = ("ymd_opt", "with_ymd_and_hms", "from_ymd_opt")


def _calendar_fns(f):
    """The function(s) that turn the six numbers into a Time: Time::from_parts if it is still there, else whatever
    fallible function of x509.rs builds a Time through chrono's checked date constructors."""
    b = f.body(X + "Time::from_parts")
    if b is not None:
        return [b]
    out = []
    for n, b in sorted(f.bodies.items()):
        if not n.startswith(X) or "{closure" in n or not _in_x509(b):
            continue
        if not re.match(r"^std::result::Result<repository::x509::Time, ", b.ret_ty or ""):
            continue
        if any(c.name in _CHRONO_DATE_CTORS and c.krate == "chrono" for c in b.calls() if not b.is_cleanup(c.bb)):
            out.append(b)
    return out


# what a calendar validator may return as Ok, in the canonical form of _Canon (`#k` = k-th of the six parts)
_CALENDAR_FORMS = [re.compile(x) for x in (
    r"^Ok\(Time\(good\((\w+::)?and_hms_opt\(good\((\w+::)?ymd_opt\(Utc\(\), #0, #1, #2\)\), #3, #4, #5\)\)\)\)$",
    r"^Ok\(Time\(good\((\w+::)?with_ymd_and_hms\(Utc\(\), #0, #1, #2, #3, #4, #5\)\)\)\)$",
    r"^Ok\(Time\((\w+::)?and_utc\(good\((\w+::)?and_hms_opt\(good\((\w+::)?from_ymd_opt\(#0, #1, #2\)\), #3, #4, #5\)\)\)\)\)$",
)]


class _Canon:
    """Canonical text of the values a fallible function returns as Ok.  `good(X)` is the payload X carries when it is
    Some / Ok / LocalResult::Single — however it was taken out (match, let-else, if-let, `?`, ok_or(_else), map,
    and_then with a closure); `#k` is the k-th component of the parts (field k of a tuple parameter, or the k-th of
    several parameters), whatever the parameter is called or however its pattern destructures it."""

    def __init__(self, f, body, slots=None):
        self.f = f
        self.root = body
        self.env = [{}]
        self.comps = {}
        n = body.arg_count
        names = [body.local_name(i) or "_%d" % i for i in range(1, n + 1)]
        self.names = names
        # which component is which: read off the call sites (`slots`: access path -> k, the component that carries the
        # k-th field read from the wire); only when no call site could be read, by position (six parameters / the
        # fields of a tuple parameter in order)
        self.slots = slots
        self.tuple_param = None
        if not slots:
            if n >= 6:
                for k, nm in enumerate(names[-6:]):
                    self.comps[("param", nm)] = "#%d" % k
            self.tuple_param = names[-1] if 1 <= n < 6 else None
        self.in_root = True

    def _slot(self, t):
        """`#k` if t is the component of the parameters that the callers fill with the k-th field."""
        if not self.slots or not self.in_root:
            return None
        path = []
        while t[0] == "field" and strip_deep(t[1])[0] != "variant":
            path.append(str(t[2]))
            t = strip_deep(t[1])
        if t[0] != "param" or t[1] not in self.names or ("param", t[1]) in self.env[-1]:
            return None
        k = self.slots.get((self.names.index(t[1]),) + tuple(reversed(path)))
        return None if k is None else "#%d" % k

    def success_forms(self):
        out = []
        for _, _, t in success_values(self.root):
            out.append("Ok(%s)" % self.payload(t))
        return out

    # values -------------------------------------------------------------------------------
    def val(self, t, depth=0):
        t = strip_deep(t)
        if depth > 30:
            return "…"
        k = t[0]
        if k in ("param", "field"):
            v = self._slot(t)
            if v is not None:
                return v
        if k in ("param", "upvar"):
            v = self.env[-1].get((k, t[1]))
            if v is not None:
                return v
            if self.in_root and (k, t[1]) in self.comps:
                return self.comps[(k, t[1])]
            return render(t)
        if k == "mvar":
            return self.val(t[3], depth + 1)
        if k == "field":
            base = strip_deep(t[1])
            if base[0] == "variant" and str(t[2]) == "0":
                if base[2] in _GOOD_VARIANTS:
                    return self.payload(base[1], depth + 1)
                return "%s(%s)" % (base[2], self.val(base[1], depth + 1))
            if self.in_root and base[0] == "param" and base[1] == self.tuple_param and str(t[2]).isdigit() and \
                    ("param", base[1]) not in self.env[-1]:
                return "#%s" % t[2]
            return "%s.%s" % (self.val(base, depth + 1), t[2])
        if k == "agg":
            if t[1] in ("tuple", "array"):
                return "%s(%s)" % (t[1], ", ".join(self.val(v, depth + 1) for _, v in t[3]))
            return "%s(%s)" % (t[2] or short(t[1]), ", ".join(self.val(v, depth + 1) for _, v in t[3]))
        if k == "cast":
            return "(%s as %s)" % (self.val(t[1], depth + 1), t[2])
        if k == "call":
            info = t[3] or {}
            nm = info.get("name")
            # a one-line constructor of the crate (`Time::new(dt)`) is the literal it builds
            cb = self.f.body(t[1])
            if cb is not None and len(cb.blocks) <= 2 and cb.arg_count == len(t[2]) and "{closure" not in t[1]:
                sv = success_values(cb)
                if len(sv) == 1 and not any(c.is_static for c in cb.calls()):
                    m = {("param", cb.local_name(i + 1) or "_%d" % (i + 1)): self.val(a, depth + 1) for i, a in enumerate(t[2])}
                    return self._inside(cb, m, lambda: self.val(sv[0][2], depth + 1))
            label = nm if info.get("krate") == "chrono" and nm else render(("call", t[1], (), t[3]))[:-2]
            return "%s(%s)" % (label, ", ".join(self.val(a, depth + 1) for a in t[2]))
        if k == "bin":
            return "%s(%s, %s)" % (t[1], self.val(t[2], depth + 1), self.val(t[3], depth + 1))
        if k == "un":
            return "%s(%s)" % (t[1], self.val(t[2], depth + 1))
        return render(t)

    def _inside(self, body, mapping, fn):
        self.env.append(mapping)
        was = self.in_root
        self.in_root = False
        try:
            return fn()
        finally:
            self.env.pop()
            self.in_root = was

    def _apply(self, g, x, depth):
        """Text of g(x) for a function value g (constructor, function item or closure) and the text x."""
        g = strip_deep(g)
        if g[0] == "fnref":
            if g[1] in getattr(self.f, "adts", {}) or self.f.body(g[1]) is None:
                return "%s(%s)" % (short(g[1]).split("::")[-1], x)
            cb = self.f.body(g[1])
            caps = {}
        elif g[0] == "closure":
            cb = self.f.body(g[1])
            if cb is None:
                return "%s(%s)" % (render(g), x)
            caps = self._captures(cb, g)
        else:
            return "%s(%s)" % (render(g), x)
        first = 2 if g[0] == "closure" else 1
        m = dict(caps)
        if cb.arg_count >= first:
            m[("param", cb.local_name(first) or "_%d" % first)] = x
        vals = [t for _, _, t in success_values(cb)]
        if not vals:
            return "%s(%s)" % (render(g), x)
        return self._inside(cb, m, lambda: " | ".join(sorted({self._ret(cb, t, depth + 1) for t in vals})))

    def _ret(self, cb, t, depth):
        return self.val(t, depth)

    def _captures(self, cb, ct):
        m = {}
        for name, pl in cb.rec.get("upvars", []):
            idx = None
            for pe in pl.get("p", []):
                if pe and pe[0] == "f":
                    try:
                        idx = int(pe[1])
                    except (TypeError, ValueError):
                        idx = None
                    break
            if idx is not None and idx < len(ct[2]):
                m[("upvar", name)] = self.val(ct[2][idx])
        return m

    # payloads ------------------------------------------------------------------------------
    def payload(self, t, depth=0):
        """Text of the value t carries when it is Some / Ok / Single."""
        t = strip_deep(t)
        if depth > 30:
            return "…"
        if t[0] == "mvar":
            return self.payload(t[3], depth + 1)
        if t[0] == "agg" and t[2] in _GOOD_VARIANTS and len(t[3]) == 1:
            return self.val(t[3][0][1], depth + 1)
        if _std_call(t) and t[2]:
            nm = t[3].get("name")
            if nm in _PAYLOAD_KEEPING:
                return self.payload(t[2][0], depth + 1)
            if nm == "map" and len(t[2]) == 2:
                return self._apply(t[2][1], self.payload(t[2][0], depth + 1), depth + 1)
            if nm == "and_then" and len(t[2]) == 2:
                g = strip_deep(t[2][1])
                x = self.payload(t[2][0], depth + 1)
                cb = self.f.body(g[1]) if g[0] in ("closure", "fnref") else None
                if cb is not None:
                    first = 2 if g[0] == "closure" else 1
                    m = self._captures(cb, g) if g[0] == "closure" else {}
                    if cb.arg_count >= first:
                        m[("param", cb.local_name(first) or "_%d" % first)] = x
                    vals = [v for _, _, v in success_values(cb)]
                    if vals:
                        return self._inside(cb, m, lambda: " | ".join(sorted({self.payload(v, depth + 1) for v in vals})))
        return "good(%s)" % self.val(t, depth + 1)


# ---------------------------------------------------------------------------
# which component of what the decoders hand to the calendar validator is which

def _ctor_literal(f, t):
    """A call of a small straight-line constructor of the crate (`TimeParts::new(y, m, ..)`) read as the literal it
    builds, its parameters replaced by the arguments."""
    if t[0] != "call" or "{closure" in t[1]:
        return None
    cb = f.body(t[1])
    if cb is None or cb.arg_count != len(t[2]) or len(cb.blocks) > 2 or any(c.is_static for c in cb.calls()):
        return None
    sv = success_values(cb)
    if len(sv) != 1:
        return None
    m = {cb.local_name(i + 1) or "_%d" % (i + 1): a for i, a in enumerate(t[2])}
    return strip_deep(K._subst(strip_deep(sv[0][2]), m))


def _is_record(f, t):
    return t[0] == "agg" and (t[1] in ("tuple", "array", "<updated>") or
                              (getattr(f, "adts", {}).get(t[1]) or {}).get("kind") == "Struct")


def _flatten(f, t, path, out, skip=(), depth=0):
    """The leaves of a value built from tuples / struct literals / constructors: out[(access path)] = term."""
    t = strip_deep(t)
    if depth < 5:
        lit = _ctor_literal(f, t)
        if lit is not None:
            t = lit
    if _is_record(f, t) and depth < 5:
        named = [str(fl) for fl, _ in t[3] if fl != ".."]
        for fl, v in t[3]:
            if fl == "..":
                _flatten(f, v, path, out, skip=tuple(named), depth=depth + 1)
            elif str(fl) not in skip:
                _flatten(f, v, path + (str(fl),), out, depth=depth + 1)
        return
    out.setdefault(path, t)


class _Sites:
    """Every call of a calendar validator in a decoder, on every path that reaches it: the components handed over,
    each identified by the field read it is computed from, in the order the fields are read from the wire."""

    def __init__(self, f, readers, cal_names):
        self.f = f
        self.readers = readers
        self.cal = set(cal_names)
        self._memo = {}

    def _read_of(self, x):
        if x[0] == "call" and x[1] in self.readers.cand:
            return (x[3] or {}).get("bb")
        return None

    def width_of(self, x):
        return self.readers._w(x[1], tuple((x[3] or {}).get("ga") or ())) or _REVIEWED_WIDTH.get(x[1])

    def of(self, b):
        """[(call, conds, defs, parts)]; parts = [(access path, value, read call term)] in wire order, or None when the
        six components cannot be told apart.  Raises _Undecided when the paths cannot be enumerated."""
        if b.name in self._memo:
            r = self._memo[b.name]
            if isinstance(r, _Undecided):
                raise r
            return r
        goals = {c.bb: c for c in b.calls() if not b.is_cleanup(c.bb) and c.is_static and c.res in self.cal}
        try:
            ps = _order_paths(b, goals=set(goals), max_paths=4000) if goals else []
        except _Undecided as e:
            self._memo[b.name] = e
            raise
        consts = getattr(self.f, "consts", {})
        reach = {}
        out = []
        for conds, defs in ps:
            c = goals[defs["@"]]
            leaves = {}
            for i, a in enumerate(K.arg_terms(c)):
                _flatten(self.f, K.fold_consts(_resolve(a, defs), consts), (i,), leaves)
            comps = []
            ok = True
            for path, v in leaves.items():
                rd = {}
                for x in walk(v):
                    bb = self._read_of(x)
                    if bb is not None:
                        rd[bb] = x
                if len(rd) > 1:
                    ok = False
                elif rd:
                    bb, x = next(iter(rd.items()))
                    comps.append((path, v, x, bb))
            bbs = [x[3] for x in comps]
            if not ok or len(comps) != 6 or len(set(bbs)) != 6:
                out.append((c, conds, defs, None))
                continue
            for bb in bbs:
                if bb not in reach:
                    reach[bb] = set(b.reachable(bb)) - {bb}
            comps.sort(key=lambda x: -sum(1 for o in bbs if o in reach[x[3]]))
            total = all(comps[j][3] in reach[comps[i][3]] and comps[i][3] not in reach[comps[j][3]]
                        for i in range(6) for j in range(i + 1, 6))
            out.append((c, conds, defs, [x[:3] for x in comps] if total else None))
        self._memo[b.name] = out
        return out

    def slots(self, bodies):
        """{calendar validator: {access path: k}} agreed by all call sites that can be read, and the sites that
        disagree with the first one: [(decoder, callee, its map, the reference map)]."""
        ref, bad = {}, []
        for b in bodies:
            try:
                sites = self.of(b)
            except _Undecided:
                continue
            for c, _, _, parts in sites:
                if parts is None:
                    continue
                m = {path: k for k, (path, _, _) in enumerate(parts)}
                if c.res not in ref:
                    ref[c.res] = m
                elif ref[c.res] != m and not any(x[0] is b and x[1] == c.res for x in bad):
                    bad.append((b, c.res, m, ref[c.res]))
        return ref, bad


# ---------------------------------------------------------------------------
# integer parses of octets

def _closure_sites(f, cname):
    """Where a closure is handed to a call: [(body, call site, closure term)]."""
    idx = getattr(f, "_c17_closure_sites", None)
    if idx is None:
        idx = {}
        for n, b in f.bodies.items():
            if not n.startswith(X) or not _in_x509(b):
                continue
            s = K.sym_of(b)
            for c in b.calls():
                if b.is_cleanup(c.bb):
                    continue
                for a in c.args:
                    t = strip(s.operand(a))
                    if t[0] == "closure":
                        idx.setdefault(t[1], []).append((b, c, t))
        try:
            f._c17_closure_sites = idx
        except AttributeError:
            pass
    return idx.get(cname, [])


def _int_parse_type(c):
    if not c.is_static or c.krate not in ("core", "std", "alloc"):
        return None
    ga = list(c.ga or ())
    if c.name == "from_str" and c.trait == "std::str::FromStr" and ga and ga[0] in _INT_TYS:
        return ga[0]
    if c.name == "parse" and re.match(r"^(core|std)::str::", c.fn or "") and ga and ga[0] in _INT_TYS:
        return ga[0]
    if c.name == "from_str_radix":
        m = re.search(r"<impl (\w+)>::from_str_radix$", c.res or c.fn or "")
        if m and m.group(1) in _INT_TYS:
            return m.group(1)
    return None


def _text_sources(f, b, t, bb, depth=0):
    """Where the text `t` (in body b, used in block bb) is made from octets: [(body, block that uses it, octet buffer)]
    for every `str::from_utf8(buffer)` it is the Ok payload of — followed through closure parameters (the payload
    of the receiver of the combinator the closure is handed to), captures and function parameters (the callers)."""
    t = _peel_payload(t)
    if t[0] == "call" and (t[3] or {}).get("name") in ("from_utf8", "from_utf8_unchecked", "from_utf8_mut") and t[2]:
        return [(b, bb, strip_deep(t[2][0]))]
    if depth > 3:
        return []
    out = []
    is_closure = "{closure" in b.name.rsplit("::", 1)[-1]
    if t[0] == "param" and is_closure:
        for pb, pc, ct in _closure_sites(f, b.name):
            args = K.arg_terms(pc)
            if args and strip_deep(args[0])[0] != "closure":
                out += _text_sources(f, pb, args[0], pc.bb, depth + 1)
    elif t[0] == "upvar" and is_closure:
        for pb, pc, ct in _closure_sites(f, b.name):
            for name, pl in b.rec.get("upvars", []):
                if name != t[1]:
                    continue
                for pe in pl.get("p", []):
                    if pe and pe[0] == "f":
                        try:
                            i = int(pe[1])
                        except (TypeError, ValueError):
                            break
                        if i < len(ct[2]):
                            out += _text_sources(f, pb, ct[2][i], pc.bb, depth + 1)
                        break
    elif t[0] == "param":
        names = [b.local_name(i) or "_%d" % i for i in range(1, b.arg_count + 1)]
        if t[1] in names:
            i = names.index(t[1])
            for n2, b2 in f.bodies.items():
                if not n2.startswith(X) or not _in_x509(b2):
                    continue
                for c2 in b2.calls():
                    if c2.is_static and c2.res == b.name and not b2.is_cleanup(c2.bb) and i < len(c2.args):
                        out += _text_sources(f, b2, K.arg_terms(c2)[i], c2.bb, depth + 1)
    return out


def _buffer_sig(t):
    out = set()
    for x in walk(strip_deep(t)):
        if x[0] in ("param", "upvar"):
            out.add((x[0], x[1]))
        elif x[0] in ("var", "mvar"):
            out.add(("local", x[2]))
        elif x[0] == "call" and (x[3] or {}).get("name") == "take_u8":
            out.add(("take", (x[3] or {}).get("bb")))
    return out


def _pred_class(f, pred):
    """The set of octets a predicate (function item or closure) accepts."""
    pred = strip_deep(pred)
    if pred[0] == "fnref":
        if pred[1].endswith("::is_ascii_digit"):
            return _DIGITS
        if f.body(pred[1]) is None:
            return None
        cls, _ = absint.byte_class(f, pred[1], arg_index=0)
        return None if cls is None else frozenset(cls)
    if pred[0] == "closure" and f.body(pred[1]) is not None:
        cls, _ = absint.byte_class(f, pred[1], arg_index=1)
        return None if cls is None else frozenset(cls)
    return None


def _all_digits_edges(f, bd, buf):
    """Edges of bd on which every octet of `buf` is known to be an ASCII digit: `buf.iter().all(is digit)` true,
    `any(is not digit)` false, `find / position(is not digit)` None."""
    sym = K.sym_of(bd)
    want = _buffer_sig(buf)
    edges = set()

    def quant(t):
        """(name, predicate class) if t is all/any/find/position over the buffer."""
        t = strip_deep(t)
        if t[0] != "call" or (t[3] or {}).get("name") not in ("all", "any", "find", "position") or len(t[2]) != 2 or \
                not ((t[3] or {}).get("trait") or "").endswith("Iterator"):
            return None
        if want and not (_buffer_sig(t[2][0]) & want):
            return None
        return t[3]["name"], _pred_class(f, t[2][1])
    for bi, blk in enumerate(bd.blocks):
        t = blk["term"]
        if t["t"] != "switch" or blk.get("cleanup"):
            continue
        d = strip_deep(sym.operand(t["discr"]))
        if t.get("dty") == "bool":
            e = switch_bool_edges(bd, bi)
            if e is None:
                continue
            pos = True
            while d[0] == "un" and d[1] == "Not":
                pos = not pos
                d = strip_deep(d[2])
            q = quant(d)
            if q and q[0] == "all" and q[1] == _DIGITS:
                edges.add((bi, e[1] if pos else e[0]))
            elif q and q[0] == "any" and q[1] == _NONDIGITS:
                edges.add((bi, e[0] if pos else e[1]))
            elif d[0] == "call" and (d[3] or {}).get("name") in ("is_none", "is_some") and d[2]:
                q = quant(d[2][0])
                if q and q[0] in ("find", "position") and q[1] == _NONDIGITS:
                    none_true = ((d[3]["name"] == "is_none") == pos)
                    edges.add((bi, e[1] if none_true else e[0]))
        elif d[0] == "discr":
            from engine.rules import peel_variant_keeping
            q = quant(peel_variant_keeping(d[1]))
            if q and q[0] in ("find", "position") and q[1] == _NONDIGITS:
                for v, tb in bd.switch_edges(bi):
                    if v == 0:
                        edges.add((bi, tb))
    return edges


def _int_parses(f):
    """[(body, call, integer type, [(anchor body, anchor block, buffer)], [guarded?])] for every std integer parse in
    x509.rs whose text is made from octets."""
    out = []
    for n, b in sorted(f.bodies.items()):
        if not n.startswith(X) or not _in_x509(b):
            continue
        for c in b.calls():
            if b.is_cleanup(c.bb):
                continue
            ity = _int_parse_type(c)
            if ity is None or not c.args:
                continue
            srcs = _text_sources(f, b, K.arg_terms(c)[0], c.bb)
            if not srcs:
                continue
            oks = []
            for ab, abb, buf in srcs:
                edges = _all_digits_edges(f, ab, buf)
                oks.append(bool(edges) and abb not in ab.reachable(0, removed_edges=edges))
            out.append((b, c, ity, srcs, oks))
    return out


# ---------------------------------------------------------------------------
# small loop-free functions decided on every ordering of the quantities they compare

def _map_term(t, fn):
    """Rebuild a term bottom-up, fn(node) -> replacement or None."""
    r = fn(t)
    if r is not None:
        return r
    k = t[0]
    if k == "field":
        return ("field", _map_term(t[1], fn), t[2], t[3] if len(t) > 3 else None)
    if k == "variant":
        return ("variant", _map_term(t[1], fn), t[2])
    if k == "mvar":
        return ("mvar", t[1], t[2], _map_term(t[3], fn))
    if k == "index":
        return ("index", _map_term(t[1], fn), _map_term(t[2], fn))
    if k == "call":
        return ("call", t[1], tuple(_map_term(a, fn) for a in t[2]), t[3])
    if k == "bin":
        return ("bin", t[1], _map_term(t[2], fn), _map_term(t[3], fn))
    if k == "un":
        return ("un", t[1], _map_term(t[2], fn))
    if k == "cast":
        return ("cast", _map_term(t[1], fn), t[2])
    if k in ("discr", "len"):
        return (k, _map_term(t[1], fn))
    if k == "agg":
        return ("agg", t[1], t[2], tuple((f_, _map_term(v, fn)) for f_, v in t[3]))
    return t


class _Undecided(Exception):
    pass


def _order_paths(body, max_paths=600, goals=None):
    """All acyclic entry→return paths of a loop-free body (with `goals`: entry→goal block, defs['@'] = that block):
    [(conds, defs)].  conds: ('atom', orderlogic atom, truth) |
    ('cmp3', x, y, allowed orderings ⊆ {-1, 0, 1}) | ('opaque', text); defs: {local: term last assigned on the path}
    (for locals with several definitions, incl. the return place)."""
    from engine import orderlogic as OL
    sym = K.sym_of(body)
    out = []
    stack = [(0, (), {}, frozenset())]
    while stack:
        bb, conds, defs, seen = stack.pop()
        if bb in seen:
            raise _Undecided("loop")
        seen = seen | {bb}
        blk = body.blocks[bb]
        defs = dict(defs)

        def res(t):
            return _resolve(t, defs)
        for st in blk["stmts"]:
            if st["s"] == "assign":
                l = st["pl"]["l"]
                pr = [p_ for p_ in st["pl"]["p"] if p_[0] != "d"]
                if not pr and (l == 0 or l in sym._multi):
                    defs[l] = res(sym.rvalue(st["rv"]))
                    for k2 in [k2 for k2 in defs if isinstance(k2, tuple) and k2[0] == l]:
                        del defs[k2]
                elif len(pr) == 1 and pr[0][0] == "f" and l in sym._multi:
                    defs[(l, str(pr[0][1]))] = res(sym.rvalue(st["rv"]))
        t = blk["term"]
        k = t["t"]
        if goals is not None and bb in goals:
            defs["@"] = bb
            out.append((conds, defs))
            if len(out) > max_paths:
                raise _Undecided("too many paths")
            continue
        if k == "return":
            if goals is not None:
                continue
            out.append((conds, defs))
            if len(out) > max_paths:
                raise _Undecided("too many paths")
        elif k in ("goto", "drop", "assert"):
            stack.append((t["target"], conds, defs, seen))
        elif k == "call":
            if not t["dest"]["p"] and (t["dest"]["l"] == 0 or t["dest"]["l"] in sym._multi):
                defs[t["dest"]["l"]] = res(sym.call(t, bb))
            if t.get("target") is not None:
                stack.append((t["target"], conds, defs, seen))
        elif k == "switch":
            d = res(sym.operand(t["discr"]))
            if t.get("dty") == "bool":
                a = OL.atom(d)
                f_t = None
                for v, tb in t["targets"]:
                    if v == 0:
                        f_t = tb
                if f_t is None:
                    raise _Undecided("odd bool switch")
                stack.append((f_t, conds + (("atom", a, False),), defs, seen))
                stack.append((t["otherwise"], conds + (("atom", a, True),), defs, seen))
            else:
                c3 = None
                if d[0] == "discr":
                    c = strip_deep(d[1])
                    if c[0] == "call" and (c[3] or {}).get("name") == "cmp" and len(c[2]) == 2 and \
                            ((c[3] or {}).get("trait") or "").endswith("cmp::Ord"):
                        c3 = (strip_deep(c[2][0]), strip_deep(c[2][1]))
                listed = []
                for v, tb in t["targets"]:
                    sv = {255: -1, 0xffffffffffffffff: -1, -1: -1, 0: 0, 1: 1}.get(v)
                    listed.append(sv)
                    if c3 and sv is not None:
                        stack.append((tb, conds + (("cmp3", c3[0], c3[1], frozenset([sv])),), defs, seen))
                    else:
                        stack.append((tb, conds + (("opaque", "%s=%s" % (render(d), v)),), defs, seen))
                if c3 and None not in listed:
                    rest = frozenset({-1, 0, 1} - set(listed))
                    if rest:
                        stack.append((t["otherwise"], conds + (("cmp3", c3[0], c3[1], rest),), defs, seen))
                else:
                    stack.append((t["otherwise"], conds + (("opaque", "%s=else" % render(d)),), defs, seen))
        elif k in ("unreachable", "resume", "terminate"):
            pass
        else:
            raise _Undecided(k)
    return out


def _order_value(t, env, leaf):
    """Integer value of an ordered quantity: a leaf (leaf(rendered) -> name in env), or max/min of two such."""
    t = strip_deep(t)
    nm = leaf(t)
    if nm is not None:
        return env[nm]
    if t[0] == "call" and (t[3] or {}).get("name") in ("max", "min") and len(t[2]) == 2 and \
            ((t[3] or {}).get("krate") in ("core", "std")):
        a, b = _order_value(t[2][0], env, leaf), _order_value(t[2][1], env, leaf)
        return max(a, b) if t[3]["name"] == "max" else min(a, b)
    raise _Undecided("not an ordered quantity: " + render(t)[:120])


def _order_cond(c, env, leaf):
    if c[0] == "cmp3":
        x, y = _order_value(c[1], env, leaf), _order_value(c[2], env, leaf)
        return ((x > y) - (x < y)) in c[3]
    if c[0] == "atom":
        def ev(a):
            if a[0] == "const":
                return a[1]
            if a[0] == "not":
                return not ev(a[1])
            if a[0] == "cmp":
                x, y = _order_value(a[2], env, leaf), _order_value(a[3], env, leaf)
                return {"<": x < y, "<=": x <= y, ">": x > y, ">=": x >= y, "==": x == y, "!=": x != y}[a[1]]
            raise _Undecided("tests something that is not a comparison: " + str(a[1])[:120])
        return ev(c[1]) == c[2]
    raise _Undecided("branches on " + c[1][:120])


def _decide_orderings(body, names, judge, pre=None):
    """On every weak ordering of the named quantities exactly the paths whose conditions hold are taken; judge(defs,
    env, leaf) says whether what such a path returns is right.  names: [(regex on the rendered leaf, short name)].
    -> (ok, detail)"""
    import itertools
    try:
        ps = _order_paths(body)
    except _Undecided as e:
        return False, "not decided: %s" % e
    rxs = [(re.compile(rx), nm) for rx, nm in names]

    def leaf(t):
        if pre is not None:
            t = pre(t)
        r = K.alpha(render(t), body)
        for rx, nm in rxs:
            if rx.match(r):
                return nm
        return None
    snames = sorted({nm for _, nm in names})
    n = 0
    try:
        for vals in itertools.product(range(max(2, len(snames))), repeat=len(snames)):
            env = dict(zip(snames, vals))
            taken = [defs for conds, defs in ps if all(_order_cond(c, env, leaf) for c in conds)]
            if not taken:
                return False, {"ordering": env, "problem": "no path"}
            for defs in taken:
                n += 1
                if not judge(defs, env, leaf):
                    return False, {"ordering": env, "returns": render(defs.get(0, ("unknown", "nothing")))[:200]}
    except _Undecided as e:
        return False, "not decided: %s" % e
    return True, {"orderings": len(snames) ** max(2, len(snames)), "paths": len(ps), "evaluations": n}


class _Rescue:
    """Obligations stated by the shared helpers of props/common.py are passed through; one that does not hold in the
    spelling the helper recognises is decided again by a spelling-independent argument given here."""

    def __init__(self, ctx, deciders):
        self._ctx = ctx
        self._deciders = deciders

    def ob(self, rule, key, ok, what, where=None, detail=None, nontrivial=True):
        if not ok and key in self._deciders:
            try:
                r = self._deciders[key]()
            except Exception as e:      # the second argument is optional: failing to make it leaves the verdict as it was
                r = (False, "%s: %s" % (type(e).__name__, e))
            if r and r[0]:
                ok = True
                what += "  [%s]" % r[1]
            else:
                detail = {"as_recognised": detail, "decided_again": r[1] if r else None}
        return self._ctx.ob(rule, key, ok, what, where, _printable(detail), nontrivial)

    def floor(self, rule, name, count, minimum):
        return self.ob(rule, "floor:" + name, count >= minimum,
                       "%s: matched %d instance(s), floor %d" % (name, count, minimum), nontrivial=False)

    def missing(self, rule, key, what):
        return self.ob(rule, key, False, "anchor missing: " + what)

    def __getattr__(self, name):
        return getattr(self._ctx, name)


def _struct_field(t, name, index=None):
    """Field `name` of a struct-valued term: of a literal, of a value with fields updated in place, or a projection."""
    t = strip_deep(t)
    if t[0] == "agg":
        base = None
        for i, (fl, v) in enumerate(t[3]):
            if str(fl) == name:
                return v
            if fl == "..":
                base = v
        if base is not None:
            return _struct_field(base, name, index)
        raise _Undecided("no field %s in %s" % (name, render(t)[:80]))
    return ("field", t, name, None)


def _accessor_is_field(f, t):
    """`x.not_before()` for an accessor that returns the field of that name is the field."""
    def one(x):
        if x[0] == "call" and len(x[2]) == 1 and (x[3] or {}).get("name") in ("not_before", "not_after") and \
                x[1] == X + "Validity::" + x[3]["name"]:
            ab = f.body(x[1])
            if ab is not None and [render(v) for _, _, v in success_values(ab)] == ["self." + x[3]["name"]]:
                return ("field", _map_term(strip_deep(x[2][0]), one), x[3]["name"], None)
        return None
    return _map_term(strip_deep(t), one)


_BOUNDS = [(r"^self\.not_before(\.0)?$", "a"), (r"^%2\.not_before(\.0)?$", "b"),
           (r"^self\.not_after(\.0)?$", "c"), (r"^%2\.not_after(\.0)?$", "d")]


def _trim_decided(f, tb):
    def judge(defs, env, leaf):
        r = defs.get(0)
        if r is None:
            raise _Undecided("nothing returned")
        r = _accessor_is_field(f, r)
        if r[0] == "call" and r[1] == X + "Validity::new" and len(r[2]) == 2:
            nb, na = r[2]                       # Validity::new stores its arguments in order: its own obligation
        else:
            nb, na = _struct_field(r, "not_before"), _struct_field(r, "not_after")
        leaf2 = lambda t: leaf(_accessor_is_field(f, t))
        return _order_value(nb, env, leaf2) == max(env["a"], env["b"]) and \
            _order_value(na, env, leaf2) == min(env["c"], env["d"])
    return _decide_orderings(tb, _BOUNDS, judge, pre=lambda t: _accessor_is_field(f, t))


def _result_label(t):
    t = strip_deep(t)
    if t[0] == "agg" and t[1] == "std::result::Result":
        return t[2]
    raise _Undecided("returns " + render(t)[:120])


def _validity_deciders(f):
    """Spelling-independent second arguments for the obligations of K.check_validity_window."""
    T = X + "Time::"
    memo = {}

    def window(name, spec):
        def go():
            if name not in memo:
                b = f.body(T + name)
                memo[name] = _decide_orderings(
                    b, [(r"^self(\.0)?$", "s"), (r"^%2(\.0)?$", "n")],
                    lambda defs, env, leaf: (_result_label(defs.get(0, ("unknown", ""))) == "Ok") == spec(env))
            ok, det = memo[name]
            return ok, "decided on every ordering of the two instants: %s" % (det,) if ok else det
        return go

    def conjunct(callee, recv):
        def go():
            b = f.body(X + "Validity::verify_at")
            # (1) Ok is returned only as a conjunction (`and`, `and_then`, `?`) that contains the check
            vals = [t for _, _, t in success_values(b)]
            if vals and all(any(c[1] == T + callee and [render(a) for a in c[2]][:2] == [recv, "now"]
                                for c in _ok_conjuncts(f, t)) for t in vals):
                return True, "every value returned as Ok is a conjunction containing %s.%s(now)" % (recv, callee)
            # (2) the comparisons written out in verify_at itself
            ok, det = _decide_orderings(
                b, [(r"^self\.not_before(\.0)?$", "a"), (r"^self\.not_after(\.0)?$", "c"), (r"^%2(\.0)?$", "n")],
                lambda defs, env, leaf: (_result_label(defs.get(0, ("unknown", ""))) == "Ok") == (env["a"] <= env["n"] <= env["c"]))
            return ok, "decided on every ordering of not_before, now, not_after: %s" % (det,) if ok else det
        return go
    return {
        "Time::verify_not_before": window("verify_not_before", lambda e: e["s"] <= e["n"]),
        "Time::verify_not_before:accepts": window("verify_not_before", lambda e: e["s"] <= e["n"]),
        "Time::verify_not_after": window("verify_not_after", lambda e: e["n"] <= e["s"]),
        "Time::verify_not_after:accepts": window("verify_not_after", lambda e: e["n"] <= e["s"]),
        "Validity::verify_at→verify_not_before": conjunct("verify_not_before", "self.not_before"),
        "Validity::verify_at→verify_not_after": conjunct("verify_not_after", "self.not_after"),
    }


def _ok_conjuncts(f, t, depth=0):
    """The calls that must all have returned Ok for the Result `t` to be Ok (`a.and(b)`, `a.and_then(|_| b)`, `a?`,
    `a.map_err(f)`, `a.map(g)`)."""
    t = strip_deep(t)
    if depth > 8 or t[0] != "call":
        return []
    nm = (t[3] or {}).get("name")
    if _std_call(t) and t[2]:
        if nm == "and" and len(t[2]) == 2:
            return _ok_conjuncts(f, t[2][0], depth + 1) + _ok_conjuncts(f, t[2][1], depth + 1)
        if nm in ("map_err", "map", "branch", "inspect", "inspect_err", "into", "from"):
            return _ok_conjuncts(f, t[2][0], depth + 1)
        if nm == "and_then" and len(t[2]) == 2:
            out = _ok_conjuncts(f, t[2][0], depth + 1)
            g = strip_deep(t[2][1])
            if g[0] == "closure":
                cb, m = K.closure_env(f, g, "_")
                if cb is not None:
                    from engine import sym as _symmod
                    for _, _, v in success_values(cb):
                        with _symmod.substituting(m):
                            # read in the caller's vocabulary: render the arguments now
                            for c in _ok_conjuncts(f, v, depth + 1):
                                out.append(("call", c[1], tuple(("param", render(a)) for a in c[2]), c[3]))
            return out
        return []
    return [t]


def _left_padded_copy(p):
    """The path returns from_array(buf) for a zeroed 20-octet buffer buf (`<[u8; 20]>::default()`, `[0; 20]`) after
    copying s into buf[20 - len ..] (an open or a closed range)."""
    m = re.match(r"^return Serial::from_array\((array::default\(\)|\[0; 20\])\)$", outcome_str(p.outcome))
    if not m:
        return False
    buf = re.escape(m.group(1))
    rx = re.compile(r"^array::index_mut\(%s, ops::(RangeFrom\{start: Sub\(20, n\)\}|Range\{start: Sub\(20, n\), end: 20\})\)$" % buf)
    return any(re.search(r"(copy|clone)_from_slice$", e[0]) and rx.match(e[1][0]) and e[1][1] == "s" for e in p.effects)


def _eval_u8(t, v):
    """Value (mod 256) of an octet expression whose only variable part is an array element, taken to be v."""
    t = strip_deep(t)
    k = t[0]
    if k == "const" and isinstance(t[1], int) and not isinstance(t[1], bool):
        return t[1] & 0xFF
    if k in ("index", "mvar") or (k == "field" and strip_deep(t[1])[0] == "index"):
        return v if k != "mvar" else _eval_u8(t[3], v)
    if k == "cast":
        return _eval_u8(t[1], v)
    if k == "un" and t[1] == "Not":
        x = _eval_u8(t[2], v)
        return None if x is None else (~x) & 0xFF
    if k == "bin":
        a, b = _eval_u8(t[2], v), _eval_u8(t[3], v)
        if a is None or b is None:
            return None
        op = t[1]
        if op in ("Rem", "Div") and b == 0:
            return None
        r = {"BitAnd": lambda: a & b, "BitOr": lambda: a | b, "BitXor": lambda: a ^ b, "Shr": lambda: a >> (b & 7),
             "Shl": lambda: a << (b & 7), "Rem": lambda: a % b, "Div": lambda: a // b, "Sub": lambda: a - b,
             "Add": lambda: a + b}.get(op)
        return None if r is None else r() & 0xFF
    return None


def _format_script(f, wb):
    """What a `write!`-based writer emits, read off the compiled format template(s) in the order they are written:
    [('num', rendered value, width, zero padded) | ('lit', bytes)], or None when the body has another shape.  The
    template encoding is the one documented at core::fmt::Arguments (string pieces prefixed by their length,
    placeholders 0b11…… with optional flags / width / precision / argument index)."""
    oc = outcome(wb)
    sym = oc.sym
    news = [c for c in wb.calls() if not wb.is_cleanup(c.bb) and c.is_static and c.name == "new" and
            re.search(r"fmt::Arguments\b", c.fn or "")]
    writes = [c for c in wb.calls() if not wb.is_cleanup(c.bb) and c.is_static and c.name == "write_fmt"]
    if not news or len(news) != len(writes):
        return None
    rets = oc.returns()
    for c in news + writes:
        if wb.path(0, rets, set(oc.fail_blocks) | {c.bb}) is not None:
            return None                     # not on every success path
    if not all(call_checked(wb, c.bb, oc)[0] for c in writes):
        return None
    path = wb.path(0, rets, set(oc.fail_blocks)) or []
    order = {bb: i for i, bb in enumerate(path)}
    if any(c.bb not in order for c in news):
        return None
    out = []
    for c in sorted(news, key=lambda c: order[c.bb]):
        a = K.arg_terms(c)
        if len(a) != 2 or a[0][0] != "bytes" or a[1][0] != "agg" or a[1][1] != "array":
            return None
        vals = []
        for _, v in a[1][3]:
            v = strip_deep(v)
            if v[0] != "call" or (v[3] or {}).get("name") != "new_display" or len(v[2]) != 1:
                return None
            vals.append(render(strip_deep(v[2][0])))
        tpl = a[0][1]
        i, nxt = 0, 0
        while True:
            if i >= len(tpl):
                return None
            b0 = tpl[i]
            i += 1
            if b0 == 0:
                if i != len(tpl):
                    return None
                break
            if b0 < 0x80:
                out.append(("lit", bytes(tpl[i:i + b0])))
                i += b0
            elif b0 == 0x80:
                n = tpl[i] | (tpl[i + 1] << 8)
                out.append(("lit", bytes(tpl[i + 2:i + 2 + n])))
                i += 2 + n
            elif b0 & 0xC0 == 0xC0:
                flags, width, idx = 0x20 | (3 << 29), 0, None
                if b0 & 1:
                    flags = int.from_bytes(tpl[i:i + 4], "little")
                    i += 4
                if b0 & 2:
                    width = int.from_bytes(tpl[i:i + 2], "little")
                    i += 2
                if b0 & 4:
                    i += 2
                if b0 & 8:
                    idx = int.from_bytes(tpl[i:i + 2], "little")
                    i += 2
                if b0 & 0x30 or b0 & 4:
                    return None             # dynamic width / a precision: not a fixed-width number
                if idx is None:
                    idx = nxt
                nxt = idx + 1
                if idx >= len(vals):
                    return None
                fill, align = flags & 0x1FFFFF, (flags >> 29) & 3
                zero = bool(flags & (1 << 24)) or (fill == 0x30 and align == 1)
                if flags & ((1 << 21) | (1 << 23) | (1 << 25) | (1 << 26)):
                    zero = False            # '+', '#', hex: not the plain decimal
                out.append(("num", vals[idx], width, zero))
            else:
                return None
    # merge adjacent pieces
    merged = []
    for x in out:
        if x[0] == "lit" and merged and merged[-1][0] == "lit":
            merged[-1] = ("lit", merged[-1][1] + x[1])
        else:
            merged.append(x)
    if any(x[0] == "num" and not x[3] for x in merged):
        return [("num", x[1], -x[2] - 1, False) if x[0] == "num" and not x[3] else x for x in merged]
    return merged


def _resolve(t, defs):
    """A term with its several-times-assigned locals replaced by what the path assigned to them last."""
    def one(x):
        if x[0] == "field" and x[1][0] in ("var", "mvar") and (x[1][2], str(x[2])) in defs:
            return defs[(x[1][2], str(x[2]))]       # a field assigned on this path
        if x[0] == "field" and x[1][0] in ("var", "mvar") and x[1][2] in defs:
            return ("field", defs[x[1][2]], x[2], x[3] if len(x) > 3 else None)     # a field not touched since
        if x[0] in ("var", "mvar") and x[2] in defs:
            over = tuple((fl, v) for (l2, fl), v in ((k2, v2) for k2, v2 in defs.items() if isinstance(k2, tuple)) if l2 == x[2])
            if over:
                return ("agg", "<updated>", "", over + (("..", defs[x[2]]),))
            return defs[x[2]]
        return None
    return strip_deep(_map_term(strip_deep(t), one))


def _eval_int(t, leaf):
    """Integer / boolean value of an arithmetic term; leaf(term) -> value for the variable parts, None = unknown."""
    t = strip_deep(t)
    v = leaf(t)
    if v is not None:
        return v
    k = t[0]
    if k == "const" and isinstance(t[1], (int, bool)):
        return int(t[1])
    if k == "cast":
        return _eval_int(t[1], leaf)
    if k == "mvar":
        return _eval_int(t[3], leaf)
    if k == "field" and str(t[2]) == "0" and strip_deep(t[1])[0] == "bin" and strip_deep(t[1])[1].endswith("WithOverflow"):
        b = strip_deep(t[1])
        return _eval_int(("bin", b[1][:-len("WithOverflow")], b[2], b[3]), leaf)
    if k == "un" and t[1] == "Not":
        x = _eval_int(t[2], leaf)
        return None if x is None else int(not x)
    if k == "bin":
        a, b = _eval_int(t[2], leaf), _eval_int(t[3], leaf)
        if a is None or b is None:
            return None
        op = t[1]
        if op.endswith("WithOverflow") or op.endswith("Unchecked"):
            op = op.replace("WithOverflow", "").replace("Unchecked", "")
        if op in ("Div", "Rem") and b == 0:
            return None
        fn = {"Add": lambda: a + b, "Sub": lambda: a - b, "Mul": lambda: a * b, "Rem": lambda: a - b * int(a / b),
              "Div": lambda: int(a / b), "Lt": lambda: int(a < b), "Le": lambda: int(a <= b), "Gt": lambda: int(a > b),
              "Ge": lambda: int(a >= b), "Eq": lambda: int(a == b), "Ne": lambda: int(a != b),
              "BitAnd": lambda: a & b, "BitOr": lambda: a | b}.get(op)
        return None if fn is None else fn()
    return None


def _atom_value(a, leaf):
    """Truth of an orderlogic atom under leaf values; None when it tests something else."""
    if a[0] == "const":
        return bool(a[1])
    if a[0] == "not":
        v = _atom_value(a[1], leaf)
        return None if v is None else not v
    if a[0] == "cmp":
        x, y = _eval_int(a[2], leaf), _eval_int(a[3], leaf)
        if x is None or y is None:
            return None
        return {"<": x < y, "<=": x <= y, ">": x > y, ">=": x >= y, "==": x == y, "!=": x != y}[a[1]]
    return None


def _pivot_decided(f, b, readers, cal_names):
    """The year handed to the calendar validator by the UTCTime arm of decoder b, evaluated for every two-digit value
    yy = 0..99 of the first field on every path on which the tests made of yy hold: 1900 + yy for yy >= 50, else
    2000 + yy.  Independent of how the choice is spelt (if/else either way round, the addend chosen instead of the
    sum, a range pattern, a named constant for the pivot).  -> (applies, ok, detail)"""
    consts = getattr(f, "consts", {})
    four = [c.bb for c in b.calls() if not b.is_cleanup(c.bb) and readers.width(c) == 4]
    after_four = set()
    for bb in four:
        after_four |= set(b.reachable(bb))
    sites = _Sites(f, readers, cal_names)
    try:
        ss = sites.of(b)
    except _Undecided as e:
        return True, False, "not decided: %s" % e

    def first_read(t):
        x = _peel_payload(t)
        if x[0] != "call" or x[1] not in readers.cand:
            return None
        return x if sites.width_of(x) == 2 else None
    # the UTCTime arm(s): where the first field read from the wire has two digits.  The year is the component computed
    # from that field — whichever position or name it has in what is handed over (a tuple, a struct, six arguments)
    ps = []
    for c, conds, defs, parts in ss:
        if parts is not None:
            if sites.width_of(parts[0][2]) == 2:
                ps.append((c, conds, defs, parts[0][1]))
            continue
        if c.bb in after_four:
            continue
        args = [K.fold_consts(_resolve(a, defs), consts) for a in K.arg_terms(c)]
        if len(args) == 1 and args[0][0] == "agg" and args[0][1] == "tuple" and len(args[0][3]) == 6:
            ps.append((c, conds, defs, args[0][3][0][1]))
        elif len(args) == 6:
            ps.append((c, conds, defs, args[0]))
        else:
            return True, False, "cannot see the year handed to %s: %s" % (short(c.res), render(args[0])[:160] if args else "")
    if not ps:
        cand = [c for c in b.calls() if not b.is_cleanup(c.bb) and c.is_static and c.res in cal_names and c.bb not in after_four]
        if cand and not any(c2 is c for c in cand for c2, _, _, _ in ss):
            return True, False, "the calendar validator is not reached"
        return False, False, "no UTCTime arm"
    seen = [0] * 100
    for c, conds, defs, year in ps:
        srcs = {(x[3] or {}).get("bb") for x in (first_read(y) for y in walk(year)) if x is not None}
        if len(srcs) != 1:
            return True, False, "the year is not a function of one two-digit field: %s" % render(year)[:160]
        src = srcs.pop()

        def leaf_for(yy):
            def leaf(t):
                x = first_read(t)
                if x is not None and (x[3] or {}).get("bb") == src:
                    return yy
                return None
            return leaf
        for yy in range(100):
            lf = leaf_for(yy)
            feasible = True
            for cnd in conds:
                if cnd[0] == "atom":
                    v = _atom_value(_fold_atom(cnd[1], consts), lf)
                    if v is not None and v != cnd[2]:
                        feasible = False
                        break
                elif cnd[0] == "cmp3":
                    x, y = _eval_int(K.fold_consts(cnd[1], consts), lf), _eval_int(K.fold_consts(cnd[2], consts), lf)
                    if x is not None and y is not None and ((x > y) - (x < y)) not in cnd[3]:
                        feasible = False
                        break
            if not feasible:
                continue
            got = _eval_int(year, lf)
            want = yy + (1900 if yy >= 50 else 2000)
            if got != want:
                return True, False, {"yy": yy, "year": got, "expected": want, "term": render(year)[:200]}
            seen[yy] += 1
    if not all(seen):
        return True, False, {"no_path_for_yy": [i for i, n in enumerate(seen) if not n][:5]}
    return True, True, {"paths": len(ps), "values": 100}


def _fold_atom(a, consts):
    if a[0] == "not":
        return ("not", _fold_atom(a[1], consts))
    if a[0] == "cmp":
        return ("cmp", a[1], K.fold_consts(a[2], consts), K.fold_consts(a[3], consts))
    return a


def _pivot_deciders(f):
    """Second arguments for the obligations of K.check_time_pivots."""
    memo = {}

    def decoders():
        if "d" not in memo:
            fd = _decoder_view(f)
            readers = _Readers(fd)
            cal = {b.name for b in _calendar_fns(fd)}
            res = {}
            for b in _decoder_bodies(fd, readers):
                applies, ok, det = _pivot_decided(fd, b, readers, cal)
                if applies:
                    res.setdefault(short(root_fn(fd, b.name)), []).append((ok, det))
            memo["d"] = res
        return memo["d"]

    def one(root):
        def go():
            r = decoders().get(root)
            if r is None:       # the function named has been folded into the decoders that use it
                r = [x for v in decoders().values() for x in v]
            ok = bool(r) and all(x[0] for x in r)
            return ok, "year evaluated for every yy in 0..=99: %s" % ([x[1] for x in r],) if ok else [x[1] for x in (r or [])]
        return go

    def floor():
        r = decoders()
        ok = bool(r) and all(x[0] for v in r.values() for x in v)
        return ok, "%d UTCTime arm(s): year evaluated for every yy in 0..=99" % sum(len(v) for v in r.values()) if ok else \
            {k: [x[1] for x in v] for k, v in r.items()}

    def region(which):
        def go():
            eb = f.body(X + "Time::encode_varied")
            paths, it, err = K.run_absint(f, eb.name, sym_names={"DateTime::year(Time::deref(self))": "year", "DateTime::year(self.0)": "year"})
            if paths is None:
                return False, err
            ysym = [s_ for p in paths for s_ in p.zone.syms if "year" in s_]
            y = ysym[0] if ysym else "year"
            # the two wrappers, called through Time::encode_*_time (when that is still the wrapper) or directly
            alt = {}
            for ty, meth in (("UtcTime", "encode_utc_time"), ("GeneralizedTime", "encode_generalized_time")):
                direct = r"PrimitiveContent::encode\(x509::%s(::%s)?\{0: self\}\)" % (ty, ty)
                mb = f.body(X + "Time::" + meth)
                via = mb is not None and all(re.match("^" + direct + "$", render(t)) for _, _, t in success_values(mb)) and success_values(mb)
                alt[ty] = "(%s%s)" % (direct, r"|Time::%s\(self\)" % meth if via else "")
            utc = re.compile(r"^return \(Some\(%s\), None\)$" % alt["UtcTime"])
            gen = re.compile(r"^return \(None, Some\(%s\)\)$" % alt["GeneralizedTime"])
            lo, hi, rx = {"year<1950": (None, 1949, gen), "1950≤year≤2049": (1950, 2049, utc), "year>2049": (2050, None, gen)}[which]
            ps = absint.paths_in_region(paths, RC(y, lo, hi))
            ok = bool(ps) and all(rx.match(outcome_str(p.outcome)) and not p.conds for p in ps)
            return ok, "the wrapper type is applied directly" if ok else [outcome_str(p.outcome) for p in ps][:3]
        return go
    class _ByKey(dict):
        def __contains__(self, key):
            return dict.__contains__(self, key) or key.endswith(":two-digit-year-pivot-50")

        def __getitem__(self, key):
            if dict.__contains__(self, key):
                return dict.__getitem__(self, key)
            return one(key[:-len(":two-digit-year-pivot-50")])
    d = _ByKey({"floor:UTCTime field readers with a year pivot": floor})
    for which in ("year<1950", "1950≤year≤2049", "year>2049"):
        d["Time::encode_varied:" + which] = region(which)
    return d


def _decoder_view(f):
    """The facts with the private helpers of the time decoders folded into their callers — every private function of
    x509.rs that (transitively) calls a digit reader or the calendar validator without being one.  The same graph
    rewrite as the engine's views (engine/inline.py), selected by what the functions do."""
    from engine.inline import InlinedFacts
    if isinstance(f, InlinedFacts):
        return f
    cached = getattr(f, "_c17_decoder_view", None)
    if cached is not None:
        return cached
    readers = _Readers(f)
    keep = set(readers.cand) | {b.name for b in _calendar_fns(f)}
    priv = {n for n, r in f.fns.items() if n.startswith(X) and r.get("has_body") and not r.get("exported") and
            not r.get("impl_trait") and not r.get("async") and n not in keep and f.body(n) is not None and _in_x509(f.body(n))}
    uses = set()
    changed = True
    while changed:
        changed = False
        for n in priv - uses:
            if any(c.is_static and (c.res in keep or c.res in uses) for c in f.body(n).calls()):
                uses.add(n)
                changed = True
    v = InlinedFacts(f, depth=6, max_blocks=400, only=uses) if uses else f
    try:
        f._c17_decoder_view = v
    except AttributeError:
        pass
    return v


def _threaded_succs(b):
    """Successor map of b in which a block that sets a boolean temporary to a constant and runs straight into the
    branch on that temporary (`matches!(..)`, `a && b` as a value) continues where the branch goes for that constant."""
    succ = {bi: list(b.succs(bi)) for bi in range(len(b.blocks))}
    defs = b.defs()
    for bi, blk in enumerate(b.blocks):
        t = blk["term"]
        if t["t"] != "switch" or t.get("dty") != "bool" or blk.get("cleanup"):
            continue
        op = t["discr"]
        pl = op.get("m") or op.get("c")
        if not pl or pl["p"] or blk["stmts"] and any(st["s"] == "assign" for st in blk["stmts"]):
            continue
        l = pl["l"]
        ds = defs.get(l, [])
        if len(ds) < 2 or not all(d[2] == "assign" and d[3]["rv"]["r"] == "use" and "k" in d[3]["rv"]["op"] and
                                  isinstance(d[3]["rv"]["op"]["k"].get("v"), (bool, int)) for d in ds):
            continue
        e = switch_bool_edges(b, bi)
        if e is None:
            continue
        for d in ds:
            v = int(d[3]["rv"]["op"]["k"]["v"])
            # straight line from the definition to the branch?
            cur, ok, hops = d[0], True, 0
            if d[1] != len(b.blocks[cur]["stmts"]) - 1 and any(st["s"] == "assign" and st["pl"]["l"] == l
                                                                for st in b.blocks[cur]["stmts"][d[1] + 1:]):
                continue
            while True:
                tt = b.blocks[cur]["term"]
                if tt["t"] != "goto":
                    ok = False
                    break
                cur = tt["target"]
                hops += 1
                if cur == bi:
                    break
                if hops > 6 or any(st["s"] == "assign" for st in b.blocks[cur]["stmts"]):
                    ok = False
                    break
            if ok:
                succ[d[0]] = [e[1] if v else e[0]]
    return succ


def _reach(succ, starts, removed_blocks=(), removed_edges=()):
    seen = set()
    work = [x for x in starts if x not in removed_blocks]
    while work:
        x = work.pop()
        if x in seen:
            continue
        seen.add(x)
        for y in succ.get(x, ()):
            if y in removed_blocks or (x, y) in removed_edges or y in seen:
                continue
            work.append(y)
    return seen


def _printable(x, depth=0):
    """Details go into JSON evidence files."""
    if x is None or isinstance(x, (bool, int, float, str)):
        return x
    if depth > 8:
        return str(x)[:200]
    if isinstance(x, bytes):
        return repr(x)
    if isinstance(x, dict):
        return {str(k): _printable(v, depth + 1) for k, v in x.items()}
    if isinstance(x, (list, tuple)):
        return [_printable(v, depth + 1) for v in x]
    if isinstance(x, (set, frozenset)):
        return sorted((_printable(v, depth + 1) for v in x), key=str)
    return str(x)[:300]



def check_serial_text_zero(ctx, f):
    """The decimal text of the serial number zero is the empty string (Serial::encode_dec writes one digit per division
    step and zero needs none), so the text reader has to take the empty string: `Serial::from_str("")` succeeds."""
    fn = "<repository::x509::Serial as std::str::FromStr>::from_str"
    b = f.body(fn)
    if b is None:
        return ctx.missing("R-SIB", "Serial::from_str", fn)
    ctx.saw_fn(fn)
    ok, why_ = K.accepts_empty_input(f, b, 1)
    # the writer's side of the agreement: encode_dec's digit loop runs `while !is_zero()` — for zero not at all
    eb = f.body("repository::x509::Serial::encode_dec")
    wz = None
    if eb is not None:
        sy = K.sym_of(eb)
        wz = False
        for scc in eb.cycles_sccs():
            for bi in scc:
                t = eb.term(bi)
                if t["t"] == "switch" and re.search(r"is_zero\(", render(strip_deep(sy.operand(t["discr"])))):
                    wz = True
    if wz is not True:
        ctx.note("Serial::encode_dec no longer loops `while !is_zero()`: the text of zero may have changed — the empty-string rule was not applied")
        return
    ctx.ob("R-SIB", "Serial::from_str:accepts-the-text-of-zero", ok,
           "Serial::from_str accepts the empty string, which is what encode_dec (Display, String::from, serde) writes for the serial zero",
           where=b.loc, detail=None if ok else why_)
