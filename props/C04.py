"""C04 — decoders and the accessors of decoded values never panic or run away
(structural clauses; DESIGN §2 C04).

What is decided: the set of panic-capable constructs (MIR `Assert` terminators, calls to std / bytes / chrono
functions that panic on a precondition, explicit panics) reachable in the call graph from every decoding entry
point and from every `&self` accessor / iterator of the decoded types is enumerated on every run, and every one
of them is either discharged by a rule (P0: constant / abstract interpretation / bounded-range index /
find-split idiom / length arithmetic; P1: re-decoding of captured data with the capture's own parser) or is
listed — by function, kind and α-normalised operand provenance — in the reviewed table tables/panic_sites.json
with the reason it cannot fire.  Any other site is reported.  Likewise: no recursion among decode-reachable
functions, every decode-reachable loop advances an iterator / the decoder's input, and no allocation is sized by
a decoded number.
"""
import json, os, re
from engine.rules import (call_checked, MustPass, is_derived, root_fn, calls_to, outcome, success_values)
from engine.sym import strip_deep, render, walk, short, strip
from engine.callgraph import CallGraph
from engine import absint
from props import common as K

META = {
    "level": "other",
    "technique": "static analysis of type-checked MIR (rustc_private driver): call-graph reachability (with callback closure) and panic-site enumeration from MIR; discharge by constant folding, abstract interpretation and idiom rules; guard-dominance witnesses for a reviewed table; recursion / loop-progress / allocation-provenance rules",
    "explanation": "Call-graph reachability from every decoding entry point (functions taking bcder decode types, the "
                   "decode/read entry points of the eleven object types) and from every exported by-reference accessor, "
                   "iterator and trait method of the decoded types' field closure; every panic-capable construct reached "
                   "(MIR Assert terminators, unwrap/expect, slice/str/Bytes indexing and splitting, explicit panics, "
                   "panicking std/chrono arithmetic) is discharged by a rule or must appear in a reviewed table keyed by "
                   "function, kind and operand provenance; recursion-freedom, loop progress and allocation-size provenance "
                   "over the same reachable set.",
    "not_decided": ["panics inside bcder, bytes, chrono, ring and std that are not precondition violations of the call",
                    "time/memory bound as a numeric multiple of the input size (only: no recursion, every loop advances its "
                    "input or a bounded range, no allocation sized by a decoded number)",
                    "sites in the reviewed table hold by the written reason, not by analysis"],
    "trusted_base": ["bcder decoders return errors rather than panic and skip_*/take_* siblings accept the same encodings",
                     "reasons recorded in tables/panic_sites.json (reviewed by reading)"],
}

HERE = os.path.dirname(os.path.dirname(os.path.abspath(__file__)))
TABLE = os.path.join(HERE, "tables", "panic_sites.json")

# ---- the eleven object types of the property statement (+ the CMS wrappers of the two CA protocols) -------------
ROOT_TYPES = {
    "certificate": "repository::cert::Cert",
    "CRL": "repository::crl::Crl",
    "manifest": "repository::manifest::Manifest",
    "ROA": "repository::roa::Roa",
    "ASPA": "repository::aspa::Aspa",
    "RTA": "repository::rta::Rta",
    "TAL": "repository::tal::Tal",
    "public key": "crypto::keys::PublicKey",
    "CSR": "ca::csr::Csr",
    "identity certificate": "ca::idcert::IdCert",
    "signed protocol message": "ca::sigmsg::SignedMessage",
    "provisioning CMS": "ca::provisioning::ProvisioningCms",
    "publication CMS": "ca::publication::PublicationCms",
    "signed object": "repository::sigobj::SignedObject",
}
ENTRY_NAMES = ("decode", "decode_if_type", "decode_ber", "read", "read_named", "take_from", "from_constructed")

DECODE_TY = re.compile(r"bcder::decode::(Constructed|Content|Primitive)<")
OWN_TRAIT = re.compile(r"^(repository|crypto|ca|resources|uri|rrdp|util|rtr|slurm|xml)::")
OWN_TY = re.compile(r"((?:repository|crypto|ca|resources|uri|rrdp|util|rtr|slurm|xml)::[\w:]+)")

# Calls that panic when a precondition on their arguments is violated (frozen list; std/bytes/chrono API review).
PANIC_CALLS = re.compile(
    r"^(std|core)::(option::Option|result::Result)::<.*>::(unwrap|expect|unwrap_err|expect_err|unwrap_unchecked)$"
    r"|^core::panicking::|^std::rt::(begin_panic|panic_fmt)|unwrap_failed$|expect_failed$"
    r"|^core::slice::<impl \[T\]>::(split_at|split_at_mut|copy_from_slice|clone_from_slice|swap|chunks|chunks_exact|"
    r"chunks_mut|chunks_exact_mut|rchunks|windows|rotate_left|rotate_right|copy_within|select_nth_unstable\w*|split_first_chunk)$"
    r"|^core::str::<impl str>::(split_at|split_at_mut)$"
    r"|^std::vec::Vec::<.*>::(remove|insert|swap_remove|drain|split_off|extend_from_within)$"
    r"|^std::string::String::(remove|insert|insert_str|drain|split_off|replace_range|truncate)$"
    r"|^std::collections::VecDeque::<.*>::(drain|split_off|swap|insert)$"
    r"|^bytes::Bytes::(slice|slice_ref|split_to|split_off)$|^bytes::BytesMut::(split_to|split_off|advance|set_len)$"
    r"|^<bytes::Bytes(Mut)? as bytes::Buf>::(advance|copy_to_slice|get_\w+|split_to)$|^bytes::Buf::(advance|copy_to_slice|get_\w+)$"
    r"|std::ops::Index(Mut)?(<.*>)?>?::index(_mut)?$"
    r"|^std::cell::RefCell::<.*>::(borrow|borrow_mut)$"
    r"|^std::iter::Iterator::step_by$|^(std|core)::char::(from_digit|methods::<impl char>::(to_digit|from_digit))$"
    r"|^core::num::<impl \w+>::(from_str_radix|abs|pow|div_euclid|rem_euclid|next_power_of_two|ilog\w*|isqrt)$"
    r"|^<(std::time::(Instant|SystemTime|Duration)|chrono::\w[\w:]*(<.*>)?) as std::ops::(Add|Sub|Mul|Div|AddAssign|SubAssign)(<.*>)?>::\w+$"
    r"|^std::time::(Instant::(duration_since|elapsed)|Duration::(from_secs_f\d+|mul_f\d+|div_f\d+))$"
    r"|^chrono::(Duration|TimeDelta)::(weeks|days|hours|minutes|seconds|milliseconds)$"
    r"|^chrono::[\w:<>, ]*::(from_ymd|from_hms|from_hms_milli|and_hms|and_hms_milli|ymd|from_utc_datetime|"
    r"from_num_days_from_ce|succ|pred|yo|isoywd)$"
    r"|^std::process::(abort|exit)$|^std::thread::(spawn|sleep)$"
    r"|^std::iter::Iterator::(sum|product)$|^tokio::sync::(broadcast|mpsc)::channel$"
)
# `Index` on these receivers cannot fail (full range) or is the checked HashMap-style API we do not use
INDEX_FULL = "ops::RangeFull::RangeFull{}"


def own_types_in(ty, adts):
    return [m for m in OWN_TY.findall(ty) if m in adts]


def type_closure(f, roots):
    types = set(roots)
    work = list(roots)
    while work:
        t = work.pop()
        rec = f.adts.get(t)
        if not rec:
            continue
        for v in rec["variants"]:
            for fl in v["fields"]:
                for m in own_types_in(fl["ty"], f.adts):
                    if m not in types:
                        types.add(m)
                        work.append(m)
    return types


def self_kind(r):
    """'ref' / 'val' / 'mut' / None for the receiver of an associated fn."""
    adt = r.get("impl_adt")
    if not adt or not r["inputs"]:
        return None
    a0 = r["inputs"][0]
    if a0.startswith("&mut ") or re.match(r"^&'\w+ mut ", a0):
        core = re.sub(r"^&('\w+ )?mut ", "", a0)
        return "mut" if core.startswith(adt) else None
    core = re.sub(r"^&('\w+ )?", "", a0)
    if not core.startswith(adt):
        return None
    return "ref" if a0.startswith("&") else "val"


def find_entries(f):
    """(decode entry fns, accessor entry fns, type closure)."""
    dec = []
    for n, r in f.fns.items():
        if not r.get("exported") or not r.get("has_body"):
            continue
        ins = " ".join(r["inputs"])
        if DECODE_TY.search(ins):
            dec.append(n)
        elif r.get("impl_adt") in ROOT_TYPES.values() and r["name"] in ENTRY_NAMES:
            dec.append(n)
    types = type_closure(f, ROOT_TYPES.values())
    acc = set()
    changed = True
    while changed:
        changed = False
        for n, r in f.fns.items():
            if n in acc or not r.get("exported") or not r.get("has_body") or r.get("impl_adt") not in types:
                continue
            sk = self_kind(r)
            if sk is None:
                continue
            ins = " ".join(r["inputs"][1:])
            if "Signer" in ins or "Signer" in " ".join(r.get("generics", []) or []):
                continue
            is_iter_next = r.get("impl_trait") in ("std::iter::Iterator", "std::iter::DoubleEndedIterator") and r["name"] in ("next", "next_back")
            if sk == "mut" and not is_iter_next:
                continue
            acc.add(n)
            # what the accessor hands out is part of the decoded value's surface
            for m in own_types_in(r.get("output", ""), f.adts):
                for t in type_closure(f, [m]):
                    if t not in types:
                        types.add(t)
                        changed = True
    return sorted(dec), sorted(acc), types


alpha = K.alpha


class Site:
    __slots__ = ("fn", "body", "bb", "kind", "ops", "shape", "where", "macro", "t")

    def key(self):
        return "%s|%s|%s" % (self.fn, self.kind, self.shape)


def enumerate_sites(f, reach):
    sites = []
    for n in sorted(reach):
        b = f.body(n)
        if b is None or is_derived(b):
            continue
        s = K.sym_of(b)
        for bi, blk in enumerate(b.blocks):
            if blk.get("cleanup"):
                continue
            t = blk["term"]
            st = None
            if t["t"] == "assert" and not t["kind"].startswith("Resumed"):
                st = Site()
                st.kind = "assert:" + t["kind"]
                st.ops = [strip_deep(s.operand(o)) for o in t.get("ops", [])]
            elif t["t"] == "call":
                k = t["func"].get("k") if isinstance(t["func"], dict) else None
                if k and "fn" in k:
                    res = k.get("res") or k["fn"]
                    if PANIC_CALLS.search(res) or PANIC_CALLS.search(k["fn"]):
                        st = Site()
                        nm = k.get("name") or res
                        if res.startswith("core::panicking::") or "begin_panic" in res:
                            nm = "panic"
                        st.kind = "call:" + nm
                        st.ops = [strip_deep(s.operand(a)) for a in t["args"]]
            if st is None and t["t"] == "call":
                # a panicking fn handed over as a value (e.g. `.map(Option::unwrap)`)
                for a in t["args"]:
                    k = a.get("k") if isinstance(a, dict) else None
                    if k and "fn" in k and (PANIC_CALLS.search(k.get("res") or k["fn"]) or PANIC_CALLS.search(k["fn"])):
                        st = Site()
                        st.kind = "fnref:" + (k.get("name") or k["fn"])
                        st.ops = [strip_deep(s.operand(x)) for x in t["args"] if x is not a]
                        break
            if st is None:
                continue
            st.fn = root_fn(f, n)
            st.body = b
            st.bb = bi
            st.t = t
            st.ops = [K.fold_consts(o, f.consts) for o in st.ops]
            rendered = [render(o) for o in st.ops]
            if st.kind == "call:panic":
                rendered = [r for r in rendered if r.startswith("b'")][:1] or rendered[:1]
            st.shape = alpha(" , ".join(x[:160] for x in rendered), b)
            st.where = b.where(bi)
            sp = t.get("sp") or [None]
            st.macro = sp[1] if len(sp) > 1 else None
            sites.append(st)
    return sites


# ======================================================================================
# discharge rules
# ======================================================================================

def peel(t):
    """Strip Option/Result plumbing around a value: x↓Some.0, Try::branch(x)↓Continue.0, ok_or(x, e)."""
    while True:
        t = strip_deep(t)
        if t[0] == "field" and t[2] == "0" and t[1][0] == "variant" and t[1][2] in ("Some", "Continue", "Ok"):
            t = t[1][1]
            continue
        if t[0] == "call" and (t[3] or {}).get("name") in ("branch", "ok_or", "ok_or_else") and t[2] and \
                (t[3] or {}).get("krate") in ("core", "std"):
            t = t[2][0]
            continue
        return t


def const_eval(t):
    """Value of a constant term, or None."""
    t = strip_deep(t)
    k = t[0]
    if k == "const" and isinstance(t[1], (int, bool)):
        return int(t[1])
    if k == "cast":
        return const_eval(t[1])
    if k == "un" and t[1] == "Not":
        v = const_eval(t[2])
        return None if v is None else (0 if v else 1) if isinstance(t[2][1] if t[2][0] == "const" else 0, bool) else None
    if k == "bin":
        a, b = const_eval(t[2]), const_eval(t[3])
        if a is None or b is None:
            return None
        op = t[1]
        return {"Lt": a < b, "Le": a <= b, "Gt": a > b, "Ge": a >= b, "Eq": a == b, "Ne": a != b}.get(op) if op in (
            "Lt", "Le", "Gt", "Ge", "Eq", "Ne") else {"Add": a + b, "Sub": a - b, "Mul": a * b}.get(op)
    return None


def range_iter_bounds(t):
    """(lo, hi) if t is the item of `for i in [rev] a..b` with constant bounds."""
    t = peel(t)
    if t[0] != "call" or (t[3] or {}).get("name") not in ("next", "next_back"):
        return None
    it = strip_deep(t[2][0]) if t[2] else None
    if it is None:
        return None
    if it[0] == "mvar":
        it = strip_deep(it[3])
    if it[0] == "call" and (it[3] or {}).get("name") == "rev" and it[2]:
        it = strip_deep(it[2][0])
    if it[0] == "agg" and it[1] in ("std::ops::Range", "core::ops::Range"):
        d = dict(it[3])
        lo, hi = const_eval(d.get("start", ("?",))), const_eval(d.get("end", ("?",)))
        if lo is not None and hi is not None:
            return lo, hi - 1
    return None


def rule_const(site):
    """P0-const: the assertion's condition is a compile-time constant equal to the expected value."""
    if site.t["t"] != "assert":
        return None
    s = K.sym_of(site.body)
    c = strip_deep(s.operand(site.t["cond"]))
    v = const_eval(c)
    if v is not None and bool(v) == bool(site.t["expected"]):
        return "condition is the constant %s" % render(c)
    # Lt(i, N) with i the item of a constant range
    if c[0] == "bin" and c[1] == "Lt" and site.t["expected"]:
        n = const_eval(c[3])
        r = range_iter_bounds(c[2])
        if n is not None and r is not None and 0 <= r[0] and r[1] < n:
            return "index ranges over %d..=%d, below the constant length %d" % (r[0], r[1], n)
    return None


_ABS = {}


def absint_panics(f, body):
    """Feasible panics of a loop-free body: set of (where, text) — or None when not analysable."""
    ent = _ABS.get(id(body))
    if ent is not None and ent[0] is body:
        return ent[1]
    res = None
    if not body.cycles_sccs():
        try:
            it = absint.Interp(f, max_paths=3000)
            paths = it.run_body(body)
            bad = [p for p in paths if p.outcome[0] == "diverge" and "not analysed" in str(p.outcome[1])]
            if not bad:
                res = set()
                for p in paths:
                    if p.outcome[0] == "panic":
                        res.add((p.outcome[2] if len(p.outcome) > 2 else "?", str(p.outcome[1])))
        except absint.Unsupported:
            res = None
        except RecursionError:
            res = None
    _ABS[id(body)] = (body, res)
    return res


def rule_absint(f, site):
    """P0-absint: no feasible path of the (loop-free) function reaches the failing edge."""
    if site.t["t"] != "assert":
        return None
    pans = absint_panics(f, site.body)
    if pans is None:
        return None
    kind = site.t["kind"]
    for where, text in pans:
        if where == site.where and kind in text:
            return None
    return "abstract interpretation of %s: the failing edge of this assertion is infeasible on every path" % short(site.body.name)



# --------------------------------------------------------------------------------------
# P0-range: interval evaluation of the operands of a checked arithmetic operation over the MIR's own types

_UINT = {"u8": 8, "u16": 16, "u32": 32, "u64": 64, "u128": 128, "usize": 64}


def _ity(ty):
    r = absint.INT_RANGES.get(ty) if ty not in ("bool", "char") else None
    return r


class _Ranges:
    """Value intervals of integer locals at a program point, read off the definitions that reach it: the interval is the
    type's range cut down to the union of what the reaching definitions can produce — constants, widening conversions
    (`u16::from(x: u8)`, `as`), sums / products / shifts / remainders of intervals.  An argument, a local assigned
    through a projection or whose address is taken mutably, and a definition by anything else keep the full range of
    the type; a definition cycle (a value carried round a loop) is cut by the type range where the cycle closes.
    Everything is a sound over-approximation: the only facts used are MIR types, reaching definitions on the CFG and
    the meaning of the integer operators."""

    def __init__(self, body):
        self.b = body
        self.defs = body.defs()
        self.mutb = K.sym_of(body)._mutb
        self.defpos = {}
        for l, ds in self.defs.items():
            for d in ds:
                idx = len(body.blocks[d[0]]["stmts"]) if d[1] == "term" else d[1]
                self.defpos.setdefault(l, {}).setdefault(d[0], []).append((idx, d))
        for l in self.defpos:
            for bb in self.defpos[l]:
                self.defpos[l][bb].sort(key=lambda x: x[0])

    def reaching(self, l, bb, idx):
        """definitions of local l that reach the point just before statement idx of block bb; None in the result means
        "the function entry" (no definition on some path)."""
        out = []
        per = self.defpos.get(l, {})
        here = [d for i, d in per.get(bb, []) if i < idx]
        if here:
            return [here[-1]]
        seen = set()
        work = list(self.b.preds(bb))
        if bb == 0:
            out.append(None)
        while work:
            p = work.pop()
            if p in seen:
                continue
            seen.add(p)
            ds = per.get(p, [])
            # a call's destination is written only on the edge to its target
            ds2 = [d for i, d in ds]
            if ds2:
                out.append(ds2[-1])
                continue
            if p == 0:
                out.append(None)
            work.extend(self.b.preds(p))
        return out

    def local(self, l, bb, idx, seen=frozenset()):
        tr = _ity(self.b.local_ty(l))
        if tr is None:
            return None
        if l in self.mutb or len(seen) > 40:
            return tr
        if any(d[2] not in ("assign", "call") for d in self.defs.get(l, [])):
            return tr
        lo = hi = None
        for d in self.reaching(l, bb, idx):
            if d is None:
                return tr                                   # an argument (or not yet assigned)
            key = (l, d[0], d[1])
            if key in seen:
                return tr
            didx = len(self.b.blocks[d[0]]["stmts"]) if d[1] == "term" else d[1]
            r = self.rvalue(d[3]["rv"], d[0], didx, seen | {key}) if d[2] == "assign" else self.callret(d[3], d[0], didx, seen | {key})
            if r is None or r[0] < tr[0] or r[1] > tr[1]:
                return tr
            lo = r[0] if lo is None else min(lo, r[0])
            hi = r[1] if hi is None else max(hi, r[1])
        return tr if lo is None else (lo, hi)

    def place(self, pl, bb, idx, seen):
        if not pl["p"]:
            return self.local(pl["l"], bb, idx, seen)
        # `(a op b).0` of a checked operation held in a tuple local
        if len(pl["p"]) == 1 and pl["p"][0][0] == "f" and str(pl["p"][0][1]) == "0" and pl["l"] not in self.mutb:
            ds = self.defs.get(pl["l"], [])
            if len(ds) == 1 and (pl["l"], ds[0][0], ds[0][1]) not in seen:
                d = ds[0]
                key = (pl["l"], d[0], d[1])
                didx = len(self.b.blocks[d[0]]["stmts"]) if d[1] == "term" else d[1]
                if d[2] == "assign" and d[3]["rv"]["r"] == "bin" and d[3]["rv"]["bop"].endswith("WithOverflow"):
                    return self.rvalue(d[3]["rv"], d[0], didx, seen | {key})
                if d[2] == "call":
                    return self.callret(d[3], d[0], didx, seen | {key}, field0=True)
        # any other projection: the range of the projected type (the last projection carries it)
        last = pl["p"][-1]
        ty = last[3] if last[0] == "f" and len(last) > 3 else None
        return _ity(ty) if ty else None

    def operand(self, op, bb, idx, seen=frozenset()):
        if "k" in op:
            v = op["k"].get("v")
            return (v, v) if isinstance(v, int) and not isinstance(v, bool) else _ity(op["k"].get("ty") or "")
        pl = op.get("c") or op.get("m")
        return self.place(pl, bb, idx, seen) if pl is not None else None

    def rvalue(self, rv, bb, idx, seen):
        r = rv["r"]
        if r == "use":
            return self.operand(rv["op"], bb, idx, seen)
        if r == "cast" and rv.get("ck") == "IntToInt":
            a, tr = self.operand(rv["op"], bb, idx, seen), _ity(rv.get("ty") or "")
            if a is None or tr is None:
                return tr
            return a if a[0] >= tr[0] and a[1] <= tr[1] else tr
        if r == "bin":
            tr = _ity(rv.get("oty") or "")
            op = rv["bop"].replace("WithOverflow", "").replace("Unchecked", "")
            if op in ("Lt", "Le", "Gt", "Ge", "Eq", "Ne"):
                return (0, 1)
            a, b = self.operand(rv["a"], bb, idx, seen), self.operand(rv["b"], bb, idx, seen)
            if a is None or b is None or tr is None:
                return tr
            return self.arith(op, a, b, tr)
        return None

    @staticmethod
    def arith(op, a, b, tr):
        """interval of `a op b` in a type of range tr (the full range when the exact result may leave it)."""
        x = None
        if op == "Add":
            x = (a[0] + b[0], a[1] + b[1])
        elif op == "Sub":
            x = (a[0] - b[1], a[1] - b[0])
        elif op == "Mul" and a[0] >= 0 and b[0] >= 0:
            x = (a[0] * b[0], a[1] * b[1])
        elif op == "Shr" and a[0] >= 0 and b[0] >= 0 and b[0] == b[1]:
            x = (a[0] >> b[0], a[1] >> b[0])
        elif op == "Shl" and a[0] >= 0 and b[0] >= 0 and b[0] == b[1] and b[0] < 200:
            x = (a[0] << b[0], a[1] << b[0])
        elif op == "BitAnd" and a[0] >= 0 and b[0] >= 0:
            x = (0, min(a[1], b[1]))
        # a division / remainder that executes has a non-zero divisor (MIR asserts it first; the unchecked form has it
        # as a precondition)
        elif op == "Div" and a[0] >= 0 and b[0] >= 0 and b[1] >= 1:
            x = (a[0] // b[1], a[1] // max(b[0], 1))
        elif op == "Rem" and a[0] >= 0 and b[0] >= 0 and b[1] >= 1:
            x = (0, min(a[1], b[1] - 1))
        elif op in ("BitOr", "BitXor") and a[0] >= 0 and b[0] >= 0:
            n = max(a[1], b[1]).bit_length()
            x = (0, (1 << n) - 1)
        if x is None or x[0] < tr[0] or x[1] > tr[1]:
            return tr
        return x

    def callret(self, t, bb, idx, seen, field0=False):
        k = t["func"].get("k") if isinstance(t["func"], dict) else None
        if not k or k.get("res_krate", k.get("krate")) not in ("core", "std", "alloc"):
            return None
        name, res = k.get("name"), k.get("res") or k.get("fn") or ""
        args = t["args"]
        ga = k.get("ga") or []
        if name in ("from", "into") and len(args) == 1 and (k.get("trait") in ("std::convert::From", "std::convert::Into")) \
                and len(ga) == 2 and _ity(ga[0]) and _ity(ga[1]) and not field0:
            return self.operand(args[0], bb, idx, seen)          # lossless integer conversion: the same number
        m = re.match(r"^(?:core|std)::num::<impl (\w+)>::(\w+)$", res)
        if m and _ity(m.group(1)):
            tr, meth = _ity(m.group(1)), m.group(2)
            xs = [self.operand(a, bb, idx, seen) for a in args]
            if any(x is None for x in xs):
                return None
            if field0 and meth in ("overflowing_shl", "overflowing_shr", "overflowing_add", "overflowing_mul", "overflowing_sub") and len(xs) == 2:
                return self.arith({"shl": "Shl", "shr": "Shr", "add": "Add", "mul": "Mul", "sub": "Sub"}[meth.split("_")[1]], xs[0], xs[1], tr)
            if not field0 and meth in ("wrapping_add", "wrapping_mul", "wrapping_sub", "wrapping_shl", "wrapping_shr",
                                        "saturating_add", "saturating_mul", "saturating_sub") and len(xs) == 2:
                base = {"add": "Add", "mul": "Mul", "sub": "Sub", "shl": "Shl", "shr": "Shr"}[meth.split("_")[1]]
                return self.arith(base, xs[0], xs[1], tr)
            if not field0 and meth in ("min", "max") and len(xs) == 2:
                return (min(xs[0][0], xs[1][0]), min(xs[0][1], xs[1][1])) if meth == "min" else \
                    (max(xs[0][0], xs[1][0]), max(xs[0][1], xs[1][1]))
            if not field0 and meth in ("count_ones", "leading_zeros", "trailing_zeros", "count_zeros") and len(xs) == 1:
                return (0, _UINT.get(m.group(1), 128))
        return None


_RANGES = {}


def rule_type_range(f, site, terms=False):
    """P0-range: the operands of a checked `+`, `-`, `*`, shift or division, bounded by interval evaluation of their
    definitions (types, widening conversions, constants, arithmetic of bounded values), cannot make the check fail."""
    t = site.t
    if t["t"] != "assert":
        return None
    kind = t["kind"]
    m = re.match(r"^Overflow:(Add|Sub|Mul|Shl|Shr)$", kind)
    if not m and kind not in ("DivisionByZero", "RemainderByZero", "BoundsCheck"):
        return None
    ent = _RANGES.get(id(site.body))
    if ent is None or ent[0] is not site.body:
        ent = (site.body, _Ranges(site.body))
        _RANGES[id(site.body)] = ent
    R = ent[1]
    NS = len(site.body.blocks[site.bb]["stmts"])        # the terminator's position
    ops = t.get("ops") or []
    if kind == "BoundsCheck":
        # `a[i]` with a constant length (an array) and i an unsigned value whose interval lies below it (`x >> 4`, `x & 15`)
        if len(ops) != 2:
            return None
        n, i = R.operand(ops[0], site.bb, NS), R.operand(ops[1], site.bb, NS)
        if n is not None and i is not None and n[0] == n[1] and 0 <= i[0] and i[1] < n[0]:
            return "the index lies in [%d, %d] by interval evaluation of its definitions, the array has %d elements" % (i[0], i[1], n[0])
        return None
    if kind in ("DivisionByZero", "RemainderByZero"):
        if len(ops) != 1:
            return None
        d = R.operand(ops[0], site.bb, NS)
        if d is not None and (d[0] > 0 or d[1] < 0):
            return "the divisor lies in [%d, %d] by interval evaluation of its definitions" % d
        return None
    if len(ops) != 2:
        return None
    a, b = R.operand(ops[0], site.bb, NS), R.operand(ops[1], site.bb, NS)
    if a is None or b is None:
        return None
    op = m.group(1)
    if terms and op in ("Add", "Sub", "Mul") and len(site.ops) == 2:
        # what the provenance terms of the operands say in addition (P0-bound's facts: a value a crate function returns,
        # a number parsed from a string of known length, …); those facts are about non-negative values
        tb = _bounds_of(f, site.body)
        ref = []
        for iv, term in ((a, site.ops[0]), (b, site.ops[1])):
            u = tb.norm(tb.upper(term)) if iv[1] - iv[0] > 1 << 16 else _UB()
            ref.append((max(iv[0], 0), min(iv[1], u.abs)) if u.abs is not None and u.abs >= max(iv[0], 0) else iv)
        a, b = ref
    if op in ("Shl", "Shr"):
        # the check is `amount < bit width of the shifted type`
        cpl = t["cond"].get("c") or t["cond"].get("m")
        ds = R.defs.get(cpl["l"], []) if cpl and not cpl["p"] else []
        if len(ds) == 1 and ds[0][2] == "assign" and ds[0][3]["rv"]["r"] == "bin" and ds[0][3]["rv"]["bop"] == "Lt":
            w = R.operand(ds[0][3]["rv"]["b"], site.bb, NS)
            if w is not None and w[0] == w[1] and 0 <= b[0] and b[1] < w[0]:
                return "the shift amount lies in [%d, %d], below the bit width %d" % (b[0], b[1], w[0])
        return None
    # the type of the operation: that of the checked tuple's first component
    cpl = t["cond"].get("c") or t["cond"].get("m")
    ds = R.defs.get(cpl["l"], []) if cpl else []
    if len(ds) != 1 or ds[0][2] != "assign" or ds[0][3]["rv"]["r"] != "bin":
        return None
    tr = _ity(ds[0][3]["rv"].get("oty") or "")
    if tr is None:
        return None
    x = {"Add": (a[0] + b[0], a[1] + b[1]), "Sub": (a[0] - b[1], a[1] - b[0]),
         "Mul": (min(a[0] * b[0], a[0] * b[1], a[1] * b[0], a[1] * b[1]), max(a[0] * b[0], a[0] * b[1], a[1] * b[0], a[1] * b[1]))}[op]
    if x[0] >= tr[0] and x[1] <= tr[1]:
        return "operands lie in [%d, %d] and [%d, %d] by interval evaluation of their definitions: the %s result stays within %s" % (
            a[0], a[1], b[0], b[1], op.lower(), ds[0][3]["rv"].get("oty"))
    return None


LEN_NAMES = ("len", "find", "rfind", "position", "rposition", "valid_up_to", "remaining", "count_ones", "leading_zeros",
             "trailing_zeros")


_VAR_BODY = [None]      # body whose multi-definition locals may be resolved (set around a rule evaluation)
_LEN_FACTS = [None]     # facts (to read closure bodies) while a length rule is evaluated
_IN_PARENT = [False]
_ALT_DEPTH = [0]


def var_const_values(t):
    """The values of a local with several definitions when every one of them assigns an integer constant
    (`let spare = if add_slash { 2 } else { 1 }`); None otherwise."""
    b = _VAR_BODY[0]
    if b is None or t[0] != "var" or len(t) < 3 or not isinstance(t[2], int):
        return None
    vals = []
    for d in b.defs().get(t[2], []):
        if d[2] != "assign":
            return None
        rv = d[3]["rv"]
        k_ = rv["op"].get("k") if rv.get("r") == "use" and isinstance(rv.get("op"), dict) else None
        if not k_ or not isinstance(k_.get("v"), int):
            return None
        vals.append(k_["v"])
    return vals or None


def _is_boolish(t):
    if t[0] == "un" and t[1] == "Not":
        return True
    if t[0] == "bin" and t[1] in ("Eq", "Ne", "Lt", "Le", "Gt", "Ge"):
        return True
    if t[0] == "call" and (t[3] or {}).get("krate") in ("core", "std", "alloc", "bytes"):
        nm = str((t[3] or {}).get("name") or "")
        if nm == "from" and len(t[2]) == 1:
            return _is_boolish(strip_deep(t[2][0]))
        if nm in ("eq", "ne", "lt", "le", "gt", "ge") and (t[3] or {}).get("trait") in ("std::cmp::PartialEq", "std::cmp::PartialOrd"):
            return True             # a comparison through the operator traits (`x.last() != Some(&b'/')`)
        return nm.startswith(("is_", "ends_with", "starts_with", "contains"))
    return False


def _subst_var(t, local, repl):
    if not isinstance(t, tuple):
        return t
    if t and t[0] == "var" and len(t) > 2 and t[2] == local:
        return repl
    return tuple(_subst_var(x, local, repl) if isinstance(x, tuple) else x for x in t)


def _find_var(t):
    if not isinstance(t, tuple):
        return None
    if t and t[0] == "var" and len(t) > 2 and isinstance(t[2], int):
        return t
    for x in t:
        if isinstance(x, tuple):
            r = _find_var(x)
            if r is not None:
                return r
    return None


def var_alternatives(t, depth=0):
    """A term that mentions a local with several definitions, once per definition (the local replaced by the value
    assigned there); None when some definition is not a plain assignment / call result."""
    b = _VAR_BODY[0]
    v = _find_var(t)
    if b is None or v is None or depth > 2:
        return None
    sy = K.sym_of(b)
    alts = []
    for d in b.defs().get(v[2], []):
        if d[2] == "assign":
            val = strip_deep(sy.rvalue(d[3]["rv"]))
        elif d[2] == "call":
            val = strip_deep(sy.call(d[3], d[0]))
        else:
            return None
        if _find_var(val) is not None and render(val) == render(v):
            return None
        alts.append(strip_deep(_subst_var(t, v[2], val)))
    if not alts or len(alts) > 6:
        return None
    return alts


def len_leaves(t, acc):
    """Decompose a usize sum into (number of length-like leaves, constant part); None if something else occurs."""
    if _find_var(strip_deep(t)) is not None and var_const_values(peel(t)) is None:
        alts = var_alternatives(strip_deep(t), _ALT_DEPTH[0])
        if alts:
            best = [0, 0]
            _ALT_DEPTH[0] += 1
            try:
                for a in alts:
                    sub = [0, 0]
                    if not len_leaves(a, sub):
                        return False
                    best = [max(best[0], sub[0]), max(best[1], sub[1])]
            finally:
                _ALT_DEPTH[0] -= 1
            acc[0] += best[0]
            acc[1] += best[1]
            return True
    t = peel(t)
    k = t[0]
    if k == "var":
        vals = var_const_values(t)
        if vals is not None and min(vals) >= 0:
            acc[1] += max(vals)
            return True
    if k == "const" and isinstance(t[1], int):
        acc[1] += t[1]
        return True
    if k == "len":
        acc[0] += 1
        return True
    if k == "call" and (t[3] or {}).get("name") in LEN_NAMES and (t[3] or {}).get("krate") in ("core", "std", "alloc", "bytes"):
        acc[0] += 1
        return True
    if k == "field" and t[2] == "0" and t[1][0] == "bin" and t[1][1] == "AddWithOverflow":
        return len_leaves(t[1][2], acc) and len_leaves(t[1][3], acc)
    if k == "bin" and t[1] == "Add":
        return len_leaves(t[2], acc) and len_leaves(t[3], acc)
    if k in ("un", "bin", "call") and _is_boolish(t):
        acc[1] += 1                       # a condition converted to an integer (`usize::from(cond)`, `cond as usize`)
        return True
    # a length carried through Option combinators: `x.filter(p)`, `x.unwrap_or(c)`, `x.map(|s| s.len())`,
    # `x.map_or(c, |i| i + 1)` — still one in-memory length / index (plus constants)
    if k == "call" and (t[3] or {}).get("krate") in ("core", "std") and \
            re.match(r"^(std|core)::option::Option::<", (t[3] or {}).get("fn") or ""):
        nm = (t[3] or {}).get("name")
        a = t[2]
        if nm in ("filter", "copied", "cloned", "or") and a:
            return len_leaves(a[0], acc)
        if nm == "unwrap_or" and len(a) == 2:
            c = const_eval(a[1])
            if c is not None and 0 <= c <= 16:
                sub = [0, 0]
                if len_leaves(a[0], sub):
                    acc[0] += max(sub[0], 0)
                    acc[1] += max(sub[1], c)
                    return True
            return False
        if nm in ("map", "map_or") and len(a) == (2 if nm == "map" else 3):
            clo = strip_deep(a[-1])
            dflt = const_eval(a[1]) if nm == "map_or" else 0
            if clo[0] == "fnref" and dflt is not None and 0 <= dflt <= 16 and \
                    re.search(r"(^|::)(len|count_ones|leading_zeros|trailing_zeros)$", clo[1]) and re.match(r"^(core|std|alloc|bytes)::", clo[1]):
                acc[0] += 1                                # `.map(<[u8]>::len)`
                acc[1] += dflt
                return True
            if clo[0] != "closure" or dflt is None or not (0 <= dflt <= 16) or _LEN_FACTS[0] is None:
                return False
            cb = _LEN_FACTS[0].body(clo[1])
            if cb is None or cb.arg_count != 2:
                return False
            pname = cb.local_name(2)
            vals = [strip_deep(x) for _, _, x in success_values(cb)]
            if not vals:
                return False
            inner = [0, 0]
            arg_is_len = len_leaves(a[0], inner)           # the mapped value is itself a length / index …
            best = [0, 0]
            for v in vals:
                sub = [0, 0]

                def leaf(x):
                    x = peel(x)
                    if x[0] == "param" and x[1] == pname:
                        if not arg_is_len:
                            return False
                        sub[0] += inner[0]; sub[1] += inner[1]
                        return True
                    if x[0] == "len" or (x[0] == "call" and (x[3] or {}).get("name") in LEN_NAMES
                                         and (x[3] or {}).get("krate") in ("core", "std", "alloc", "bytes")):
                        sub[0] += 1                        # … or the closure takes the length of what it is given
                        return True
                    if x[0] == "const" and isinstance(x[1], int) and 0 <= x[1] <= 16:
                        sub[1] += x[1]
                        return True
                    if x[0] == "field" and x[2] in ("0", 0) and x[1][0] == "bin" and x[1][1] == "AddWithOverflow":
                        return leaf(x[1][2]) and leaf(x[1][3])
                    if x[0] == "bin" and x[1] == "Add":
                        return leaf(x[2]) and leaf(x[3])
                    return False
                if not leaf(v):
                    return False
                best = [max(best[0], sub[0]), max(best[1], sub[1])]
            acc[0] += best[0]
            acc[1] += max(best[1], dflt)
            return True
    if k == "cast":
        inner = peel(t[1])
        # `cond as usize` is 0 or 1
        if (inner[0] == "un" and inner[1] == "Not") or (inner[0] == "bin" and inner[1] in ("Eq", "Ne", "Lt", "Le", "Gt", "Ge")) or \
                (inner[0] == "call" and str((inner[3] or {}).get("name") or "").startswith(("is_", "ends_with", "starts_with", "contains"))
                 and (inner[3] or {}).get("krate") in ("core", "std", "alloc", "bytes")):
            acc[1] += 1
            return True
        return len_leaves(t[1], acc)
    # the index inside `Some(i)` returned by find / rfind / position
    if k == "field" and t[2] in ("0", 0) and t[1][0] == "variant" and t[1][2] == "Some":
        inner = peel(t[1][1])
        if inner[0] == "call" and (inner[3] or {}).get("name") in ("find", "rfind", "position", "rposition") and \
                (inner[3] or {}).get("krate") in ("core", "std", "alloc"):
            acc[0] += 1
            return True
    # an offset into the value's own buffer (invariant kept by the reviewed writers, R-WHO)
    if k == "field" and len(t) > 3 and t[2] in OFFSET_FIELDS.get(t[3], ()) and peel(t[1])[0] in ("param", "upvar"):
        acc[0] += 1
        return True
    # a captured value: judged where the closure is created
    if k == "upvar" and _VAR_BODY[0] is not None and _LEN_FACTS[0] is not None and "{closure" in _VAR_BODY[0].name and not _IN_PARENT[0]:
        cbody = _VAR_BODY[0]
        f_ = _LEN_FACTS[0]
        idx = None
        for name, pl in cbody.rec.get("upvars", []):
            if name == t[1]:
                for pe in pl.get("p", []):
                    if pe and pe[0] == "f":
                        try:
                            idx = int(pe[1])
                        except (TypeError, ValueError):
                            idx = None
                        break
        parent = cbody.name.rsplit("::{closure", 1)[0]
        if idx is not None:
            for pn in [parent] + [x for x in f_.bodies if x.startswith(parent + "::{closure") and x != cbody.name]:
                pb = f_.body(pn)
                if pb is None:
                    continue
                sy = K.sym_of(pb)
                for blk in pb.blocks:
                    for st in blk["stmts"]:
                        if st["s"] == "assign" and st["rv"]["r"] == "agg" and st["rv"].get("def") == cbody.name and idx < len(st["rv"]["ops"]):
                            cap = strip_deep(sy.operand(st["rv"]["ops"][idx]))
                            sub = [0, 0]
                            _IN_PARENT[0] = True
                            old = _VAR_BODY[0]
                            _VAR_BODY[0] = pb
                            try:
                                ok_ = len_leaves(cap, sub)
                            finally:
                                _VAR_BODY[0] = old
                                _IN_PARENT[0] = False
                            if ok_:
                                acc[0] += sub[0]
                                acc[1] += sub[1]
                                return True
                            return False
    # the element parameter of a closure handed to Option::map / map_or / and_then / is_some_and / filter: it is the
    # payload of the Option — a length when that is one
    if k == "param" and _VAR_BODY[0] is not None and _LEN_FACTS[0] is not None and "{closure" in _VAR_BODY[0].name:
        cbody = _VAR_BODY[0]
        if cbody.arg_count >= 2 and t[1] == cbody.local_name(2) and not _IN_PARENT[0]:
            f_ = _LEN_FACTS[0]
            parent = cbody.name.rsplit("::{closure", 1)[0]
            for pn in [parent] + [x for x in f_.bodies if x.startswith(parent + "::{closure") and x != cbody.name]:
                pb = f_.body(pn)
                if pb is None:
                    continue
                for c in pb.calls():
                    if c.name not in ("map", "map_or", "and_then", "is_some_and", "filter", "map_or_else") or \
                            not re.match(r"^(std|core)::option::Option::<", c.fn or ""):
                        continue
                    a = K.arg_terms(c)
                    if not any(strip(x)[0] == "closure" and strip(x)[1] == cbody.name for x in a[1:]):
                        continue
                    sub = [0, 0]
                    _IN_PARENT[0] = True
                    old = _VAR_BODY[0]
                    _VAR_BODY[0] = pb
                    try:
                        ok_ = len_leaves(a[0], sub)
                    finally:
                        _VAR_BODY[0] = old
                        _IN_PARENT[0] = False
                    if ok_:
                        acc[0] += sub[0]
                        acc[1] += sub[1]
                        return True
    return False


OFFSET_FIELDS = {"uri::Rsync": ("module_start", "path_start"), "uri::Https": ("path_idx",)}


def rule_len_arith(site):
    """P0-len: a usize sum of at most two in-memory lengths (or indices into them) and a small constant."""
    if site.kind == "assert:Overflow:Mul" and len(site.ops) == 2:
        acc = [0, 0]
        c = const_eval(site.ops[1])
        if c is not None and 0 <= c <= 2 and len_leaves(site.ops[0], acc) and acc == [1, 0]:
            return "a buffer length (at most isize::MAX) times %d cannot wrap usize" % c
        return None
    if site.kind != "assert:Overflow:Add" or len(site.ops) != 2:
        return None
    _VAR_BODY[0] = site.body
    # the operation must be on usize
    tys = [o.get("ty") for o in site.t.get("ops", []) if isinstance(o, dict)]
    acc = [0, 0]
    if all(len_leaves(o, acc) for o in site.ops) and acc[0] <= 2 and 0 <= acc[1] <= 16 and acc[0] >= 1:
        return ("sum of %d buffer length(s)/index(es) and the constant %d: an allocation holds at most isize::MAX bytes, "
                "so the usize sum cannot wrap" % (acc[0], acc[1]))
    return None


def _first_component_is_index(f, cname, depth=0):
    """Every tuple the closure `cname` (an `enumerate()` consumer) can put into `Some(..)` has the enumeration index — the
    first component of the closure's own argument, possibly captured by a nested closure — as its first component."""
    cb = f.body(cname)
    if cb is None or cb.arg_count < 2 or depth > 2:
        return False
    sy = K.sym_of(cb)
    arg = cb.local_name(2)

    def is_idx(x, caps=None):
        x = peel(x)
        if x[0] == "field" and str(x[2]) == "0" and peel(x[1])[0] == "param":
            return True
        if x[0] == "param" and caps is None:
            return False
        return False
    found = False
    for blk in cb.blocks:
        for st in blk["stmts"]:
            if st["s"] == "assign" and st["rv"]["r"] == "agg":
                rv = st["rv"]
                if rv.get("ak") == "tuple" and rv["ops"]:
                    found = True
                    if not is_idx(strip_deep(sy.operand(rv["ops"][0]))):
                        return False
                elif rv.get("ak") == "closure":
                    # a nested closure (e.g. `.map(|r| (idx, r))`) that captures the index
                    nb = f.body(rv["def"])
                    if nb is None:
                        continue
                    nsy = K.sym_of(nb)
                    capmap = {}
                    for name, pl in nb.rec.get("upvars", []):
                        for pe in pl.get("p", []):
                            if pe and pe[0] == "f":
                                try:
                                    capmap[name] = strip_deep(sy.operand(rv["ops"][int(pe[1])]))
                                except (TypeError, ValueError, IndexError):
                                    pass
                                break
                    for nblk in nb.blocks:
                        for nst in nblk["stmts"]:
                            if nst["s"] == "assign" and nst["rv"]["r"] == "agg" and nst["rv"].get("ak") == "tuple" and nst["rv"]["ops"]:
                                found = True
                                first = peel(strip_deep(nsy.operand(nst["rv"]["ops"][0])))
                                if not (first[0] == "upvar" and first[1] in capmap and is_idx(capmap[first[1]])):
                                    return False
    return found


def find_of(t):
    """(base term rendered, pattern const) if t is the index found by str/slice find on base, or by
    `base.iter().position(pred)` (an element index of the slice: pattern constant 0, any `+ 1` stays within)."""
    t = peel(t)
    if t[0] == "call" and (t[3] or {}).get("name") in ("find", "rfind") and len(t[2]) == 2 and \
            (t[3] or {}).get("trait") != "std::iter::Iterator":
        return render(strip_deep(t[2][0])), const_eval(t[2][1])
    if t[0] == "field" and str(t[2]) == "0":
        # `s.iter().enumerate().find_map(|(i, x)| … (i, …))`: the first component of what it found is an element index
        inner = peel(t[1])
        if inner[0] == "call" and (inner[3] or {}).get("name") in ("find_map", "find") and len(inner[2]) == 2 and \
                (inner[3] or {}).get("trait") == "std::iter::Iterator":
            it = strip_deep(inner[2][0])
            if it[0] == "mvar":
                src = strip_deep(it[3])
                if src[0] == "call" and (src[3] or {}).get("name") == "enumerate" and len(src[2]) == 1:
                    src = strip_deep(src[2][0])
                    if src[0] == "call" and (src[3] or {}).get("name") == "iter" and len(src[2]) == 1:
                        src = strip_deep(src[2][0])
                    clo = strip_deep(inner[2][1])
                    if (inner[3] or {}).get("name") == "find" or (clo[0] == "closure" and _LEN_FACTS[0] is not None
                                                                   and _first_component_is_index(_LEN_FACTS[0], clo[1])):
                        return render(src), 0
    if t[0] == "call" and (t[3] or {}).get("name") in ("position", "rposition") and len(t[2]) == 2 and \
            (t[3] or {}).get("trait") == "std::iter::Iterator":
        it = strip_deep(t[2][0])
        if it[0] == "mvar":                         # `iter⟵<what it was created from>`; slice::iter is transparent
            src = strip_deep(it[3])
            if src[0] == "call" and (src[3] or {}).get("name") == "iter" and len(src[2]) == 1:
                src = strip_deep(src[2][0])
            return render(src), 0
    return None


def plus_const(t):
    """(inner, c) for inner + c."""
    t = peel(t)
    if t[0] == "field" and t[2] == "0" and t[1][0] == "bin" and t[1][1] == "AddWithOverflow":
        c = const_eval(t[1][3])
        if c is not None:
            return t[1][2], c
    if t[0] == "bin" and t[1] == "Add":
        c = const_eval(t[3])
        if c is not None:
            return t[2], c
    return None


def find_split_ok(base, rng):
    """Is `base[rng]` the split-at-found-separator idiom?"""
    if rng[0] != "agg":
        return None
    d = {k: v for k, v in rng[3]}
    b = render(strip_deep(base))
    name = rng[2]

    def at(t, need_plus):
        if need_plus is None:
            tl = peel(t)
            if (tl[0] == "len" and render(strip_deep(tl[1])) == b) or \
                    (tl[0] == "call" and (tl[3] or {}).get("name") == "len" and len(tl[2]) == 1 and render(strip_deep(tl[2][0])) == b):
                return True               # `s[s.len()..]` / `s[..s.len()]`: the bound may equal the length
            fo = find_of(t)
            if fo and fo[0] == b:
                return True
            pc = plus_const(t)
            if pc and pc[1] == 1:
                fo = find_of(pc[0])
                return bool(fo and fo[0] == b and fo[1] is not None and fo[1] < 128)
            return False
        return False
    if name == "RangeTo" and at(d["end"], None):
        return "slices up to the position str::find returned for the same string"
    if name == "RangeFrom" and at(d["start"], None):
        return "slices from one past the position str::find returned for a one-byte ASCII separator in the same string"
    if name == "Range" and at(d["start"], None) and at(d["end"], None):
        return "both bounds are positions str::find returned for the same string"
    if name == "RangeFull":
        return "full range"
    return None


def rule_find_split(f, site, depth=0):
    """P0-split: `s[..i]` / `s[i+1..]` with i = s.find(sep); also through the parameters of a private helper when
    every caller passes such a pair."""
    if site.kind == "assert:BoundsCheck" and len(site.ops) == 2:
        # `s[i]` with i the position of an element of s
        ln = strip_deep(site.ops[0])
        fo = find_of(site.ops[1])
        if ln[0] == "len" and fo and fo[0] == render(strip_deep(ln[1])):
            return "indexes the slice at a position Iterator::position / find returned for the same slice"
        return None
    if site.kind not in ("call:index", "call:index_mut") or len(site.ops) != 2:
        return None
    r = find_split_ok(site.ops[0], site.ops[1])
    if r:
        return r
    # parameters of a non-exported helper: decide at every call site
    fn = f.fns.get(site.fn)
    if fn is None or fn.get("exported") or site.body.name != site.fn:
        return None
    callers = calls_to(f, lambda c: c.res == site.fn)
    if not callers:
        return None
    for c in callers:
        s = K.sym_of(c.body)
        mapping = {}
        for j, a in enumerate(c.args):
            pname = site.body.local_name(j + 1) or "_%d" % (j + 1)
            mapping[pname] = strip_deep(s.operand(a))
        ops = [strip_deep(K._subst(o, mapping)) for o in site.ops]
        if not find_split_ok(ops[0], ops[1]):
            return None
    return "private helper: each of its %d callers passes (s, s.find(sep)) — the split-at-found-separator idiom" % len(callers)


def rule_layout(f, site):
    """P0-layout: `bytes_of(fixed)[k..]` with k a constant not larger than the compiler-computed size of the packed
    fixed-layout struct whose bytes are viewed (its own AsMut<[u8]> impl hands out exactly size_of bytes)."""
    if site.kind not in ("call:index", "call:index_mut") or len(site.ops) != 2:
        return None
    rng = site.ops[1]
    if rng[0] != "agg" or rng[2] not in ("RangeFrom", "RangeTo"):
        return None
    k = const_eval(dict(rng[3]).get("start" if rng[2] == "RangeFrom" else "end", ("?",)))
    if k is None:
        return None
    base = strip_deep(site.ops[0])
    if base[0] == "mvar":
        base = strip_deep(base[3])
    adt = None
    if base[0] == "agg" and base[1] in f.adts:
        adt = base[1]
    else:
        rb = f.body(site.fn)
        cand = rb.rec.get("impl_adt") if rb is not None else None
        ty = site.body.local_ty(base[2]) if base[0] in ("var",) else None
        if base[0] == "call" and (base[3] or {}).get("name") == "default" or base[0] == "var":
            adt = cand
    if not adt or adt not in f.adts:
        return None
    rec = f.adts[adt]
    packed = "pack: Some" in str(rec.get("repr")) and "IS_C" in str(rec.get("repr"))
    has_view = any(n.startswith("<%s as std::convert::AsMut<[u8]>>::as_mut" % adt) for n in f.bodies)
    if packed and has_view and rec.get("size") is not None and k <= rec["size"]:
        return "byte view of the packed struct %s (%d bytes by layout) cut at the constant %d" % (short(adt), rec["size"], k)
    return None


# ---- P1: re-decoding captured data ---------------------------------------------------------------------------

def is_cons_parser(f, res):
    r = f.fns.get(res)
    return bool(r and DECODE_TY.search(" ".join(r["inputs"])))


SKEL_NORM = [(r"skip_opt_in$", "take_opt_from"), (r"skip_in$", "take_from"), (r"skip_content$", "from_content"),
             (r"skip_opt_from$", "take_opt_from"), (r"skip_from$", "take_from")]


def skeleton(f, fn):
    """Ordered list of the acceptance-relevant calls of a decoder function (its closures included)."""
    out = []
    names = [fn] + sorted(n for n in f.bodies if n.startswith(fn + "::{closure"))
    for n in names:
        b = f.body(n)
        if b is None:
            continue
        for c in sorted(b.calls(), key=lambda c: c.bb):
            if b.is_cleanup(c.bb) or not c.is_static:
                continue
            res = c.res or ""
            keep = False
            if c.krate == "bcder" and re.match(r"^(take_|skip_|from_content|skip_content|capture|content_err|exhausted|decode)", c.name or ""):
                keep = True
            elif res in f.fns and not is_derived(f.body(res) or b):
                # a crate function takes part in acceptance only if it can refuse (Result / Option / bool); a
                # constructor that returns the value itself cannot
                out_ty = f.fns[res].get("output") or ""
                keep = bool(re.match(r"^(std::result::Result<|std::option::Option<|bool$)", out_ty))
            if keep:
                lab = short(res)
                for rx, rep in SKEL_NORM:
                    lab = re.sub(rx, rep, lab)
                out.append(lab)
    return out


def element_parsers(f, body_names):
    out = set()
    for n in body_names:
        b = f.body(n)
        if b is None:
            continue
        for c in b.calls():
            if not b.is_cleanup(c.bb) and c.is_static and is_cons_parser(f, c.res or ""):
                out.add(c.res)
    return out


def captured_owner(f, site):
    """(owner ADT, field) whose captured bytes the site's function re-decodes, or None."""
    rb = f.body(site.fn)
    adt = rb.rec.get("impl_adt") if rb is not None else None
    if not adt or adt not in f.adts:
        return None
    flds = [(fl["name"], fl["ty"]) for v in f.adts[adt]["variants"] for fl in v["fields"]]
    caps = [n for n, ty in flds if ty == "bcder::Captured"]
    if caps:
        # is this an iterator wrapper built from another type's capture?
        owners = _iter_owner(f, adt)
        return owners or (adt, caps[0])
    if any("SliceSource" in ty for _, ty in flds):
        return _iter_owner(f, adt)
    return None


def _iter_owner(f, iter_adt):
    for bd, bi, si, st in __import__("engine.rules", fromlist=["aggregates_of"]).aggregates_of(f, iter_adt):
        if is_derived(bd):
            continue
        t = K.sym_of(bd).rvalue(st["rv"])
        for _, v in t[3]:
            for x in walk(strip_deep(v)):
                if x[0] == "field" and len(x) > 3 and x[3] in f.adts and x[3] != iter_adt:
                    tys = {fl["name"]: fl["ty"] for vv in f.adts[x[3]]["variants"] for fl in vv["fields"]}
                    if tys.get(x[2]) == "bcder::Captured":
                        return (x[3], x[2])
    return None


def capture_parsers(f, owner_adt):
    """Element parsers run inside `capture(..)` closures of the owner type's decoder(s); and those closures' names."""
    out = set()
    closures = []
    for n, b in f.bodies.items():
        rb = f.body(b.rec.get("root", n)) or b
        if rb.rec.get("impl_adt") != owner_adt or is_derived(rb):
            continue
        for c in b.calls():
            if not b.is_cleanup(c.bb) and c.name in ("capture", "capture_one", "capture_all") and (c.res or "").startswith("bcder::"):
                for a in K.arg_terms(c):
                    if a[0] == "closure":
                        closures.append(a[1])
                        out |= element_parsers(f, [a[1]])
                    elif a[0] == "fnref":
                        out.add(a[1])
    return out, closures


def parser_implies(f, q, p, memo):
    """Does success of capture-time parser q imply success of re-decode parser p on the same bytes?"""
    if q == p:
        return "same function"
    key = (q, p)
    if key in memo:
        return memo[key]
    memo[key] = None
    r = None
    qb = f.body(q)
    if qb is not None:
        mp = MustPass(f, lambda c, p=p: c.res == p, name=short(p))
        if mp.holds(q):
            r = "%s succeeds only after %s succeeded" % (short(q), short(p))
    if r is None and f.fns.get(q, {}).get("impl_adt") == f.fns.get(p, {}).get("impl_adt"):
        sq, sp_ = skeleton(f, q), skeleton(f, p)
        if sq and sq == sp_:
            r = "skip/take siblings with the same acceptance skeleton %s" % sq
    memo[key] = r
    return r


def rule_redecode(f, site, ber, memo):
    """P1: unwrap() of a re-decode of captured data, parsed by (a sibling of) the parser that ran when the data was captured,
    in the mode it was captured in."""
    if site.kind not in ("call:unwrap", "call:expect") or not site.ops:
        return None
    t = peel(site.ops[0])
    if t[0] != "call":
        return None
    nm = (t[3] or {}).get("name")
    res = t[1]
    own = captured_owner(f, site)
    if own is None:
        return None
    owner, fld = own
    capq, capcl = capture_parsers(f, owner)
    if not capq:
        return None
    if res in ("bcder::Mode::decode", "bcder::Captured::decode", "bcder::Captured::decode_partial"):
        cl = [a[1] for a in t[2] if a[0] == "closure"] + [a[1] for a in t[2] if a[0] == "fnref"]
        ps = set()
        for c in cl:
            if is_cons_parser(f, c):
                ps.add(c)
            ps |= element_parsers(f, [c])
        if not ps:
            return None
        if res == "bcder::Mode::decode":
            mode = K._mode_const(strip_deep(t[2][0]))
            if mode != "Der" or any(c in ber for c in capcl):
                return None
    elif is_cons_parser(f, res) and site.body.name != site.fn:
        # unwrap of the element parser itself, inside the closure handed to a re-decode call of the same function
        ps = {res}
        rb = f.body(site.fn)
        inside = False
        for n in [site.fn] + [x for x in f.bodies if x.startswith(site.fn + "::{closure")]:
            for c in f.body(n).calls():
                if c.res in ("bcder::Mode::decode", "bcder::Captured::decode", "bcder::Captured::decode_partial"):
                    if any(a[0] == "closure" and a[1] == site.body.name for a in K.arg_terms(c)):
                        inside = True
                        if c.res == "bcder::Mode::decode":
                            mode = K._mode_const(K.arg_terms(c)[0])
                            if mode != "Der" or any(x in ber for x in capcl):
                                return None
        if not inside:
            return None
    else:
        return None
    why = []
    for p in sorted(ps):
        got = None
        for q in sorted(capq):
            got = parser_implies(f, q, p, memo)
            if got:
                break
        if not got:
            return None
        why.append(got)
    return "re-decodes %s.%s, captured by %s: %s" % (short(owner), fld, ", ".join(short(q) for q in sorted(capq)), "; ".join(why))


def classify(f, sites):
    """-> [(site, rule or None, reason)]"""
    ber, _, _ = K.ber_reachable(f)
    memo = {}
    out = []
    for s in sites:
        r = rule_const(s)
        if r:
            out.append((s, "P0-const", r))
            continue
        r = rule_len_arith(s)
        if r:
            out.append((s, "P0-len", r))
            continue
        r = rule_find_split(f, s)
        if r:
            out.append((s, "P0-split", r))
            continue
        r = rule_redecode(f, s, ber, memo)
        if r:
            out.append((s, "P1-redecode", r))
            continue
        r = rule_absint(f, s)
        if r:
            out.append((s, "P0-absint", r))
            continue
        out.append((s, None, None))
    return out


def rule_arg_const(site):
    """P0-arg: the panicking precondition is on a constant argument that satisfies it."""
    nm = site.kind.split(":", 1)[1]
    if nm in ("chunks", "chunks_mut", "chunks_exact", "chunks_exact_mut", "rchunks", "windows", "step_by") and len(site.ops) == 2:
        v = const_eval(site.ops[1])
        if v is not None and v > 0:
            return "chunk/step size is the non-zero constant %d" % v
    if nm in ("to_digit", "from_digit", "from_str_radix") and len(site.ops) == 2:
        v = const_eval(site.ops[1])
        if v is not None and 2 <= v <= 36:
            return "radix is the constant %d" % v
    if nm == "channel" and site.ops:
        v = const_eval(site.ops[0])
        if v is not None and v > 0:
            return "channel capacity is the non-zero constant %d" % v
    if nm in ("index", "index_mut") and len(site.ops) == 2 and site.ops[1][0] == "agg" and site.ops[1][2] == "RangeFull":
        return "full range"
    return None


# ======================================================================================
# invariant owners (R-WHO): who may build / mutate the types whose private offsets index their own buffer
# ======================================================================================
INVARIANT_TYPES = {
    # type: (reviewed constructor / mutator functions, invariant)
    "uri::Rsync": (["uri::Rsync::from_bytes", "uri::Rsync::join", "uri::Rsync::parent", "uri::Rsync::path_into_dir",
                    "uri::Rsync::unshare", "uri::arbitrary::<impl arbitrary::Arbitrary<'a> for uri::Rsync>::arbitrary"],
                   "9 <= module_start < path_start <= bytes.len(); from_bytes computes them from the validated text, join/"
                   "path_into_dir only append, parent truncates to >= path_start, unshare copies"),
    "uri::Https": (["uri::Https::from_bytes", "uri::Https::join", "uri::Https::parent", "uri::Https::path_into_dir",
                    "uri::Https::unshare", "uri::arbitrary::<impl arbitrary::Arbitrary<'_> for uri::Https>::arbitrary"],
                   "scheme.len()+3 <= path_idx <= uri.len(); from_bytes computes it, join/path_into_dir only append, parent "
                   "truncates to >= path_idx"),
    "repository::x509::Serial": (["repository::x509::Serial::from_array", "repository::x509::Serial::random",
                                  "repository::x509::Serial::short_random", "repository::x509::Serial::checked_add_u8",
                                  "repository::x509::Serial::checked_mul_u8", "repository::x509::Serial::div_assign_u8",
                                  "<repository::x509::Serial as std::default::Default>::default",
                                  "<repository::x509::Serial as arbitrary::Arbitrary<'a>>::arbitrary"],
                                 "the most significant bit of octet 0 is clear (from_array rejects it, random/arbitrary mask it, "
                                 "the checked_* helpers return None otherwise, division only shrinks)"),
    "repository::resources::ipres::Prefix": (["repository::resources::ipres::Prefix::new",
                                              # feature "compat": `addr.len = min(addr.len, family max)` only lowers len
                                              "repository::resources::ipres::AddressRange::check_len"],
                                             "len <= 128 (asserted by new; the compat check_len only lowers it)"),
}


def writers_of(f, adt):
    out = set()
    for n, b in f.bodies.items():
        if is_derived(b) or "_serde" in n:
            continue
        hit = False
        for blk in b.blocks:
            if blk.get("cleanup"):
                continue
            for s in blk["stmts"]:
                if s["s"] != "assign":
                    continue
                rv = s["rv"]
                if rv["r"] == "agg" and rv.get("ak") == "adt" and rv.get("adt") == adt:
                    hit = True
                if any(p[0] == "f" and len(p) > 2 and p[2] == adt for p in s["pl"]["p"]):
                    hit = True
                if rv["r"] == "ref" and rv.get("mut") and any(p[0] == "f" and len(p) > 2 and p[2] == adt for p in rv["pl"]["p"]):
                    hit = True
        if hit:
            out.add(root_fn(f, n))
    return out


# ======================================================================================
# recursion / loops / allocation
# ======================================================================================
def direct_edges(f, name):
    """Resolved call edges only (no trait fan-out): static calls to crate bodies, closures created, fn items used as values."""
    b = f.body(name)
    out = set()
    if b is None:
        return out
    for blk in b.blocks:
        if blk.get("cleanup"):
            continue
        for s in blk["stmts"]:
            if s["s"] == "assign" and s["rv"]["r"] == "agg" and s["rv"].get("ak") in ("closure", "coroutine", "coroutine_closure"):
                out.add(s["rv"]["def"])
        t = blk["term"]
        if t["t"] in ("call", "tailcall"):
            for op in [t["func"]] + list(t["args"]):
                k = op.get("k") if isinstance(op, dict) else None
                if k and "fn" in k:
                    r = k.get("res") or k["fn"]
                    if r in f.bodies and ("res" in k or not k.get("trait")):
                        out.add(r)
    return out


def recursion_sccs(f, nodes):
    nodes = set(nodes)
    index, low, st, on, out, cnt = {}, {}, [], set(), [], [0]
    memo = {}

    def E(n):
        if n not in memo:
            memo[n] = [x for x in direct_edges(f, n) if x in nodes]
        return memo[n]
    for r in sorted(nodes):
        if r in index:
            continue
        work = [(r, iter(E(r)))]
        index[r] = low[r] = cnt[0]
        cnt[0] += 1
        st.append(r)
        on.add(r)
        while work:
            v, it = work[-1]
            adv = False
            for w in it:
                if w not in index:
                    index[w] = low[w] = cnt[0]
                    cnt[0] += 1
                    st.append(w)
                    on.add(w)
                    work.append((w, iter(E(w))))
                    adv = True
                    break
                elif w in on:
                    low[v] = min(low[v], index[w])
            if adv:
                continue
            work.pop()
            if work:
                low[work[-1][0]] = min(low[work[-1][0]], low[v])
            if low[v] == index[v]:
                comp = []
                while True:
                    w = st.pop()
                    on.discard(w)
                    comp.append(w)
                    if w == v:
                        break
                if len(comp) > 1 or v in E(v):
                    out.append(sorted(comp))
    return out


PROGRESS = [
    ("iterator", lambda c: c.name in ("next", "next_back") and (c.trait or "").endswith("Iterator")),
    ("decoder input", lambda c: bool(re.match(r"^(take_opt_|skip_opt_|take_|skip_)", c.name or "")) and
        (c.krate == "bcder" or "decode" in (c.res or "") or True)),
    ("reader", lambda c: c.name in ("read", "read_event_into", "read_resolved_event_into", "read_line", "read_until", "read_exact")),
    ("xml element", lambda c: c.name in ("take_opt_element", "take_element", "decode_opt")),
]
INFINITE_SOURCES = ("repeat_with", "repeat", "cycle", "from_fn", "successors")



_ADV = {}
_TAIL_OPS = ("index", "split_at", "split_first", "splitn", "split", "split_once", "split_off", "strip_prefix", "get", "next",
             "rsplitn", "split_at_checked", "split_first_chunk", "trim_start", "trim_ascii_start", "advance")


def callee_advances(f, fn, depth=0):
    """A crate function that a loop relies on for its progress (`while let Some(x) = take_thing(input)?`) really moves its
    input on: on every path to a return that lets the caller go on (not an error, not a bare `None` / `Ok(None)`) it
      * assigns its `&mut &[u8]` cursor a tail of the cursor's own old value, or
      * makes a consuming call (take_* / skip_* / read_* of bcder, quick-xml, std::io) on its `&mut` decoder / reader
        parameter whose failure is honoured, or calls a crate function for which the same holds.
    -> (ok, reason)."""
    if fn in _ADV:
        return _ADV[fn]
    _ADV[fn] = (True, "recursion")
    b = f.body(fn)
    if b is None or depth > 6:
        _ADV[fn] = (False, "no body")
        return _ADV[fn]
    oc = outcome(b)
    sy = oc.sym
    rets = oc.returns()
    passing = set(oc.fail_blocks)
    muts = [i for i in range(1, b.arg_count + 1) if (b.local_ty(i) or "").startswith("&mut ")]
    mnames = {b.local_name(i) or "_%d" % i for i in muts}
    if not muts:
        _ADV[fn] = (False, "no &mut input parameter")
        return _ADV[fn]
    # (a) cursor stores
    for bi, blk in enumerate(b.blocks):
        if blk.get("cleanup"):
            continue
        for st in blk["stmts"]:
            if st["s"] != "assign" or not st["pl"]["p"] or st["pl"]["p"][0][0] != "d" or len(st["pl"]["p"]) != 1:
                continue
            if st["pl"]["l"] not in muts or not re.match(r"^&mut &(mut )?(\[u8\]|str)$", b.local_ty(st["pl"]["l"]) or ""):
                continue
            v = strip_deep(sy.rvalue(st["rv"]))
            pn = b.local_name(st["pl"]["l"]) or "_%d" % st["pl"]["l"]
            own = any(x[0] == "param" and x[1] == pn for x in walk(v))
            tail = any(x[0] == "call" and (x[3] or {}).get("name") in _TAIL_OPS for x in walk(v))
            if own and tail and render(v) != pn:
                passing.add(bi)
    # (b) consuming calls on the decoder / reader parameter
    for c in b.calls():
        if b.is_cleanup(c.bb) or not c.is_static or not c.args:
            continue
        on_input = any(x[0] == "param" and x[1] in mnames for a in c.args for x in walk(strip_deep(sy.operand(a))))
        if not on_input:
            continue
        hit = False
        if c.res in f.bodies and "::{closure" not in (c.res or ""):
            hit = callee_advances(f, c.res, depth + 1)[0]
        elif c.krate in ("bcder", "quick_xml", "std", "core", "tokio") and \
                re.match(r"^(take_|skip_|read|capture|fill_buf|consume|next$)", c.name or ""):
            hit = True
        if hit and (call_checked(b, c.bb, oc)[0] or c.dest is None):
            passing.add(c.bb)
    # (c) returns that end the caller's loop: a bare None / Ok(None)
    for bi, blk in enumerate(b.blocks):
        if blk.get("cleanup"):
            continue
        for st in blk["stmts"]:
            if st["s"] == "assign" and st["pl"]["l"] == 0 and not st["pl"]["p"]:
                r = render(strip_deep(sy.rvalue(st["rv"])))
                if re.match(r"^(option::Option::None\{\}|result::Result::Ok\{0: option::Option::None\{\}\})$", r):
                    passing.add(bi)
    pth = b.path(0, rets, passing) if rets else None
    if pth is None:
        _ADV[fn] = (True, "every continuing path moves the input on")
    else:
        _ADV[fn] = (False, "a path returns success without moving the input on: lines %s" % [b.line_of(x) for x in pth][:12])
    return _ADV[fn]


def _every_round_passes(body, scc, blocks):
    """every cycle inside the loop `scc` goes through one of `blocks` (no way round the loop avoids them)."""
    rest = set(scc) - set(blocks)
    # a cycle within `rest`?  (iterative DFS with colours)
    colour = {}
    for start in rest:
        if start in colour:
            continue
        stack = [(start, iter([x for x in body.succs(start) if x in rest]))]
        colour[start] = 1
        while stack:
            node, it = stack[-1]
            nxt = next(it, None)
            if nxt is None:
                colour[node] = 2
                stack.pop()
                continue
            if colour.get(nxt) == 1:
                return False
            if nxt not in colour:
                colour[nxt] = 1
                stack.append((nxt, iter([x for x in body.succs(nxt) if x in rest])))
    return True


def loop_progress(f, body, scc):
    """Name of the progress class of a loop (SCC of blocks), or None."""
    calls = [c for c in body.calls() if c.bb in scc and not body.is_cleanup(c.bb)]
    for name, pred in PROGRESS:
        for c in calls:
            if pred(c):
                if name in ("decoder input", "xml element") and c.res in f.bodies and "::{closure" not in c.res:
                    # a function of the crate: its name is not an argument — it has to move its input on
                    if not callee_advances(f, c.res)[0]:
                        continue
                if name == "iterator":
                    # an endless source does not bound the loop by itself
                    src = render(strip_deep(K.sym_of(body).operand(c.args[0]))) if c.args else ""
                    if any(("iter::%s(" % s_) in src or ("Iterator::%s(" % s_) in src for s_ in INFINITE_SOURCES) \
                            or "RangeFrom{" in src:
                        continue
                return name
    # a slice local that every turn replaces by a strictly shorter tail of itself: `s = &s[i + 1..]`, `s = &s[1..]`,
    # `s = s.split_at(i + 1).1`, `(_, s) = s.split_first()?`
    sy = K.sym_of(body)
    for c in calls:
        if c.name not in ("index", "split_at", "split_first") or not c.args:
            continue
        base = strip_deep(sy.operand(c.args[0]))
        bl = None
        if base[0] == "var" and len(base) > 2 and isinstance(base[2], int):
            bl = base[2]
        elif base[0] == "param":
            for i in range(1, body.arg_count + 1):
                if body.local_name(i) == base[1]:
                    bl = i
        if bl is None or not any(d[0] in scc for d in body.defs().get(bl, [])):
            continue                          # the local is not re-assigned inside the loop
        # the assignments that store the tail this call produces — they have to lie on every way round the loop
        stores = set()
        for d in body.defs().get(bl, []):
            if d[0] not in scc:
                continue
            if d[2] == "call":
                if d[0] == c.bb:
                    stores.add(d[0])
                continue
            if d[2] in ("assign", "partial") and d[3].get("s") == "assign":
                v = strip_deep(sy.rvalue(d[3]["rv"]))
                if any(x[0] == "call" and len(x) > 3 and isinstance(x[3], dict) and x[3].get("bb") == c.bb and
                       x[3].get("name") == c.name for x in walk(v)):
                    stores.add(d[0])
        if not stores or not _every_round_passes(body, scc, stores):
            continue                          # … or only on some of the ways round it
        if c.name == "split_first":
            return "shrinking slice"
        arg = strip_deep(sy.operand(c.args[1])) if len(c.args) > 1 else None
        start = None
        if c.name == "index" and arg is not None and arg[0] == "agg" and arg[2] == "RangeFrom":
            start = dict(arg[3]).get("start")
        elif c.name == "split_at":
            start = arg
        if start is None:
            continue
        st_ = peel(start)
        cv = const_eval(st_)
        if cv is not None and cv >= 1:
            return "shrinking slice"
        pc = plus_const(st_)
        if pc and pc[1] >= 1:
            return "shrinking slice"
    return None


ALLOC_NAMES = ("with_capacity", "reserve", "reserve_exact", "resize", "resize_with", "repeat", "from_elem", "with_capacity_in",
               "try_reserve")


def alloc_arg_ok(t):
    """Is an allocation size a function of in-memory lengths and constants only?"""
    t = peel(t)
    k = t[0]
    if k in ("const", "len", "path", "static", "fnref", "cdef"):
        return True
    if k == "var" and var_const_values(t) is not None:
        return True
    if k in ("un", "bin", "call") and _is_boolish(t):
        return True
    if k == "cast":
        return alloc_arg_ok(t[1])
    if k == "field" and t[2] in ("0", "1") and t[1][0] == "bin":
        return alloc_arg_ok(t[1][2]) and alloc_arg_ok(t[1][3])
    if k == "field" and str(t[2]) == "0" and peel(t[1])[0] == "call" and (peel(t[1])[3] or {}).get("name") == "size_hint" and \
            (peel(t[1])[3] or {}).get("trait") == "std::iter::Iterator":
        return True         # the lower size hint of an in-memory iterator: how many items it is about to hand over, not a decoded number
    if k == "bin":
        return alloc_arg_ok(t[2]) and alloc_arg_ok(t[3])
    if k == "agg":
        return all(alloc_arg_ok(strip_deep(v)) for _, v in t[3])
    if k == "call":
        m = t[3] or {}
        if m.get("name") in LEN_NAMES and m.get("krate") in ("core", "std", "alloc", "bytes"):
            return True
        # a library function of lengths only (e.g. base64's decoded-length estimate, min/max)
        if m.get("krate") not in (None, "rpki"):
            return all(alloc_arg_ok(strip_deep(a)) for a in t[2])
    return False


# ======================================================================================
# the reviewed table
# ======================================================================================
def load_table():
    try:
        with open(TABLE) as fh:
            rows = json.load(fh)["rows"]
    except FileNotFoundError:
        rows = []
    return {"%s|%s|%s" % (r["fn"], r["kind"], r["shape"]): r for r in rows}


def rule_prefix_index(f, site):
    """P0-prefix: `a[b.len()]` / `a[b.len()..]` / `a[b.len() + 1..]` where the site is dominated by
    `a.starts_with(b)` (so b.len() <= a.len()) and, for the element access and the `+ 1` form, by
    `a.len() != b.len()` (so b.len() < a.len())."""
    parts = site.shape.split(" , ", 1)
    if len(parts) != 2:
        return None
    A = B = None
    strict = True
    if site.kind == "assert:BoundsCheck":
        m = re.match(r"^len\((.*)\)$", parts[0])
        n = re.match(r"^(?:str::|slice::)?len\((.*)\)$", parts[1])
        if m and n:
            A, B = m.group(1), n.group(1)
    elif site.kind == "call:index":
        A = parts[0]
        n = re.match(r"^ops::RangeFrom::RangeFrom\{start: AddWithOverflow\((?:str::|slice::)?len\((.*)\), 1\)\.0\}$", parts[1])
        if n:
            B = n.group(1)
        else:
            n = re.match(r"^ops::RangeFrom::RangeFrom\{start: (?:str::|slice::)?len\((.*)\)\}$", parts[1])
            if n:
                B, strict = n.group(1), False
    if A is None or B is None:
        return None
    g = set(site_guards(f, site))
    A2 = re.sub(r"^str::as_bytes\((.*)\)$", r"\1", A)
    pre = any("%s::starts_with(%s, %s)" % (ns, a, B) in g for ns in ("str", "slice") for a in (A, A2))
    ne = any(x in g for a in (A, A2) for x in ("str::len(%s) != str::len(%s)" % (B, a), "str::len(%s) != str::len(%s)" % (a, B),
                                               "slice::len(%s) != slice::len(%s)" % (B, a), "slice::len(%s) != slice::len(%s)" % (a, B)))
    if pre and (ne or not strict):
        return "dominated by starts_with(a, b)%s: b.len()%s is within a" % (" and a.len() != b.len()" if strict else "", " (+1)" if strict else "")
    return None


def rule_windows(f, site):
    """P0-windows: `w[k]` with k a constant below n, where w is the element a closure receives from an iterator over
    `slice.windows(n)` / `chunks_exact(n)` (each yields slices of exactly n elements — std's documented contract)."""
    if site.kind != "assert:BoundsCheck" or len(site.ops) != 2:
        return None
    k = const_eval(site.ops[1])
    ln = strip_deep(site.ops[0])
    if k is None or ln[0] != "len":
        return None
    base = strip_deep(ln[1])
    b = site.body
    n = None
    if base[0] == "param" and "{closure" in b.name and b.arg_count >= 2 and base[1] == b.local_name(2):
        # the closure's element parameter: look at what the closure is handed to
        parent = b.name.rsplit("::{closure", 1)[0]
        for pn in [parent] + [x for x in f.bodies if x.startswith(parent + "::{closure") and x != b.name]:
            pb = f.body(pn)
            if pb is None:
                continue
            for c in pb.calls():
                if c.trait != "std::iter::Iterator" or len(c.args) != 2:
                    continue
                a = K.arg_terms(c)
                ct = strip(a[1])
                if ct[0] == "closure" and ct[1] == b.name:
                    m = re.search(r"⟵slice::(windows|chunks_exact)\([^()]*, (\d+)\)$", render(a[0]))
                    if m:
                        n = int(m.group(2))
    else:
        m = re.match(r"^Iterator::next\(\w*⟵slice::(windows|chunks_exact)\([^()]*, (\d+)\)\)↓Some\.0$", render(base))
        if m:
            n = int(m.group(2))
    if n is not None and 0 <= k < n:
        return "element %d of a window of exactly %d elements" % (k, n)
    return None


def rule_nonempty(f, site):
    """P0-nonempty: `s[0]` / `s[1..]` where `s` is known to be non-empty by an inductive argument over the definitions
    of the local: after every definition of `s` from which the use can be reached, either a test `!s.is_empty()` (any
    spelling) lies on every path to the use, or the value assigned was itself tested non-empty before the assignment
    (`let tail = &s[1..]; if tail.is_empty() { return } s = tail;`)."""
    b = site.body
    base = None
    if site.kind == "assert:BoundsCheck" and len(site.ops) == 2 and const_eval(site.ops[1]) == 0:
        ln = strip_deep(site.ops[0])
        if ln[0] == "len":
            base = strip_deep(ln[1])
    elif site.kind == "call:index" and len(site.ops) == 2:
        rng = site.ops[1]
        if rng[0] == "agg" and rng[2] == "RangeFrom" and const_eval(dict(rng[3]).get("start")) == 1:
            base = strip_deep(site.ops[0])
        elif rng[0] == "agg" and rng[2] == "RangeTo":
            # `s[..s.len() - 1]`
            pc = peel(dict(rng[3]).get("end"))
            if pc[0] == "field" and pc[2] in ("0", 0) and pc[1][0] == "bin" and pc[1][1] == "SubWithOverflow" and const_eval(pc[1][3]) == 1:
                ln = peel(pc[1][2])
                bs = strip_deep(site.ops[0])
                inner = ln[1] if ln[0] == "len" else (ln[2][0] if ln[0] == "call" and (ln[3] or {}).get("name") == "len" and len(ln[2]) == 1 else None)
                if inner is not None and render(strip_deep(inner)) == render(bs):
                    base = bs
    elif site.kind == "assert:Overflow:Sub" and len(site.ops) == 2 and const_eval(site.ops[1]) == 1:
        ln = peel(site.ops[0])            # `s.len() - 1`
        if ln[0] == "len":
            base = strip_deep(ln[1])
        elif ln[0] == "call" and (ln[3] or {}).get("name") == "len" and len(ln[2]) == 1 and (ln[3] or {}).get("krate") in ("core", "std", "alloc", "bytes"):
            base = strip_deep(ln[2][0])
    if base is None:
        return None
    sy = K.sym_of(b)

    def nonempty_rx(text):
        bt = re.escape(text)
        pre = r"(slice::|str::|Vec::|Bytes::)?"
        return re.compile(r"^(!(slice|str|Vec|Bytes)::is_empty\(%s\)|0 != %slen\(%s\)|%slen\(%s\) != 0|0 < %slen\(%s\)|1 <= %slen\(%s\)"
                          r"|(str|slice)::(ends_with|starts_with)\(%s, (\d+|b'[^']+')\))$"
                          % (bt, pre, bt, pre, bt, pre, bt, pre, bt, bt))

    def tests(rx):
        """[(switch block, block entered when the literal holds)] for bool switches testing a literal matching rx."""
        out = []
        for sb in range(len(b.blocks)):
            t = b.term(sb)
            if t["t"] != "switch" or t.get("dty") != "bool" or b.is_cleanup(sb):
                continue
            edges = b.switch_edges(sb)
            for v, tb in edges:
                val = "1" if v is None else str(v)
                lit = K.canon_literal(b, sy.operand(t["discr"]), "bool", [val], len(edges))
                if rx.match(lit):
                    out.append((sb, tb, [x for _, x in edges if x != tb]))
        return out
    with K.keeping_local_names():
        me = nonempty_rx(K.alpha(render(base), b))
        my_tests = tests(me)

        def guarded_from(start):
            """Is the use unreachable from `start` once the failing edges of the non-empty tests are cut and the tests
            themselves must be passed?  (every path start → use crosses a test on its passing edge)"""
            if not my_tests:
                return False
            # every path start → use meets a test block (A), and the use cannot be reached from a failing edge of a
            # test without meeting a test again (B): so the last test met before the use was passed
            tb_ = [sb for sb, _, _ in my_tests]
            a_ = site.bb not in b.reachable(start, removed_blocks=tb_)
            b_ = all(fb != site.bb and site.bb not in b.reachable(fb, removed_blocks=tb_) for _, _, fbs in my_tests for fb in fbs)
            return a_ and b_
        if not (base[0] == "var" and len(base) > 2 and isinstance(base[2], int)):
            # not a re-assigned local: a dominating test suffices
            dom = b.dominators().get(site.bb, ())
            for sb, tb, _ in my_tests:
                if sb in dom and sb != site.bb and (site.bb == tb or site.bb in b.reachable(tb, removed_blocks=[sb])) \
                        and all(site.bb not in b.reachable(fb, removed_blocks=[sb]) for fb in _):
                    return "dominated by a test that the slice is not empty"
            return None
        defs = b.defs().get(base[2], [])
        if not defs:
            return None
        for d in defs:
            if d[2] not in ("assign", "call"):
                return None
            dbb = d[0]
            if dbb != site.bb and site.bb not in b.reachable(dbb):
                continue
            # (a) a test after the definition on every path to the use
            succs = b.succs(dbb) if dbb != site.bb else []
            if dbb != site.bb and all(guarded_from(x) or x in [sb for sb, _, _ in my_tests] for x in succs):
                continue
            # (b) the assigned value was tested before the assignment
            if d[2] == "assign":
                val = K.alpha(render(strip_deep(sy.rvalue(d[3]["rv"]))), b)
                vt = tests(nonempty_rx(val))
                dom = b.dominators().get(dbb, ())
                if any(sb in dom and (dbb == tb or dbb in b.reachable(tb, removed_blocks=[sb]))
                       and all(dbb not in b.reachable(fb, removed_blocks=[sb]) for fb in fbs) for sb, tb, fbs in vt):
                    continue
            return None
        return "every definition of the slice local is followed by, or made under, a test that it is not empty"


# io::Error values the crate builds itself on a writer path, reviewed: (function regex, why it cannot happen when the
# sink is a Vec<u8>)
WRITER_ERROR_SOURCES_REVIEWED = [
    (r"^<T as xml::encode::Text>::write_escaped$",
     "`formatter error` is returned only if a Display impl fails although the sink did not; the crate's Display impls "
     "only forward the formatter's own errors"),
]
_CG = {}


def rule_vec_writer(f, site):
    """P0-vecwriter: `unwrap()` of `x.write_…(&mut Vec::new())` where the callee returns `Result<(), io::Error>`, and
    nothing reachable from it builds an io::Error of its own or performs I/O other than `io::Write` calls: every error
    then originates from the sink, and `impl io::Write for Vec<u8>` never fails."""
    if site.kind not in ("call:unwrap", "call:expect") or not site.ops:
        return None
    t = peel(site.ops[0])
    if t[0] != "call" or t[1] not in f.fns:
        return None
    g = t[1]
    out_ty = f.fns[g].get("output") or ""
    if not re.match(r"^std::result::Result<\(\), std::io::Error>$", out_ty):
        return None
    if not any(re.match(r"^\w*⟵(Vec::new\(\)|Vec::with_capacity\(.*\)|vec::from_elem\(.*\))$", render(strip_deep(a))) for a in t[2]):
        return None
    cg = _CG.get(id(f))
    if cg is None or cg[0] is not f:
        cg = (f, CallGraph(f))
        _CG[id(f)] = cg
    reach, _ = callback_closure(f, cg[1], [g])
    bad = []
    for n in sorted(reach):
        b = f.body(n)
        if b is None:
            continue
        reviewed = any(re.search(rx, n) for rx, _ in WRITER_ERROR_SOURCES_REVIEWED)
        for c in b.calls():
            if b.is_cleanup(c.bb):
                continue
            res = c.res or ""
            fnname = c.name or ""
            if re.search(r"(^|::)io::(error::)?Error::(new|other|from_raw_os_error|last_os_error)$", res) or \
                    re.search(r"as std::convert::From<.*>>::from$", res) and "io::Error" in res or \
                    (fnname in ("into", "from") and "io::Error" in ((c.k or {}).get("ty") or "").rsplit("->", 1)[-1]):
                if not reviewed:
                    bad.append("%s builds an io::Error (%s)" % (short(n), short(res)))
            elif c.krate not in (None, "rpki") and "io::Error" in ((c.k or {}).get("ty") or "").rsplit("->", 1)[-1]:
                tr = c.trait or ""
                plumbing = tr.endswith("ops::Try") or tr.endswith("ops::FromResidual") or \
                    re.match(r"^(std|core)::(result::Result|option::Option)::<", c.fn or "") is not None or \
                    tr.endswith("ops::FnOnce") or tr.endswith("ops::FnMut") or tr.endswith("ops::Fn") or tr.endswith("convert::Into") and False
                if not (plumbing or tr.endswith("io::Write") or tr.endswith("fmt::Write") or fnname in ("write_fmt",)):
                    bad.append("%s performs other I/O (%s)" % (short(n), short(res)))
    if bad:
        return None
    return ("%s returns Result<(), io::Error>, writes into a fresh Vec<u8> (whose io::Write never fails) and nothing among the "
            "%d functions it can reach builds an io::Error or does other I/O" % (short(g), len(reach)))


BUFFER_FIELDS = {"uri::Rsync": "bytes", "uri::Https": "uri"}


MIN_OFFSET = {"uri::Rsync": 8, "uri::Https": 8}       # every offset field lies beyond "rsync://" / "https://" (the invariants above)


def rule_invariant_offsets(f, site):
    """P0-invariant: `self.buf[self.off..]`, `self.buf[..self.off]`, `self.buf[self.a..self.b]`, `self.buf[c..self.off]`
    with a constant c not beyond the scheme prefix, and `self.buf.split_at(self.off)`, where the offsets are the type's own
    offset fields into its own buffer (the buffer field itself, or the value seen through its own as_str / as_slice /
    Deref) — in bounds by the invariant that only the reviewed writers (R-WHO) can touch.  The buffer and the offsets
    must belong to the *same* value: `other.buf[..self.off]` is not covered."""
    if site.kind not in ("call:index", "call:split_at") or len(site.ops) != 2:
        return None
    base = peel(site.ops[0])
    if site.kind == "call:split_at":
        bounds = [("end", site.ops[1])]
        shape = "RangeTo"
    else:
        rng = site.ops[1]
        if rng[0] != "agg" or rng[2] not in ("RangeFrom", "RangeTo", "Range"):
            return None
        bounds = list(rng[3])
        shape = rng[2]
    # the buffer: self.<buffer field> (possibly seen through as_ref / deref / as_slice), or the value itself seen through
    # its own string / slice view
    while base[0] == "call" and (base[3] or {}).get("name") in ("as_ref", "deref", "as_slice", "as_bytes", "as_str") and len(base[2]) == 1:
        base = peel(base[2][0])
    adt = owner = None
    if base[0] == "field" and len(base) > 3 and base[3] in BUFFER_FIELDS and base[2] == BUFFER_FIELDS[base[3]] \
            and peel(base[1])[0] in ("param", "upvar"):
        adt, owner = base[3], render(peel(base[1]))
    elif base[0] == "param":
        # `&self[..]` through Deref<Target = str>: the parameter must be of one of the invariant types
        body = f.body(site.fn)
        if body is not None:
            for li in range(1, body.arg_count + 1):
                if (body.local_name(li) or "_%d" % li) == base[1]:
                    ty = (body.locals[li]["ty"] or "").lstrip("&").replace("mut ", "").strip()
                    ty = re.sub(r"^'\w+ ", "", ty)
                    if ty in BUFFER_FIELDS:
                        adt, owner = ty, render(base)
    if adt is None:
        return None
    seen = {}
    for nm, v in bounds:
        v = peel(v)
        if v[0] == "const" and isinstance(v[1], int) and not isinstance(v[1], bool) and nm == "start" and 0 <= v[1] <= MIN_OFFSET[adt]:
            seen[nm] = None
            continue
        if not (v[0] == "field" and len(v) > 3 and v[3] == adt and v[2] in OFFSET_FIELDS.get(adt, ()) and render(peel(v[1])) == owner):
            return None
        seen[nm] = v[2]
    if shape == "Range" and seen.get("start") is not None and seen.get("end") is not None:
        order = list(OFFSET_FIELDS[adt])
        if order.index(seen["start"]) > order.index(seen["end"]):
            return None
    return "slices the value's own buffer at its own offset field(s); their ordering and bounds are the type invariant kept by the reviewed writers"


# --------------------------------------------------------------------------------------
# P0-bound: upper bounds of index values relative to the length of the buffer they index
#
# The fact decided: "this usize value is at most  len(B) − Σ syms − d"  (B a buffer whose length cannot change: an
# array, a slice, a str, an untouched Bytes) and/or "at most the constant c".  Sources of such facts are the documented
# contracts of std — `position` / `rposition` / `find_map` over `enumerate` / `next` of `enumerate` yield element
# indices of what is iterated, `B[s..]` has `len(B) − s` elements, an array type `[T; N]` has N elements — and
# arithmetic on them (a checked `a − k` that did not panic is `a − k`; a checked sum that did not panic is the sum).
# Values that come out of a small crate function are bounded by the join over everything the function can return
# (an interval summary, parameters spelt as the arguments at the call).  Nothing is assumed about names.

class _UB:
    """`abs`: constant upper bound or None; `rel`: {(base render, syms): d} for `t <= len(base) − Σ syms − d`."""
    __slots__ = ("abs", "rel")

    def __init__(self, abs_=None, rel=None):
        self.abs = abs_
        self.rel = dict(rel or {})

    def known(self):
        return self.abs is not None or bool(self.rel)

    def __repr__(self):
        return "UB(abs=%r, rel=%r)" % (self.abs, self.rel)


_FIXED_LEN_TY = re.compile(r"^(\[.*\]|str|bytes::Bytes)$")
_BYTES_SHRINKERS = re.compile(r"^(truncate|clear|split_off|split_to|advance|copy_to_\w+|get_\w+|try_get_\w+|put\w*|extend\w*|resize|unsplit)$")
_TRANSPARENT_VIEW = ("iter", "iter_mut", "as_ref", "as_mut", "deref", "deref_mut", "as_slice", "as_mut_slice", "as_bytes",
                     "borrow", "borrow_mut", "into_iter", "as_str", "by_ref", "copied", "cloned")


class _Bounds:
    def __init__(self, f, body, depth=0, cgen=None):
        self.f = f
        self.b = body
        self.depth = depth
        self.cgen = cgen             # value of the function's only const generic parameter at the call being summarised
        self.alen = {}               # base render -> constant length (array types)
        self._base_terms = {}        # base render -> term

    # ---- buffers -------------------------------------------------------------------------------------------------
    def _ty_of(self, t):
        """MIR type of a place-like term (without references), or None."""
        b = self.b
        k = t[0]
        ty = None
        if k == "param":
            for i in range(1, b.arg_count + 1):
                if (b.local_name(i) or "_%d" % i) == t[1]:
                    if b.defs().get(i):
                        return None                              # a re-assigned parameter is not one value
                    ty = b.local_ty(i)
        elif k == "var" and len(t) > 2 and isinstance(t[2], int):
            ty = b.local_ty(t[2])
            if ty is not None and not re.match(r"^(&('\w+ )?(mut )?)*\[[^;\]]*; (\d+|[A-Z]\w*)\]$", ty):
                return None                                      # a re-assigned local: only its array type is a fact
        elif k == "field" and len(t) > 3 and t[3] in self.f.adts:
            for v in self.f.adts[t[3]]["variants"]:
                for fl in v["fields"]:
                    if str(fl["name"]) == str(t[2]):
                        ty = fl["ty"]
            if ty is not None and not re.match(r"^\[[^;\]]*; \d+\]$", ty):
                # a field that is not an array can be re-assigned through `&mut`: only below a parameter that is
                # neither mutable nor written to in this body
                root = strip_deep(t[1])
                while root[0] == "field":
                    root = strip_deep(root[1])
                ok = False
                if root[0] == "param":
                    for i in range(1, b.arg_count + 1):
                        if (b.local_name(i) or "_%d" % i) == root[1]:
                            ok = "&mut" not in (b.local_ty(i) or "&mut") and not re.search(r"&'\w+ mut ", b.local_ty(i) or "") \
                                and not b.defs().get(i)
                if not ok:
                    return None
        elif k == "repeat":
            n = t[2] if str(t[2]).isdigit() else self.cgen if re.match(r"^[A-Z]\w*$", str(t[2])) else None
            return "[_; %s]" % n if n is not None else None
        if ty is None:
            return None
        ty = re.sub(r"^(&('\w+ )?(mut )?)+", "", ty)
        if self.cgen is not None:
            # `[T; N]` in the generic body of a function with a single const parameter, instantiated at the call
            ty = re.sub(r"^\[([^;\]]*); [A-Z]\w*\]$", lambda m: "[%s; %d]" % (m.group(1), self.cgen), ty)
        return ty

    def base(self, t):
        """Render of the buffer a view / iterator term stands for, when its length is fixed; else None."""
        t = strip_deep(t)
        for _ in range(12):
            if t[0] == "mvar":
                if strip_deep(t[3])[0] in ("repeat", "agg", "call", "const", "bytes") and isinstance(t[2], int):
                    t = ("var", t[1], t[2])                      # a local array filled in place: its type has the length
                    break
                t = strip_deep(t[3])
            elif t[0] == "call" and (t[3] or {}).get("name") in _TRANSPARENT_VIEW and len(t[2]) == 1 and \
                    (t[3] or {}).get("krate") in ("core", "std", "alloc", "bytes"):
                t = strip_deep(t[2][0])
            elif t[0] == "cast":
                t = strip_deep(t[1])                             # unsizing `&[T; N]` → `&[T]`
            elif t[0] == "call" and (t[3] or {}).get("name") in ("index", "index_mut") and len(t[2]) == 2 and \
                    strip_deep(t[2][1])[0] == "agg" and strip_deep(t[2][1])[2] == "RangeFull":
                t = strip_deep(t[2][0])                          # `b[..]`
            else:
                break
        if t[0] == "call" and (t[3] or {}).get("name") in ("index", "index_mut") and len(t[2]) == 2:
            return None                                          # a sub-slice: handled by the caller (sub_base)
        ty = self._ty_of(t)
        if ty is None or not _FIXED_LEN_TY.match(ty):
            return None
        if ty == "bytes::Bytes" and any(c.krate == "bytes" and _BYTES_SHRINKERS.match(c.name or "") for c in self.b.calls()):
            return None
        r = render(t)
        m = re.match(r"^\[.*; (\d+)\]$", ty)
        if m:
            self.alen[r] = int(m.group(1))
        self._base_terms[r] = t
        return r

    def sub_base(self, t):
        """(base render, start term or None) for a view of `B` or of `B[s..]`."""
        t = strip_deep(t)
        for _ in range(12):
            if t[0] == "mvar":
                t = strip_deep(t[3])
            elif t[0] == "call" and (t[3] or {}).get("name") in _TRANSPARENT_VIEW and len(t[2]) == 1 and \
                    (t[3] or {}).get("krate") in ("core", "std", "alloc", "bytes"):
                t = strip_deep(t[2][0])
            elif t[0] == "cast":
                t = strip_deep(t[1])
            else:
                break
        if t[0] == "call" and (t[3] or {}).get("name") == "index" and len(t[2]) == 2 and \
                (t[3] or {}).get("krate") in ("core", "std", "alloc", "bytes"):
            rng = strip_deep(t[2][1])
            if rng[0] == "agg" and rng[2] == "RangeFrom":
                b = self.base(t[2][0])
                if b is not None:
                    return b, strip_deep(dict(rng[3])["start"])
            return None
        b = self.base(t)
        return (b, None) if b is not None else None

    # ---- lattice -------------------------------------------------------------------------------------------------
    def norm(self, u):
        for base, n in self.alen.items():
            d = u.rel.get((base, ()))
            if d is not None:
                u.abs = n - d if u.abs is None else min(u.abs, n - d)
        if u.abs is not None:
            for base, n in self.alen.items():
                u.rel[(base, ())] = max(u.rel.get((base, ()), n - u.abs), n - u.abs)
        return u

    def join(self, us):
        """What holds of a value that is one of several."""
        us = [self.norm(u) for u in us]
        if not us or any(not u.known() for u in us):
            return _UB()
        us = [self.norm(u) for u in us]                          # array lengths met while evaluating later alternatives
        out = _UB(max(u.abs for u in us) if all(u.abs is not None for u in us) else None)
        for key in us[0].rel:
            if all(key in u.rel for u in us):
                out.rel[key] = min(u.rel[key] for u in us)
        return out

    @staticmethod
    def both(u, v):
        """What holds of a value for which both sets of facts hold."""
        out = _UB(u.abs if v.abs is None else v.abs if u.abs is None else min(u.abs, v.abs), u.rel)
        for k_, d in v.rel.items():
            out.rel[k_] = max(out.rel.get(k_, d), d)
        return out

    def shift(self, u, k):
        """facts about `t + k` (k may be negative: a checked subtraction that did not panic)."""
        return _UB(None if u.abs is None else u.abs + k, {key: d - k for key, d in u.rel.items()})

    def add(self, ta, tb, depth=0):
        ua, ub = self.upper(ta, depth + 1), self.upper(tb, depth + 1)
        ca, cb = const_eval(ta), const_eval(tb)
        if ca is not None:
            return self.shift(ub, ca)
        if cb is not None:
            return self.shift(ua, cb)
        out = _UB(ua.abs + ub.abs if ua.abs is not None and ub.abs is not None else None)
        for (x, tx, y) in ((ua, ta, ub), (ub, tb, ua)):
            rx = render(strip_deep(tx))
            for (base, syms), d in y.rel.items():
                if rx in syms:                                   # s + (something <= len(B) − s − d)
                    rest = list(syms)
                    rest.remove(rx)
                    key = (base, tuple(rest))
                    out.rel[key] = max(out.rel.get(key, d), d)
                elif x.abs is not None:
                    key = (base, syms)
                    out.rel[key] = max(out.rel.get(key, d - x.abs), d - x.abs)
        return out

    # ---- values ---------------------------------------------------------------------------------------------------
    def upper(self, t, depth=0):
        t = strip_deep(t)
        if depth > 12:
            return _UB()
        c = const_eval(t)
        if c is not None:
            return self.norm(_UB(c)) if c >= 0 else _UB()
        k = t[0]
        # payload of an Option / Result
        if k == "field" and str(t[2]) == "0" and t[1][0] == "variant" and t[1][2] in ("Some", "Continue", "Ok"):
            return self.payload(t[1][1], (), depth + 1)
        if k == "field" and t[1][0] == "bin" and str(t[2]) == "0" and t[1][1] in ("AddWithOverflow", "SubWithOverflow"):
            if t[1][1] == "AddWithOverflow":
                return self.norm(self.add(t[1][2], t[1][3], depth))
            kk = const_eval(t[1][3])
            u = self.upper(t[1][2], depth + 1)
            return self.norm(self.shift(u, -kk)) if kk is not None and kk >= 0 else u      # a − b <= a (unsigned, no wrap)
        if k == "bin" and t[1] == "Add":
            return self.norm(self.add(t[2], t[3], depth))
        if k == "field":
            # a component of what an Option / Result / crate function carries: `f(x)?.1`, `find(..)↓Some.0.0`
            path = []
            x = t
            while x[0] == "field" and not (x[1][0] == "variant" and x[1][2] in ("Some", "Continue", "Ok")):
                path.insert(0, str(x[2]))
                x = strip_deep(x[1])
            if x[0] == "field" and str(x[2]) == "0":
                return self.payload(x[1][1], tuple(path), depth + 1)
            if x[0] == "call" and (x[3] or {}).get("krate") not in ("core", "std", "alloc", "bytes") and x[1] in self.f.bodies:
                return self.summary(x, tuple(path), depth)
            return _UB()
        if k == "len":
            b = self.base(t[1])
            return self.norm(_UB(None, {(b, ()): 0})) if b is not None else _UB()
        if k == "cast":
            # a non-negative value that fits the target type is unchanged by `as`
            u = self.upper(t[1], depth + 1)
            tr = _ity(str(t[2]))
            if tr is not None and u.abs is not None and u.abs <= tr[1]:
                return _UB(u.abs, u.rel if str(t[2]) in ("usize", "u64", "u128") else None)
            return _UB()
        if k == "var":
            vals = var_const_values(t)
            if vals is not None and min(vals) >= 0:
                return self.norm(_UB(max(vals)))
            old = _VAR_BODY[0]
            _VAR_BODY[0] = self.b
            try:
                alts = var_alternatives(t, 0)
            finally:
                _VAR_BODY[0] = old
            if alts and all(_find_var(a) is None or render(a) != render(t) for a in alts):
                return self.join([self.upper(a, depth + 3) for a in alts])
            return _UB()
        if k != "call":
            return _UB()
        m = t[3] or {}
        nm, kr, a = m.get("name"), m.get("krate"), t[2]
        std = kr in ("core", "std", "alloc", "bytes")
        if std and nm == "len" and len(a) == 1:
            b = self.base(a[0])
            return self.norm(_UB(None, {(b, ()): 0})) if b is not None else _UB()
        if std and nm in ("unwrap_or", "unwrap_or_default") and a:
            dflt = self.upper(a[1], depth + 1) if len(a) == 2 else _UB(0)
            return self.join([self.payload(a[0], (), depth + 1), dflt])
        if std and nm in ("unwrap", "expect", "unwrap_unchecked") and a:
            return self.payload(a[0], (), depth + 1)
        if std and nm == "min" and len(a) == 2:
            return self.norm(self.both(self.upper(a[0], depth + 1), self.upper(a[1], depth + 1)))
        if std and nm in ("from", "into", "clone") and len(a) == 1:
            return self.upper(a[0], depth + 1)
        if not std and t[1] in self.f.bodies:
            return self.summary(t, (), depth)
        return _UB()

    def payload(self, x, path, depth):
        """Facts about component `path` of what the Option / Result value x carries."""
        x = strip_deep(x)
        if depth > 12:
            return _UB()
        if x[0] == "agg" and x[2] in ("Some", "Ok", "Continue") and x[3]:
            return self.component(x[3][0][1], path, depth + 1)
        if x[0] != "call":
            return _UB()
        m = x[3] or {}
        nm, kr, a = m.get("name"), m.get("krate"), x[2]
        std = kr in ("core", "std", "alloc", "bytes")
        it = m.get("trait") == "std::iter::Iterator"
        if std and nm in ("branch", "ok_or", "ok_or_else", "ok", "filter", "copied", "cloned", "or", "as_ref", "map_err") and a and not it:
            return self.payload(a[0], path, depth + 1)
        if std and it and nm in ("position", "rposition") and len(a) == 2 and not path:
            return self.element_index(a[0])
        if std and not path and a and (re.match(r"^core::num::<impl std::str::FromStr for u(8|16|32|64|128|size)>::from_str$", m.get("res") or "")
                                       or (nm == "parse" and re.match(r"^u(8|16|32|64|128|size)$", str((m.get("ga") or ("",))[0])))):
            # an unsigned number parsed from a string of n bytes has at most n digits
            sx = strip_deep(a[0])
            if sx[0] == "field" and str(sx[2]) == "0" and sx[1][0] == "variant" and sx[1][2] == "Ok":
                sx = strip_deep(sx[1][1])
            if sx[0] == "call" and (sx[3] or {}).get("name") in ("from_utf8", "from_utf8_unchecked") and len(sx[2]) == 1 and \
                    (sx[3] or {}).get("krate") in ("core", "std", "alloc"):
                bs = self.base(sx[2][0])
                if bs is not None and bs in self.alen and self.alen[bs] <= 18:
                    return _UB(10 ** self.alen[bs] - 1)
            return _UB()
        if std and it and nm in ("find_map", "find", "next", "next_back", "last", "rfind") and a:
            src = strip_deep(a[0])
            if src[0] == "mvar":
                src = strip_deep(src[3])
            while src[0] == "call" and (src[3] or {}).get("name") in ("rev", "by_ref", "peekable") and len(src[2]) == 1:
                src = strip_deep(src[2][0])
                if src[0] == "mvar":
                    src = strip_deep(src[3])
            if not (src[0] == "call" and (src[3] or {}).get("name") == "enumerate" and len(src[2]) == 1
                    and (src[3] or {}).get("trait") == "std::iter::Iterator"):
                return _UB()
            idx = self.element_index(src[2][0])
            if nm != "find_map":
                return idx if path == ("0",) else _UB()            # the items are `(index, element)`
            clo = strip_deep(a[1]) if len(a) == 2 else None
            if clo is None or clo[0] != "closure":
                return _UB()
            if _closure_yields_index(self.f, clo[1], path):
                return idx
        if not std and x[1] in self.f.bodies:
            return self.summary(x, ("payload",) + tuple(path), depth)
        return _UB()

    def component(self, v, path, depth):
        """Facts about component `path` of the (tuple / struct) value v."""
        v = strip_deep(v)
        for i, p in enumerate(path):
            if v[0] == "agg":
                d = {str(fn_): val for fn_, val in v[3]}
                if p not in d:
                    return _UB()
                v = strip_deep(d[p])
            else:
                x = v                                            # not a literal aggregate: the remaining path of the value
                for q in path[i:]:
                    x = ("field", x, q, None)
                return self.upper(x, depth + 1)
        return self.upper(v, depth + 1)

    def element_index(self, it):
        """An index of an element of what `it` iterates over."""
        sb = self.sub_base(it)
        if sb is None:
            return _UB()
        base, start = sb
        if start is None:
            return self.norm(_UB(None, {(base, ()): 1}))
        c = const_eval(start)
        if c is not None:
            return self.norm(_UB(None, {(base, ()): 1 + c}))
        return _UB(None, {(base, (render(start),)): 1})

    def summary(self, call, path, depth):
        """Join over everything the crate function can return (component `path` of it); facts relative to a buffer of
        the callee are kept when that buffer is a parameter, spelt as the argument at this call."""
        if self.depth + 1 > 3:
            return _UB()
        cb = self.f.body(call[1])
        if cb is None or is_derived(cb) or "::{closure" in call[1] or len(cb.blocks) > 80:
            return _UB()
        vals = ret_values(cb)
        if not vals:
            return _UB()
        nums = [g for g in ((call[3] or {}).get("ga") or ()) if re.match(r"^\d+$", str(g))]
        sub = _Bounds(self.f, cb, self.depth + 1, cgen=int(nums[0]) if len(nums) == 1 else None)
        mapping = {}
        for i, a in enumerate(call[2]):
            mapping[cb.local_name(i + 1) or "_%d" % (i + 1)] = strip_deep(a)
        outs = []
        for v in vals:
            if path and path[0] == "payload":
                v = strip_deep(v)
                if v[0] == "agg" and v[2] in ("None", "Err", "Break"):
                    continue                                    # no payload on this return
                if v[0] == "call" and (v[3] or {}).get("name") == "from_residual" and \
                        ((v[3] or {}).get("trait") or "").endswith("ops::FromResidual"):
                    continue                                    # `?` leaving with the failure
                u = sub.payload(v, path[1:], depth + 1)
            else:
                u = sub.component(v, path, depth + 1)
            # re-spell the callee's buffers in the caller's terms
            ren = _UB(u.abs)
            for (base, syms), d in u.rel.items():
                if syms:
                    continue
                bt = sub._base_terms.get(base)
                if bt is not None:
                    nb = self.base(K._subst(bt, mapping))
                    if nb is not None:
                        ren.rel[(nb, ())] = d
            outs.append(ren)
        if not outs:
            return _UB()
        return self.join(outs)


def ret_values(body, limit=12):
    """Every term a body can return (the values assigned to the return place), a multiply defined carrier local followed to
    its definitions; None when the return place is built piecewise or there are too many."""
    sy = K.sym_of(body)
    out = []

    def expand(t, depth):
        t = strip_deep(t)
        if t[0] == "var" and len(t) > 2 and isinstance(t[2], int) and depth < 3:
            ds = body.defs().get(t[2], [])
            if not ds:
                return False
            for d in ds:
                if d[2] == "assign":
                    if not expand(sy.rvalue(d[3]["rv"]), depth + 1):
                        return False
                elif d[2] == "call":
                    out.append(strip_deep(sy.call(d[3], d[0])))
                else:
                    return False
            return True
        out.append(t)
        return True
    for d in body.defs().get(0, []):
        if body.is_cleanup(d[0]):
            continue
        if d[2] == "assign":
            if not expand(sy.rvalue(d[3]["rv"]), 0):
                return None
        elif d[2] == "call":
            out.append(strip_deep(sy.call(d[3], d[0])))
        else:
            return None
    return out if 0 < len(out) <= limit else None


def _closure_yields_index(f, cname, path):
    """Every `Some(..)` the closure `cname` — handed to `find_map` over an `enumerate()` — can return carries, at
    component `path`, the enumeration index (component 0 of the closure's own argument)."""
    cb = f.body(cname)
    if cb is None or cb.arg_count < 2:
        return False
    vals = ret_values(cb)
    if not vals:
        return False
    arg = cb.local_name(2) or "_2"
    some = 0
    for v in vals:
        v = strip_deep(v)
        if v[0] == "agg" and v[2] == "None":
            continue
        if not (v[0] == "agg" and v[2] == "Some" and v[3]):
            return False
        x = strip_deep(v[3][0][1])
        for p in path:
            if x[0] != "agg":
                return False
            d = {str(fn_): val for fn_, val in x[3]}
            if p not in d:
                return False
            x = strip_deep(d[p])
        x = peel(x)
        if not (x[0] == "field" and str(x[2]) == "0" and peel(x[1])[0] == "param" and peel(x[1])[1] == arg):
            return False
        some += 1
    return some > 0


# Types whose reviewed invariant (INVARIANT_TYPES, R-WHO) says: the most significant bit of element 0 of this field is clear.
SIGN_CLEAR_FIRST = {"repository::x509::Serial": "0"}


def rule_sign_bit(f, site):
    """P0-signbit: `i − 1` where the site is dominated by a test that element i of the octets of a value of an
    invariant-carrying type (x509::Serial) has its most significant bit set (`o[i] & 0x80 != 0`, `o[i] >= 0x80`,
    `o[i] > 0x7F`): by the type invariant kept by the reviewed writers (R-WHO) element 0 has that bit clear, so i != 0
    and the unsigned subtraction cannot wrap."""
    if site.kind != "assert:Overflow:Sub" or len(site.ops) != 2 or const_eval(site.ops[1]) != 1:
        return None
    b = site.body
    idx = alpha(render(strip_deep(site.ops[0])), b)
    owners = []
    for i in range(1, b.arg_count + 1):
        ty = re.sub(r"^(&('\w+ )?(mut )?)+", "", b.local_ty(i) or "")
        if ty in SIGN_CLEAR_FIRST and ty in INVARIANT_TYPES:
            nm = b.local_name(i)
            owners.append(("self" if nm == "self" else "%%%d" % i, SIGN_CLEAR_FIRST[ty], ty))
    if not owners:
        return None
    guards = set(site_guards(f, site))
    for nm, fld, ty in owners:
        wk = (id(f), ty)
        if wk not in _WRITERS or _WRITERS[wk][0] is not f:
            _WRITERS[wk] = (f, writers_of(f, ty))
        if site.fn in _WRITERS[wk][1]:
            continue                    # inside a function that builds / mutates the value the invariant is not a premise
        el = "%s.%s[%s]" % (nm, fld, idx)
        lits = ("0 != BitAnd(%s, 128)" % el, "128 <= %s" % el, "127 < %s" % el, "128 == BitAnd(%s, 128)" % el,
                "BitAnd(%s, 128) == 128" % el)
        if any(x in guards for x in lits):
            return ("element %s of the octets of a %s has its top bit set, which the type invariant (R-WHO %s:writers) excludes "
                    "for element 0: the index is at least 1" % (idx[:60], short(ty), short(ty)))
    return None


def _byte_len(f, B, t):
    """Constant number of bytes of a buffer term: an array `[u8; N]`, or the byte view (the type's own AsRef / AsMut<[u8]>
    impl, which hands out exactly size_of bytes — the premise P0-layout also rests on) of a packed fixed-layout struct."""
    b = B.base(t)
    if b is not None and b in B.alen:
        return B.alen[b]
    t = strip_deep(t)
    while t[0] == "mvar" and not isinstance(t[2], int):
        t = strip_deep(t[3])
    ty = None
    if t[0] == "mvar":
        ty = B.b.local_ty(t[2])
    elif t[0] == "param":
        for i in range(1, B.b.arg_count + 1):
            if (B.b.local_name(i) or "_%d" % i) == t[1]:
                ty = B.b.local_ty(i)
    if not ty:
        return None
    adt = re.sub(r"^(&('\w+ )?(mut )?)+", "", ty)
    rec = f.adts.get(adt)
    if rec is None or rec.get("size") is None:
        return None
    packed = "pack: Some" in str(rec.get("repr")) and "IS_C" in str(rec.get("repr"))
    has_view = any(n.startswith("<%s as std::convert::AsMut<[u8]>>::as_mut" % adt) or n.startswith("<%s as std::convert::AsRef<[u8]>>::as_ref" % adt)
                   for n in f.bodies)
    return rec["size"] if packed and has_view else None


def rule_equal_copy(f, site):
    """P0-copy: `dst.copy_from_slice(src)` where both sides have the same constant number of bytes (array types, byte views
    of packed structs by their layout size)."""
    if site.kind not in ("call:copy_from_slice", "call:clone_from_slice") or len(site.ops) != 2:
        return None
    B = _bounds_of(f, site.body)
    a, b = _byte_len(f, B, site.ops[0]), _byte_len(f, B, site.ops[1])
    if a is not None and a == b:
        return "destination and source both have exactly %d bytes (array type / layout size of the packed struct viewed)" % a
    return None


def rule_pair_slice(f, site):
    """P0-pair: `pair.0[..pair.1]` (or `[pair.1..]`) where `pair` is a local every definition of which is a literal
    (array of N elements, constant k) with k <= N — a header picked together with its length by a `match`."""
    if site.kind != "call:index" or len(site.ops) != 2:
        return None
    base, rng = peel(site.ops[0]), peel(site.ops[1])
    if not (base[0] == "field" and str(base[2]) == "0" and peel(base[1])[0] == "var"):
        return None
    v = peel(base[1])
    if rng[0] != "agg" or str(rng[1]).split("::")[-1] not in ("RangeTo", "RangeFrom", "RangeToInclusive"):
        return None
    bounds = [peel(x) for _, x in rng[3]]
    if len(bounds) != 1 or not (bounds[0][0] == "field" and str(bounds[0][2]) == "1" and peel(bounds[0][1]) == v):
        return None
    incl = str(rng[1]).endswith("Inclusive")
    b = site.body
    seen = 0
    for d in b.defs().get(v[2], []):
        if d[2] != "assign" or d[3]["rv"].get("r") != "agg" or d[3]["rv"].get("ak") != "tuple" or len(d[3]["rv"]["ops"]) != 2:
            return None
        arr_op, k_op = d[3]["rv"]["ops"]
        kk = k_op.get("k") if isinstance(k_op, dict) else None
        if not kk or not isinstance(kk.get("v"), int) or isinstance(kk.get("v"), bool):
            return None
        pl = arr_op.get("m") or arr_op.get("c")
        if not pl or pl["p"]:
            return None
        m = re.match(r"^\[[^;\]]+; (\d+)\]$", b.local_ty(pl["l"]) or "")
        if not m or kk["v"] + (1 if incl else 0) > int(m.group(1)) or kk["v"] < 0:
            return None
        seen += 1
    if seen:
        return "every definition of the pair is (an array of N elements, a constant cut position within N): %d definition(s)" % seen
    return None


_BND = {}
_WRITERS = {}


def _bounds_of(f, body):
    ent = _BND.get(id(body))
    if ent is None or ent[0] is not body:
        ent = (body, _Bounds(f, body))
        _BND[id(body)] = ent
    return ent[1]


def rule_bound(f, site):
    """P0-bound: the index / cut position / subtrahend is bounded by the length of the very buffer it is used on (or by a
    constant below the constant length), by the facts collected by `_Bounds`."""
    if len(site.ops) != 2:
        return None
    B = _bounds_of(f, site.body)
    old = _LEN_FACTS[0]
    _LEN_FACTS[0] = f

    def within(buf_len_term, buf_term, idx, slack):
        """idx <= len(buffer) − slack"""
        u = B.upper(idx)
        if not u.known():
            return None
        n = const_eval(buf_len_term) if buf_len_term is not None else None
        base = B.base(buf_term) if buf_term is not None else None
        if n is None and base is not None and base in B.alen:
            n = B.alen[base]
        u = B.norm(u)
        if n is not None and u.abs is not None and u.abs <= n - slack:
            return "at most %d, the buffer has %d elements" % (u.abs, n)
        if base is not None and u.rel.get((base, ()), -1) >= slack:
            return "at most len(%s) − %d by the contract of the std function it comes from" % (base, u.rel[(base, ())])
        return None
    try:
        if site.kind == "assert:BoundsCheck":
            ln = strip_deep(site.ops[0])
            r = within(ln if ln[0] != "len" else None, ln[1] if ln[0] == "len" else None, site.ops[1], 1)
            return r and "element index " + r
        if site.kind in ("call:index", "call:index_mut"):
            rng = strip_deep(site.ops[1])
            if rng[0] != "agg" or rng[2] not in ("RangeFrom", "RangeTo", "RangeToInclusive"):
                return None
            d = dict(rng[3])
            r = within(None, site.ops[0], d["start"] if rng[2] == "RangeFrom" else d["end"], 1 if rng[2] == "RangeToInclusive" else 0)
            return r and "cut position " + r
        if site.kind in ("call:split_at", "call:split_at_mut"):
            r = within(None, site.ops[0], site.ops[1], 0)
            return r and "cut position " + r
        if site.kind == "assert:Overflow:Sub":
            a = strip_deep(site.ops[0])
            if a[0] == "len" or const_eval(a) is not None:
                r = within(a if a[0] != "len" else None, a[1] if a[0] == "len" else None, site.ops[1], 0)
                return r and "subtrahend " + r
            if a[0] == "call" and (a[3] or {}).get("name") == "len" and len(a[2]) == 1 and (a[3] or {}).get("krate") in ("core", "std", "alloc", "bytes"):
                r = within(None, a[2][0], site.ops[1], 0)
                return r and "subtrahend " + r
        return None
    finally:
        _LEN_FACTS[0] = old


RULES = [("P0-const", lambda f, s, env: rule_const(s)),
         ("P0-range", lambda f, s, env: rule_type_range(f, s)),
         ("P0-arg", lambda f, s, env: rule_arg_const(s)),
         ("P0-len", lambda f, s, env: (_LEN_FACTS.__setitem__(0, f), rule_len_arith(s))[1]),
         ("P0-layout", lambda f, s, env: rule_layout(f, s)),
         ("P0-split", lambda f, s, env: (_LEN_FACTS.__setitem__(0, f), rule_find_split(f, s))[1]),
         ("P0-prefix", lambda f, s, env: rule_prefix_index(f, s)),
         ("P0-windows", lambda f, s, env: rule_windows(f, s)),
         ("P0-nonempty", lambda f, s, env: rule_nonempty(f, s)),
         ("P0-vecwriter", lambda f, s, env: rule_vec_writer(f, s)),
         ("P0-invariant", lambda f, s, env: rule_invariant_offsets(f, s)),
         ("P1-redecode", lambda f, s, env: rule_redecode(f, s, env["ber"], env["memo"])),
         ("P0-absint", lambda f, s, env: rule_absint(f, s)),
         ("P0-range", lambda f, s, env: rule_type_range(f, s, terms=True)),
         ("P0-bound", lambda f, s, env: rule_bound(f, s)),
         ("P0-signbit", lambda f, s, env: rule_sign_bit(f, s)),
         ("P0-copy", lambda f, s, env: rule_equal_copy(f, s)),
         ("P0-pair", lambda f, s, env: rule_pair_slice(f, s))]


def classify(f, sites):
    """-> [(site, rule or None, reason)]"""
    ber, _, _ = K.ber_reachable(f)
    env = {"ber": ber, "memo": {}}
    out = []
    for s in sites:
        for name, fn in RULES:
            r = fn(f, s, env)
            if r:
                out.append((s, name, r))
                break
        else:
            out.append((s, None, None))
    return out


def callback_closure(f, cg, roots):
    """Reachability plus rapid type analysis for callbacks: a value of a crate type built in a reachable body can be
    handed to a library (bcder's encoder, fmt, io) that calls the type's trait methods back, which the call graph
    cannot see — so the trait-impl methods of every ADT constructed in the reachable set are reachable too."""
    impl_methods = {}
    for n, r in f.fns.items():
        tr = r.get("impl_trait_full") or r.get("impl_trait")
        # only traits of other crates can be called back invisibly (crate-local trait calls are fanned out by the call
        # graph); `Arbitrary` is only ever driven by a fuzzer building values, never by a decoder or an accessor
        if tr and r.get("impl_adt") and r.get("has_body") and not OWN_TRAIT.match(tr) and not tr.startswith("arbitrary::"):
            impl_methods.setdefault(r["impl_adt"], []).append(n)
    roots = list(roots)
    reach = cg.reachable(roots)
    seen_adts = set()
    while True:
        new = []
        for n in list(reach):
            b = f.body(n)
            if b is None:
                continue
            for blk in b.blocks:
                if blk.get("cleanup"):
                    continue
                for st in blk["stmts"]:
                    if st["s"] == "assign" and st["rv"]["r"] == "agg" and st["rv"].get("ak") == "adt":
                        a = st["rv"]["adt"]
                        if a not in seen_adts:
                            seen_adts.add(a)
                            new += [m for m in impl_methods.get(a, []) if m not in reach]
        if not new:
            return reach, seen_adts
        roots += new
        reach = cg.reachable(roots)


def analyse(f):
    dec, acc, types = find_entries(f)
    cg = CallGraph(f)
    reach, _ = callback_closure(f, cg, dec + acc)
    sites = enumerate_sites(f, reach)
    return dec, acc, types, reach, sites, classify(f, sites)


def run(ctx):
    f = ctx.facts()
    ctx.rule("R-PANIC", "every panic-capable construct reachable from a decoder or an accessor of a decoded value is discharged "
                        "(P0 constant / argument / length arithmetic / split idiom / abstract interpretation, P1 re-decode of "
                        "captured data) or listed in the reviewed table")
    ctx.rule("R-WHO", "types whose private offsets index their own buffer are built and mutated only by the reviewed functions")
    ctx.rule("R-LOOP", "no recursion among decode-reachable functions; every loop advances an iterator, the decoder input or a reader")
    ctx.rule("R-ALLOC", "allocation sizes derive from in-memory lengths, never from decoded numbers")
    ctx.rule("R-SIB", "re-decoding uses the mode the data was captured in")
    dec, acc, types, reach, sites, cl = analyse(f)
    for label, adt in sorted(ROOT_TYPES.items()):
        mine = [d for d in dec if d.startswith(adt + "::") or d.startswith(adt + "::<")]
        ctx.ob("R-PANIC", "entry:%s" % label, bool(mine), "decoding entry point(s) of %s are part of the analysed set" % short(adt),
               detail=[short(m) for m in mine])
    ctx.floor("R-PANIC", "decoding entry points (exported fns over bcder decode types, decode/read of the object types)", len(dec), 70)
    ctx.floor("R-PANIC", "accessor / iterator / trait-method entry points of the decoded types", len(acc), 950)
    ctx.floor("R-PANIC", "bodies reachable from the entry points", len(reach), 2200)
    ctx.floor("R-PANIC", "panic-capable sites enumerated", len(sites), 200)
    for n in dec + acc:
        ctx.saw_fn(n)
    ctx.analysed["call_sites"] += len(sites)
    table = load_table()
    used = set()
    per_rule = {}
    by_key = {}
    for s, rule, why_, used_key in resolve_with_table(f, cl, table):
        key = s.key()
        if used_key is not None:
            used.add(used_key)
        per_rule[rule or "unresolved"] = per_rule.get(rule or "unresolved", 0) + 1
        by_key.setdefault(key, []).append((s, rule, why_))
    for key, lst in by_key.items():
        # same function, same construct, same provenance: one obligation (every instance must be discharged)
        bad = [x for x in lst if x[1] is None]
        s, rule, why_ = (bad or lst)[0]
        ctx.ob("R-PANIC", key, not bad,
               "%s in %s cannot fire [%s]" % (s.kind, short(s.fn), rule or why_ or "no rule applies and not in the reviewed table"),
               where=s.where, detail={"rule": rule, "reason": why_, "operands": s.shape, "macro": s.macro, "instances": len(lst)})
    ctx.note("R-PANIC sites by rule: %s" % json.dumps(per_rule, sort_keys=True))
    ctx.note("reviewed table rows: %d, matched on this tree: %d" % (len(table), len(used)))
    for r in ("P0-const", "P0-len", "P0-split", "P1-redecode", "P0-absint"):
        ctx.floor("R-PANIC", "sites discharged by " + r, per_rule.get(r, 0), {"P0-const": 25, "P0-len": 10, "P0-split": 15,
                                                                              "P1-redecode": 7, "P0-absint": 8}[r])

    check_preconditions(ctx, f)

    # the one panic arm of validation that a *length* keeps out of reach: SignedAttrs::encode_verify can write lengths up to
    # 65535 and panics beyond; the decoder must refuse longer captures (decoder limit and encoder limit are two sites that
    # have to agree), and the header the encoder writes is decided for every length region
    ctx.rule("R-REG", "outcome regions by abstract interpretation equal the spec table")
    ctx.rule("R-GRD", "success requires the guard literal")
    K.check_encode_verify(ctx, f)

    # ---- invariant owners ------------------------------------------------------------------------------
    for adt, (reviewed, inv) in sorted(INVARIANT_TYPES.items()):
        rec = f.adts.get(adt)
        if rec is None:
            ctx.missing("R-WHO", short(adt), adt)
            continue
        priv = all(fl.get("vis") != "pub" for v in rec["variants"] for fl in v["fields"])
        got = sorted(writers_of(f, adt))
        extra = [g for g in got if g not in reviewed]
        ctx.ob("R-WHO", "%s:writers" % short(adt), priv and not extra,
               "%s has private fields and is built / mutated only by the reviewed functions (invariant: %s)" % (short(adt), inv),
               detail={"found": got, "unreviewed": extra, "fields_private": priv})

    # ---- recursion -----------------------------------------------------------------------------------
    rec = recursion_sccs(f, reach)
    ctx.ob("R-LOOP", "no-recursion", not rec, "no function reachable from a decoder or accessor calls itself, directly or mutually "
           "(nesting depth of the input cannot drive the stack)", detail=rec or None)

    # ---- loops ---------------------------------------------------------------------------------------
    table_loops = load_loop_table()
    nloops = 0
    classes = {}
    for n in sorted(reach):
        b = f.body(n)
        if b is None or is_derived(b):
            continue
        sccs = b.cycles_sccs()
        if not sccs:
            continue
        unresolved = 0
        for scc in sccs:
            nloops += 1
            pr = loop_progress(f, b, scc)
            if pr is None:
                unresolved += 1
            else:
                classes[pr] = classes.get(pr, 0) + 1
        fn = root_fn(f, n)
        row = table_loops.get(fn)
        ok = unresolved == 0 or (row is not None and unresolved <= row["loops"])
        if unresolved and ok:
            classes["table"] = classes.get("table", 0) + unresolved
        if unresolved or row is not None:
            ctx.ob("R-LOOP", "%s:loop-progress" % fn, ok,
                   "every loop of %s advances an iterator, the decoder input or a reader%s"
                   % (short(fn), "" if not unresolved else "; the %d that do not terminate because: %s"
                      % (unresolved, row["reason"] if row else "NOT REVIEWED")), where=b.loc)
        elif ctx.view is not None:
            # in a rewritten view also say so when a function's loops are all fine (so that a failure seen on the program
            # as written can be matched)
            ctx.ob("R-LOOP", "%s:loop-progress" % fn, True, "every loop of %s advances an iterator, the decoder input or a reader" % short(fn),
                   where=b.loc, nontrivial=False)
    ctx.floor("R-LOOP", "loops in decode-reachable functions", nloops, 85)
    ctx.note("R-LOOP loops by progress class: %s" % json.dumps(classes, sort_keys=True))

    # ---- allocations -----------------------------------------------------------------------------------
    nalloc = 0
    for n in sorted(reach):
        b = f.body(n)
        if b is None or is_derived(b):
            continue
        for c in b.calls():
            if b.is_cleanup(c.bb) or c.name not in ALLOC_NAMES or c.krate not in ("alloc", "std", "core", "bytes"):
                continue
            nalloc += 1
            args = K.arg_terms(c)
            size = args[-1] if c.name in ("with_capacity", "repeat", "with_capacity_in") else (args[1] if len(args) > 1 else None)
            _VAR_BODY[0] = b
            ok = size is not None and alloc_arg_ok(size)
            fn = root_fn(f, n)
            why_ = "derives from buffer lengths and constants only"
            if not ok and fn in ALLOC_TABLE and alpha(render(strip_deep(size)), b) == ALLOC_TABLE[fn][0]:
                ok, why_ = True, ALLOC_TABLE[fn][1]
            ctx.ob("R-ALLOC", "%s:%s(%s)" % (fn, c.name, alpha(render(strip_deep(size))[:120], b) if size else "?"), ok,
                   "allocation size in %s %s" % (short(fn), why_ if ok else "is not derived from in-memory lengths"), where=c.where())
    ctx.floor("R-ALLOC", "sized allocations in decode-reachable functions", nalloc, 5)

    # ---- modes ---------------------------------------------------------------------------------------
    K.check_redecode_modes(ctx, f, rule="R-SIB")
    ctx.floor("R-SIB", "captured fields handed to bcder encoders", K.check_encode_modes(ctx, f, rule="R-SIB", reach=reach), 4)


ALLOC_TABLE = {
    "uri::Rsync::canonical_module": ("self.path_start", "path_start <= bytes.len() (type invariant, see R-WHO uri::Rsync)"),
}

LOOP_TABLE = os.path.join(HERE, "tables", "loops.json")


def load_loop_table():
    try:
        with open(LOOP_TABLE) as fh:
            return {r["fn"]: r for r in json.load(fh)["rows"]}
    except FileNotFoundError:
        return {}


# ======================================================================================
# guards a tabled reason leans on
# ======================================================================================
dominating_guards = K.dominating_guards


_CLASS_RANGES = {"is_ascii_digit": (48, 57), "is_ascii_uppercase": (65, 90), "is_ascii_lowercase": (97, 122)}


def implied_literals(guards):
    """Literals that follow from a guard by the documented meaning of a std predicate: `c.is_ascii_digit()` is
    `48 <= c && c <= 57` (same vocabulary as a range pattern `'0'..='9'`)."""
    out = []
    for g in guards:
        m = re.match(r"^(?:\w+::)*(is_ascii_\w+)\((.*)\)$", g)
        if m and m.group(1) in _CLASS_RANGES:
            lo, hi = _CLASS_RANGES[m.group(1)]
            out.append("%d <= %s" % (lo, m.group(2)))
            out.append("%s <= %d" % (m.group(2), hi))
    return out


def leaf_signature(shape):
    """What a construct computes from, whatever the producers in between are called: the integer constants and the
    input roots (self paths, positional parameters, captures) of its operands."""
    consts = sorted(re.findall(r"(?<![\w.#%$:])\d+(?![\w.]|\s*:)", shape))
    # roots by name only: `self.bits` and `PublicKey::bits(self)` are the same input; a capture (`^`) inside a closure
    # stands for whatever was captured, so it is compatible with any root
    roots = sorted(set(re.findall(r"(?<![\w.:])(?:self|%\d+|\^)", shape)))
    return (tuple(consts), tuple(roots))


def signatures_agree(a, b):
    if a[0] != b[0]:
        return False
    return a[1] == b[1] or "^" in a[1] or "^" in b[1]


def resolve_with_table(f, cl, table):
    """Table discharge of the sites no P0/P1 rule discharges.  A row vouches for
       (1) the construct it was written for (same function, kind, operand provenance);
       (2) an identical construct elsewhere, when its own site is gone (code moved: helper extracted / folded);
       (3) a re-spelt construct in the same function, when its own site is gone: same kind, same integer constants and
           same input roots (`find_map(enumerate(x))` → `position(x)`), one row per site;
    always provided the guard witnesses of the row still hold at the site.  -> [(site, rule, why, table key used)]"""
    present = {s.key() for s, _, _ in cl}
    free_rows = {}
    free_fn = {}
    for k, row in table.items():
        if k not in present:
            free_rows.setdefault((row["kind"], re.sub(r"%\d+", "%", row["shape"])), []).append(row)
            free_fn.setdefault((row["fn"], row["kind"]), []).append((k, row, leaf_signature(row["shape"])))
    taken = set()
    out = []
    for s, rule, why_ in cl:
        key = s.key()
        row = table.get(key)
        how = ""
        used = key
        if rule is None and row is None and free_rows.get((s.kind, re.sub(r"%\d+", "%", s.shape))):
            row = free_rows[(s.kind, re.sub(r"%\d+", "%", s.shape))][0]
            how = " [row of %s: the construct moved]" % short(row["fn"])
        if rule is None and row is None:
            # (4) a row whose reason was written for a family of functions (one impl per integer type …): the same
            #     construct (kind and operand provenance) in another member of the family
            for k2, r2 in table.items():
                if r2.get("fn_family") and r2["kind"] == s.kind and re.sub(r"%\d+", "%", r2["shape"]) == re.sub(r"%\d+", "%", s.shape) \
                        and re.search(r2["fn_family"], s.fn):
                    row, used = r2, k2
                    how = " [row of the family %s]" % r2["fn_family"]
                    break
        if rule is None and row is None:
            mysig = leaf_signature(s.shape)
            for k2, r2, sig2 in free_fn.get((s.fn, s.kind), []):
                if k2 not in taken and signatures_agree(mysig, sig2):
                    taken.add(k2)
                    row, used = r2, k2
                    how = " [row written for `%s`: same constants and inputs, re-spelt]" % r2["shape"][:80]
                    break
        if rule is None and row is not None:
            need = row.get("guards") or []
            have = site_guards(f, s) if need else []
            have = have + implied_literals(have)
            miss = guards_missing(need, have)
            for rg in row.get("remote") or []:
                okr, whyr = remote_guard_holds(f, rg["fn"], rg["guard"])
                if not okr:
                    miss.append("%s: %s" % (short(rg["fn"]), whyr))
            if miss:
                why_ = "tabled, but the guard(s) its reason relies on no longer hold: %s" % miss
                used = None
            else:
                rule, why_ = "P2-table", row["reason"] + how
        else:
            used = None
        out.append((s, rule, why_, used))
    return out


def site_guards(f, site):
    """Guards of the site in its own body, plus — for a closure — the guards of the place it is created in."""
    out = dominating_guards(f, site.body, site.bb)
    b = site.body
    seen = 0
    while b.rec.get("root") and b.name != b.rec.get("root") and seen < 6:
        seen += 1
        parent = None
        for n2, b2 in f.bodies.items():
            if not (n2 == b.rec["root"] or n2.startswith(b.rec["root"] + "::{closure")):
                continue
            for bi, blk in enumerate(b2.blocks):
                for st in blk["stmts"]:
                    if st["s"] == "assign" and st["rv"]["r"] == "agg" and st["rv"].get("def") == b.name:
                        parent = (b2, bi)
        if parent is None:
            break
        out += dominating_guards(f, parent[0], parent[1])
        b = parent[0]
    return out


# ======================================================================================
# documented preconditions: asserted in the callee, established at every caller
# ======================================================================================
PRECOND = {
    "repository::resources::ipres::Prefix::new": {
        "arg": 1, "what": "len <= 128",
        "callers": [
            # (caller regex, argument shape regex, guard regexes, why)
            (r"ipres::Prefix::all$", r"^0$", [], "constant"),
            (r"ipres::Prefix::from_bit_string$", r"^\(BitString::bit_len\(%1\) as u8\)$", [r"^BitString::octet_len\(%1\) <= 16$"],
             "at most 16 octets, so at most 128 bits"),
            (r"ipres::AddressRange::to_v6_prefixes$", r"^\(SubWithOverflow\(128, cmp::min\(", [], "128 - x without overflow is <= 128"),
            (r"ipres::AddressRange::to_v4_prefixes$", r"^\(SubWithOverflow\(32, cmp::min\(", [], "32 - x without overflow is <= 32"),
            (r"ipres::AddressRange::(min|max)_to_prefix$", r"^SubWithOverflow\(128, \(num::trailing_zeros\(", [], "128 - x without overflow is <= 128"),
            (r"ipres::AddressRange::into_prefix$", r"^\(num::leading_zeros\(BitXor\(", [], "leading_zeros of a u128 is <= 128"),
            (r"ipres::Prefix::from(_v4|_v6)?_str_sep$", r"^Try::branch\(FromStr::from_str\(", [],
             "text parser (not a decoder): the length is compared with 32 / 128 and an error is returned first"),
            (r"roa::RoaIpAddress::new_addr$", r"^%2$", [], "public constructor forwarding its documented precondition"),
            (r"From<resources::addr::Prefix> for repository::resources::ipres::IpBlock>::from$", r"^Prefix::len\(%1\)$", [],
             "addr::Prefix::len() is <= 128 by that type's invariant (C13)"),
        ]},
    "util::hex::encode": {
        "arg": 1, "what": "dest.len() >= 2 * src.len()",
        "callers": [
            (r"crypto::keys::KeyIdentifier", r"^⟵\[0; 40\]$", [], "a key identifier is 20 octets, the buffer 40"),
        ]},
}


def check_preconditions(ctx, f):
    for callee, spec in sorted(PRECOND.items()):
        if f.body(callee) is None:
            ctx.missing("R-PANIC", "precondition:" + short(callee), callee)
            continue
        n = 0
        for c in calls_to(f, lambda c, callee=callee: c.res == callee):
            b = c.body
            if b.is_cleanup(c.bb) or is_derived(b):
                continue
            n += 1
            shape = alpha(render(K.arg_terms(c)[spec["arg"]]), b)
            guards = dominating_guards(f, b, c.bb)
            ok, why_ = False, "caller / argument not among the reviewed ones"
            for crx, arx, grx, reason in spec["callers"]:
                if re.search(crx, root_fn(f, b.name)) and re.search(arx, shape):
                    miss = [g for g in grx if not any(re.search(g, x) for x in guards)]
                    if miss:
                        why_ = "guard no longer dominates the call: %s" % miss
                    else:
                        ok, why_ = True, reason
                    break
            ctx.ob("R-PANIC", "precondition:%s@%s(%s)" % (short(callee), root_fn(f, b.name), shape[:80]), ok,
                   "%s establishes %s of %s: %s" % (short(root_fn(f, b.name)), spec["what"], short(callee), why_),
                   where=c.where(), detail={"argument": shape, "guards": guards})
        ctx.floor("R-PANIC", "callers of %s" % short(callee), n, 1)


def guards_missing(need, have):
    """Guard specs not satisfied by the dominating conditions `have`; a spec "2×<regex>" demands two matching conditions."""
    miss = []
    for g in need:
        m = re.match(r"^(\d+)×(.*)$", g, re.S)
        n, rx = (int(m.group(1)), m.group(2)) if m else (1, g)
        if sum(1 for x in have if re.search(rx, x)) < n:
            miss.append(g)
    return miss


def remote_guard_holds(f, fn, rx):
    """In `fn` (closures included) some branch tests a condition matching rx, and one of its edges cannot reach a
    success return — i.e. the function still rejects what the tabled reason says it rejects."""
    found = False
    for n, b in f.bodies.items():
        if not (n == fn or n.startswith(fn + "::{closure")):
            continue
        oc = None
        s = K.sym_of(b)
        for bi, blk in enumerate(b.blocks):
            t = blk["term"]
            if t["t"] != "switch" or blk.get("cleanup"):
                continue
            dt = strip_deep(s.operand(t["discr"]))
            d = alpha(render(dt), b)
            if not re.search(rx, d):
                # the same test seen through `?` / map_err / as_ref …: `f(x).map_err(g)?` still branches on f(x)
                from engine.rules import peel_variant_keeping
                alt = None
                if dt[0] == "discr":
                    x = dt[1]
                    for _ in range(4):
                        x2 = peel_variant_keeping(x)
                        if x2[0] == "call" and (x2[3] or {}).get("name") == "branch" and len(x2[2]) == 1 and \
                                ((x2[3] or {}).get("trait") or "").endswith("ops::Try"):
                            x2 = strip_deep(x2[2][0])
                        if x2 is x or render(x2) == render(x):
                            break
                        x = x2
                    alt = alpha("discr(%s)" % render(x), b)
                if alt is None or not re.search(rx, alt):
                    continue
            found = True
            if oc is None:
                oc = outcome(b)
                ok_reach = oc.success_reach()
            if any(tb not in ok_reach for _, tb in b.switch_edges(bi)):
                return True, None
    return False, ("the branch exists but none of its edges rejects" if found else "no branch tests " + rx)


def check_reachable_sites(ctx, f, entries, what, floor_entries, floor_sites):
    """The C04 site discipline for another entry set (used by the properties whose statement includes "does not panic")."""
    ctx.rule("R-PANIC", "panic-capable constructs reachable from %s are discharged or in the reviewed table" % what)
    cg = CallGraph(f)
    reach, _ = callback_closure(f, cg, entries)
    sites = enumerate_sites(f, reach)
    table = load_table()
    cl = classify(f, sites)
    ctx.floor("R-PANIC", "entry points: %s" % what, len(entries), floor_entries)
    ctx.floor("R-PANIC", "panic-capable sites reachable from them", len(sites), floor_sites)
    by_key = {}
    for s, rule, why_, _used in resolve_with_table(f, cl, table):
        by_key.setdefault(s.key(), []).append((s, rule, why_))
    for key, lst in by_key.items():
        bad = [x for x in lst if x[1] is None]
        s, rule, why_ = (bad or lst)[0]
        ctx.ob("R-PANIC", key, not bad, "%s in %s cannot fire [%s]" % (s.kind, short(s.fn), rule or why_ or "no rule applies and not in the reviewed table"),
               where=s.where, detail={"rule": rule, "reason": why_, "operands": s.shape})
    return reach, sites
