"""C08 — RTR server answers depend on the query bytes, not on how they arrive
(structural clauses; DESIGN §2 C08.a–c).  Schedule-quantified equality is NOT decided."""
import re
from engine import absint
from engine.absint import outcome_str
from engine.rules import (MustPass, outcome, calls_to, root_fn, success_values, call_checked)
from engine.rules import bool_atom, switch_bool_edges, derived_locals, switch_on_locals, aggregates_of
from engine.sym import strip, strip_deep, render, walk, short, unmut, Sym
from props import common as K

META = {
    "level": "other",
    "technique": "static analysis of type-checked MIR (rustc_private driver): cancellation-safety dataflow on coroutine MIR (what a dropped future owns); event-order automaton over success paths; abstract-interpretation decision tables",
    "explanation": "Cancellation-safety rule on the pre-transform coroutine MIR: a future raced with select must not "
                   "(transitively) perform a multi-step read into storage it owns, nor keep the position of a looped single read "
                   "in its own state; event-order automaton over every success "
                   "path of the responders (CacheResponse, payload PDUs only, EndOfData, flush — or exactly one "
                   "CacheReset/Error); one responder per query kind and Serial Notify only from the dispatch loop; the "
                   "version / length / PDU-type decision tables of the receive path computed by abstract interpretation and "
                   "compared with the RFC error codes; the negotiated version is written only where the connection is created, by the version check and by the receive path.",
    "not_decided": ["independence of the response sequence from fragmentation and notify interleaving for all schedules"],
    "trusted_base": ["tokio write_all/flush", "futures_util::future::select drops the losing future"],
}

SRV = "rtr::server::Connection::<Sock, Source>::"
PDU = "rtr::pdu::"


def _nogen(x):
    prev = None
    while prev != x:
        prev = x
        x = re.sub(r"(::)?<[^<>]*>", "", x)
    return x



# ---------------------------------------------------------------------------------------------------------------
# anchors: the functions the rules talk about are found by what they do / which types they handle; the private
# names they had at review time are only the first guess

def _field_of_type(f, adt, ty_rx, default):
    """Name of the (single) field of `adt` whose type matches `ty_rx`; `default` if there is no such single field."""
    a = f.adts.get(adt)
    if a:
        hits = [fl["name"] for v in a["variants"] for fl in v["fields"] if re.match(ty_rx, fl["ty"])]
        if len(hits) == 1:
            return hits[0]
    return default


def _server_private_fns(f):
    return [n for n, r in f.fns.items() if n.startswith("rtr::server::") and not r.get("exported") and r.get("has_body")
            and f.body(n) is not None]


def _stores_field(b, field):
    return [bi for bi, blk in enumerate(b.blocks) if not b.is_cleanup(bi) for st in blk["stmts"]
            if st["s"] == "assign" and any(p[0] == "f" and p[1] == field for p in st["pl"]["p"])]


def find_check_version(f, vf):
    """The (non-async) function that remembers the client's version: it assigns the connection's Option<u8> field."""
    if f.body(SRV + "check_version") is not None:
        return SRV + "check_version"
    c = [n for n in _server_private_fns(f) if not f.fns[n].get("async") and _stores_field(f.body(n), vf)
         and any("rtr::pdu::Header" in i for i in f.fns[n].get("inputs", []))]
    return c[0] if len(c) == 1 else None


def find_check_length(f):
    """The (non-async) function that compares the header's length field with an expected u32."""
    if f.body(SRV + "check_length") is not None:
        return SRV + "check_length"
    c = [n for n in _server_private_fns(f) if not f.fns[n].get("async") and "u32" in f.fns[n].get("inputs", [])
         and any(x.res == PDU + "Header::length" for x in f.body(n).calls())]
    return c[0] if len(c) == 1 else None


def find_dispatch(f):
    """The coroutine that matches on a received Query with one arm per kind (the dispatch loop)."""
    n = SRV + "run::{closure#0}"
    if f.body(n) is not None:
        return n
    adt = f.adts.get("rtr::server::Query")
    nv = len(adt["variants"]) if adt else 4
    c = []
    for n, b in f.bodies.items():
        if not n.startswith("rtr::server::") or not b.is_coroutine:
            continue
        for blk in b.blocks:
            t = blk["term"]
            if t["t"] == "switch" and len(t["targets"]) >= nv - 1:
                pl = t["discr"].get("m") or t["discr"].get("c")
                if pl is None:
                    continue
                for d in b.defs().get(pl["l"], []):
                    if d[2] == "assign" and d[3]["rv"]["r"] == "discr" and "rtr::server::Query" == b.local_ty(d[3]["rv"]["pl"]["l"]).lstrip("&").replace("mut ", ""):
                        c.append(n)
    c = sorted(set(c))
    return c[0] if len(c) == 1 else None


def find_recv(f, dispatch):
    """The receive function: the async fn producing a Query that the dispatch loop awaits."""
    n = SRV + "recv::{closure#0}"
    if f.body(n) is not None:
        return n
    db = f.body(dispatch) if dispatch else None
    if db is None:
        return None
    c = sorted({x.res for x in db.calls() if x.is_static and not db.is_cleanup(x.bb) and x.res in f.fns and f.fns[x.res].get("async")
                and "rtr::server::Query" in (f.fns[x.res].get("output") or "") and f.body(x.res + "::{closure#0}") is not None})
    return c[0] + "::{closure#0}" if len(c) == 1 else None


# ---------------------------------------------------------------------------------------------------------------
# constants: a named constant is its value, also when it is a field of a constant aggregate (`ErrorCode::X.0`)

def const_agg(f, t, depth=0):
    t = unmut(strip_deep(t))
    if t[0] == "agg":
        return t
    if t[0] == "cdef" and depth < 4:
        cb = f.body(t[1])
        if cb is not None and not cb.arg_count:
            return const_agg(f, Sym(cb).local(0), depth + 1)
    return None


def const_int(f, t, depth=0):
    """Integer value of a term built from literals, named constants, fields of constant aggregates, newtype wrappers."""
    if depth > 6:
        return None
    t = K.fold_consts(unmut(strip_deep(t)), f.consts)
    if t[0] == "const" and isinstance(t[1], int) and not isinstance(t[1], bool):
        return t[1]
    if t[0] == "cast":
        return const_int(f, t[1], depth + 1)
    if t[0] == "field":
        a = const_agg(f, t[1])
        if a is not None:
            for fn_, v in a[3]:
                if str(fn_) == str(t[2]):
                    return const_int(f, v, depth + 1)
        return None
    if t[0] in ("cdef", "agg"):
        a = const_agg(f, t)
        if a is not None and len(a[3]) == 1:
            return const_int(f, a[3][0][1], depth + 1)
    return None


# ---------------------------------------------------------------------------------------------------------------
# abstract interpreter for the header checks: aggregate constants are evaluated, an Error PDU is a structured value
# (version, code, quoted PDU, text) however it ends up wrapped, stores of the negotiated version are recorded

STORE = "«store version»"
_PLAIN = ("int", "struct", "tuple", "variant", "unit", "bytes")


def _plain(v, depth=0):
    if v is None or depth > 6 or v.k not in _PLAIN:
        return False
    if v.k == "int":
        return v.lin is not None and v.lin.is_const()
    if v.k == "struct":
        return all(_plain(x, depth + 1) for x in v.fields.values())
    if v.k == "tuple":
        return all(_plain(x, depth + 1) for x in v.fields)
    if v.k == "variant":
        return all(_plain(x, depth + 1) for x in (v.fields or {}).values())
    return True


class HeaderInterp(absint.Interp):
    version_field = None

    def operand(self, st, body, op):
        k = op.get("k") if isinstance(op, dict) else None
        if k and "cdef" in k:
            c = self.facts.consts.get(k["cdef"])
            if not (c and "v" in c):
                cb = self.facts.body(k["cdef"])
                if cb is not None and not cb.arg_count:
                    try:
                        sub = type(self)(self.facts)
                        ps = sub.run_body(cb, [])
                    except Exception:
                        ps = []
                    if len(ps) == 1 and ps[0].outcome[0] == "return" and _plain(ps[0].outcome[1]):
                        return ps[0].outcome[1]
        return super().operand(st, body, op)

    def call(self, st, body, t, bb):
        fn = t["func"]
        k = fn.get("k") if isinstance(fn, dict) else None
        if k and "fn" in k and t.get("target") is not None:
            res = k.get("res") or k["fn"]
            if res == PDU + "Error::new" and len(t["args"]) == 4:
                args = [self.operand(st, body, a) for a in t["args"]]
                st.effects.append((short(res), [absint.show(a) for a in args], body.where(bb)))
                return [(st, absint.V("struct", adt=PDU + "Error",
                                      fields={"version": args[0], "code": args[1], "header": args[2], "text": args[3]}))]
            if self.version_field and k.get("name") in ("insert", "replace", "get_or_insert") and \
                    (k.get("res_krate") or k.get("krate")) in ("core", "std") and len(t["args"]) == 2:
                args = [self.operand(st, body, a) for a in t["args"]]
                if args[0] is not None and args[0].k == "obj" and (args[0].path or "").endswith("." + self.version_field):
                    val = absint.V("variant", adt="std::option::Option", vidx=1, vname="Some", fields={0: args[1]})
                    st.effects.append((STORE, [absint.show(val)], body.where(bb), val))
        return super().call(st, body, t, bb)

    def write_place(self, st, body, pl, val):
        nd = [p for p in pl["p"] if p[0] != "d"]
        if self.version_field and len(nd) == 1 and nd[0][0] == "f" and nd[0][1] == self.version_field and val is not None:
            st.effects.append((STORE, [absint.show(val)], "", val))
            cur = self.read_local(st, body, pl["l"])
            if cur is not None and (cur.k == "obj" or (cur.k == "struct" and isinstance(cur.fields, absint._ObjFields))):
                self._write_back(st, body, pl, val)          # refine the one field, keep the rest of the object
                return
        return super().write_place(st, body, pl, val)


def run_header_interp(f, fname, sym_names, version_field=None):
    """All paths of a header check, private helpers of the server (error constructors, …) looked into."""
    priv = set(_server_private_fns(f))
    it = HeaderInterp(f, sym_names=sym_names, inline=lambda n: n in priv and not f.fns[n].get("async"))
    it.version_field = version_field
    try:
        return it.run(fname), it, None
    except absint.Unsupported as e:
        return None, it, str(e)


def _inside(v, pred, depth=0):
    """All sub-values of an abstract value satisfying pred."""
    if v is None or depth > 8:
        return []
    out = [v] if pred(v) else []
    if v.k == "struct" and not (v.adt == PDU + "Error"):
        for x in dict(v.fields).values():
            out += _inside(x, pred, depth + 1)
    elif v.k == "tuple":
        for x in v.fields:
            out += _inside(x, pred, depth + 1)
    elif v.k == "variant":
        for x in (v.fields or {}).values():
            out += _inside(x, pred, depth + 1)
    return out


def _is_err(v):
    return v.k == "struct" and v.adt == PDU + "Error"


def _vint(v, depth=0):
    if v is None or depth > 3:
        return None
    if v.k == "int" and v.lin is not None and v.lin.is_const():
        return v.lin.c
    if v.k == "struct" and not _is_err(v) and len(dict(v.fields)) == 1:
        return _vint(list(dict(v.fields).values())[0], depth + 1)
    return None


def _vname(v, names):
    """The quantity an abstract value stands for, in the vocabulary of the rule (`names`)."""
    if v is None:
        return None
    if v.k == "obj":
        return K.rename(v.path or "", names)
    if v.k == "int" and v.lin is not None:
        if v.lin.is_const():
            return str(v.lin.c)
        if v.lin.c == 0 and len(v.lin.t) == 1 and list(v.lin.t.values())[0] == 1:
            return K.rename(list(v.lin.t)[0], names)
    return None


def accepts(p):
    """The check lets the header through: a fully known value that carries no Error PDU (Ok(()), None, (), …)."""
    if p.outcome[0] != "return":
        return False
    v = p.outcome[1]
    return not _inside(v, _is_err) and not _inside(v, lambda x: x.k in ("obj", "top", "ref", "fn", "closure")) and \
        not (v.k == "variant" and v.vname in ("Err", "Some"))


def rejects(version, code, header, names):
    """The check answers with exactly one Error PDU of the given version (int or quantity name), code and quoted header."""
    def pred(p):
        if p.outcome[0] != "return":
            return False
        es = _inside(p.outcome[1], _is_err)
        if len(es) != 1:
            return False
        e = es[0].fields
        vok = (_vint(e["version"]) == version) if isinstance(version, int) else (_vname(e["version"], names) == version)
        return vok and _vint(e["code"]) == code and _vname(e["header"], names) == header
    return pred


def coroutine_of(f, ga_str):
    m = re.search(r"\{async fn body of (.+?)\(\)\}", ga_str)
    if not m:
        return None
    name = _nogen(m.group(1))
    cands = [n for n in f.bodies if n.endswith("::{closure#0}") and _nogen(n[:-len("::{closure#0}")]) == name]
    return cands[0] if cands else None


def multi_step_reads(f, name, seen=None, depth=0):
    """read_exact / read call sites reachable from coroutine `name` through awaited async fns."""
    seen = seen if seen is not None else set()
    if name in seen or depth > 6:
        return []
    seen.add(name)
    b = f.body(name)
    out = []
    if b is None:
        return out
    for c in b.calls():
        if b.is_cleanup(c.bb) or not c.is_static:
            continue
        if c.name in ("read_exact", "read_buf", "read_to_end") and (c.trait or "").endswith("AsyncReadExt"):
            out.append((name, c.name, c.where()))
        elif c.name == "read" and (c.trait or "").endswith("AsyncReadExt"):
            # a single `read` is cancel safe; progress kept across reads must live outside the future
            from engine.sym import roots
            buf = K.arg_terms(c)[1]
            sy = K.sym_of(b)

            def outside(r, depth=0):
                # storage / cursor that survives the future: an upvar (the async fn's parameter), or a local that
                # merely holds a reference moved out of one; a plain value local (`let mut pos = *len`) dies with it
                if r[0] == "upvar" or r[0] in ("const", "static", "cdef"):
                    return True
                if r[0] in ("var", "mvar") and depth < 4:
                    ty = b.local_ty(r[2])
                    if not ty.startswith("&"):
                        return False
                    defs = [d for _, d in sy.defs_of_var(r[2])]
                    return bool(defs) and all(all(outside(x, depth + 1) for x in roots(strip_deep(d))) for d in defs)
                return False
            # a mutably borrowed local (`let mut res = *header; … res.as_mut()`) is storage of its own: the root is the
            # local, not what it was initialised from
            def storage_roots(t):
                t = strip_deep(t)
                if t[0] == "mvar":
                    return [("var", t[1], t[2])]
                if t[0] in ("param", "upvar", "var", "const", "cdef", "bytes"):
                    return [t]
                out_ = []
                k_ = t[0]
                subs = []
                if k_ in ("field", "variant", "discr", "len", "cast", "subslice", "repeat"):
                    subs = [t[1]]
                elif k_ == "un":
                    subs = [t[2]]
                elif k_ == "index":
                    subs = [t[1], t[2]]
                elif k_ == "call":
                    subs = list(t[2])
                elif k_ == "bin":
                    subs = [t[2], t[3]]
                elif k_ == "agg":
                    subs = [v for _, v in t[3]]
                elif k_ == "closure":
                    subs = list(t[2])
                for x in subs:
                    out_ += storage_roots(x)
                return out_
            rts = storage_roots(buf)
            bad_roots = [r for r in rts if not outside(r)]
            # the block that *creates* the read future lies on a cycle (the poll loop of a single await does not)
            in_loop = any(c.bb in comp for comp in b.cycles_sccs())
            if in_loop and bad_roots:
                out.append((name, "read in a loop whose buffer position is held in the future's own state (%s)"
                            % ", ".join(str(r[1]) for r in bad_roots), c.where()))
        callee = c.res
        if callee in f.bodies and f.fns.get(callee, {}).get("async"):
            out += multi_step_reads(f, callee + "::{closure#0}", seen, depth + 1)
    return out


def run(ctx):
    f = ctx.facts()
    ctx.rule("R-ASYNC", "a future raced with select must not own a partially filled read")
    ctx.rule("R-ORDER", "event-order automaton holds on every success path")
    ctx.rule("R-WHO", "call sites are exactly the confirmed ones")
    ctx.rule("R-REG", "decision table by abstract interpretation equals the spec")
    ctx.rule("R-FLOW", "operand provenance")
    ctx.rule("R-GRD", "a state change happens only behind its guard")

    # ---- C08.a cancellation safety of the receive race -------------------------------
    nsel = 0
    raced = []
    for n, b in f.bodies.items():
        if not n.startswith("rtr::server::"):
            continue
        for c in b.calls():
            if b.is_cleanup(c.bb) or not c.is_static:
                continue
            if c.res in ("futures_util::future::select", "futures_util::future::select_all") or \
                    (c.res or "").startswith("tokio::time::timeout"):
                nsel += 1
                for i, g in enumerate(c.ga):
                    co = coroutine_of(f, g)
                    if co is None:
                        if "async" in g:
                            ctx.missing("R-ASYNC", "select arm %d of %s" % (i, short(root_fn(f, n))), "coroutine body of " + g[:120])
                        continue
                    reads = multi_step_reads(f, co)
                    unsafe_reads = reads
                    if any(c2.name == "read" and (c2.trait or "").endswith("AsyncReadExt") for c2 in (f.body(co).calls() if f.body(co) else [])):
                        raced.append(co)
                    ctx.ob("R-ASYNC", "%s select arm %s" % (short(root_fn(f, n)) .replace("Connection::recv", "rtr::server::Connection::recv"),
                                                              short(co[:-len("::{closure#0}")])),
                           not unsafe_reads,
                           "the future %s raced in %s performs no multi-step read into a buffer it owns (dropping it would "
                           "lose bytes already taken from the socket)" % (short(co[:-len("::{closure#0}")]), short(root_fn(f, n))),
                           where=c.where(), detail=[{"in": short(r[0]), "call": r[1], "at": r[2]} for r in unsafe_reads] or None)
    ctx.floor("R-ASYNC", "select/timeout races in rtr::server", nsel, 1)
    # a completed header is handed out exactly once: read_header zeroes the cursor on every success path itself
    # (the header reader is whichever future the receive race reads the socket in — found through the select, not by name)
    rh = f.body(raced[0]) if raced else f.body(SRV + "read_header::{closure#0}")
    if rh is None:
        ctx.missing("R-FLOW", "Connection::read_header", "the socket-reading future raced in Connection::recv")
    else:
        ctx.saw_fn(rh.name)
        sy = K.sym_of(rh)
        zero = set()
        for bi, blk in enumerate(rh.blocks):
            for st in blk["stmts"]:
                if st["s"] != "assign" or not st["pl"]["p"] or render(strip_deep(sy.rvalue(st["rv"]))) != "0":
                    continue
                pp = st["pl"]["p"]
                through_ref = any(x[0] == "d" for x in pp)
                is_usize = (pp == [["d"]] and rh.local_ty(st["pl"]["l"]).startswith("&mut usize")) or \
                    (pp[-1][0] == "f" and len(pp[-1]) > 3 and pp[-1][3] == "usize")
                if through_ref and is_usize:
                    zero.add(bi)
        oc = outcome(rh)
        succ_ret = [bi for bi in oc.success_assign_blocks]
        reach = rh.reachable(0, removed_blocks=zero)
        leak = [rh.where(bi) for bi in succ_ret if bi in reach]
        ok_rh = bool(zero) and bool(succ_ret) and not leak
        if not ok_rh:
            # alternative: the caller zeroes the stored length before it looks at the header at all
            rc = f.body(SRV + "recv::{closure#0}")
            if rc is not None:
                dom = rc.dominators()
                z2 = {bi for bi, blk in enumerate(rc.blocks) for st in blk["stmts"]
                      if st["s"] == "assign" and st["pl"]["p"] and st["pl"]["p"][-1][0] == "f" and len(st["pl"]["p"][-1]) > 3 and st["pl"]["p"][-1][3] == "usize"
                      and render(strip_deep(K.sym_of(rc).rvalue(st["rv"]))) == "0"}
                uses = [c.bb for c in rc.calls() if c.name in ("check_version", "check_length") or (c.res or "").endswith("Header::pdu")]
                ok_rh = bool(z2) and bool(uses) and all(any(z in dom.get(u, ()) for z in z2) for u in uses)
        ctx.ob("R-FLOW", "Connection::read_header:cursor-zeroed-with-the-header", ok_rh,
               "read_header resets its cursor on every path that returns a completed header (whatever the caller does next, the "
               "same header cannot be handed out twice)", where=rh.loc, detail={"returns_without_reset": leak})
    # the negotiated version is stored only for an acceptable first query
    cv = f.body(SRV + "check_version")
    if cv is None:
        ctx.missing("R-GRD", "Connection::check_version", SRV + "check_version")
    else:
        stores = [bi for bi, blk in enumerate(cv.blocks) for st in blk["stmts"]
                  if st["s"] == "assign" and any(p[0] == "f" and p[1] == "version" for p in st["pl"]["p"])]
        okv = bool(stores)
        det = []
        for bi in stores:
            g = K.dominating_guards(f, cv, bi)
            det.append(g)
            if not any(re.match(r"^Header::version\(%2\) <= (2|.*MAX_VERSION.*)$", x) for x in g):
                okv = False
        ctx.ob("R-GRD", "Connection::check_version:version-stored-only-if-supported", okv,
               "check_version remembers the client's version only on the branch where it is not above MAX_VERSION (a rejected "
               "first query must not pin the connection to an unsupported version)", where=cv.loc, detail=det)
    # … and by nobody else: an accessor that settles the version as a side effect (`get_or_insert`) would let an update
    # notification that arrives before the first query pin the connection to a version the client never asked for
    CONN = "rtr::server::Connection"
    vfield = _field_of_type(f, CONN, r"^std::option::Option<u8>$", "version")
    makers = {root_fn(f, x[0].name) for x in aggregates_of(f, CONN)}
    _recv = find_recv(f, find_dispatch(f))
    K.check_field_writers(ctx, f, "R-WHO", CONN, vfield,
                          makers | {find_check_version(f, vfield) or SRV + "check_version"} | ({root_fn(f, _recv)} if _recv else set()),
                          "the connection's negotiated version is set only where the connection is created and by the version "
                          "check of a received query (never as a side effect of sending)")
    # fragmentation: fixed-size parts are filled by read_exact, a plain `read` only inside the two cursor loops
    from props.C07 import check_plain_reads
    check_plain_reads(ctx, f)

    # ---- C08.b one complete response per query ------------------------------------------
    W = {PDU + "CacheResponse::write": "CR", PDU + "Payload::write": "P", PDU + "EndOfData::write": "EOD",
         PDU + "CacheReset::write": "RESET", PDU + "Error::write": "ERR", PDU + "SerialNotify::write": "NOTIFY",
         PDU + "SerialQuery::write": "OTHER", PDU + "ResetQuery::write": "OTHER"}
    DFA = {
        (0, "CR"): 1, (1, "P"): 1, (1, "EOD"): 2, (2, "FLUSH"): 3,
        (0, "RESET"): 4, (0, "ERR"): 4, (4, "FLUSH"): 4,
    }
    ACCEPT = {3, 4}
    for meth in ("serial", "reset"):
        n = SRV + meth + "::{closure#0}"
        b = f.body(n)
        if b is None:
            ctx.missing("R-ORDER", "Connection::" + meth, n)
            continue
        ctx.saw_fn(n)
        oc = outcome(b)

        def event(c):
            if c.res in W:
                return W[c.res]
            if c.name == "flush" and (c.trait or "").endswith("AsyncWriteExt"):
                return "FLUSH"
            if c.name in ("write_all", "write") and (c.trait or "").endswith("AsyncWriteExt"):
                return "RAW"
            return None
        bad, finals = run_dfa(b, oc, event, DFA)
        ok = not bad and finals and finals <= ACCEPT
        ctx.ob("R-ORDER", "Connection::%s:response-shape" % meth, ok,
               "every success path of Connection::%s writes CacheResponse, then only payload PDUs, then EndOfData, then "
               "flushes — or exactly one CacheReset/Error" % meth, where=b.loc,
               detail={"bad_transitions": bad, "final_states": sorted(finals)})
        # every write is awaited and its error propagated.  A write is a write wherever it stands: the call of a private
        # async helper that (transitively) writes counts as a write of the responder — its result must decide the
        # responder's outcome — and inside the helper every write must decide the helper's outcome in turn.
        chk = writes_checked(f, b, event)
        ctx.ob("R-ORDER", "Connection::%s:writes-checked" % meth, bool(chk) and all(x for _, x in chk),
               "every write / flush of Connection::%s is awaited and an I/O error ends the response" % meth, where=b.loc, detail=chk)
        # the state named in CacheResponse, EndOfData and update is the source's
        st = {}
        tm = []

        def collect(body_, subst, depth=0):
            for c in body_.calls():
                if body_.is_cleanup(c.bb):
                    continue
                if c.res in (PDU + "CacheResponse::new", PDU + "EndOfData::new"):
                    st.setdefault(short(c.res), []).append(subst(K.arg_renders(c)[1]))
                if c.res == PDU + "EndOfData::new":
                    tm.append(subst(K.arg_renders(c)[2]))
                if c.name == "update" and (c.trait or "").endswith("Socket"):
                    st.setdefault("update", []).append(subst(K.arg_renders(c)[1]))
                # an awaited private async helper: look inside, with its parameters replaced by the arguments passed here
                hb = f.body((c.res or "") + "::{closure#0}") if c.is_static else None
                fr = f.fns.get(c.res or "")
                outer = f.body(c.res or "")
                if hb is not None and hb.is_coroutine and fr is not None and not fr.get("exported") and outer is not None and depth < 3:
                    args = [subst(x) for x in K.arg_renders(c)]
                    names = [outer.local_name(i + 1) for i in range(outer.arg_count)]
                    m = {"^" + nm: a for nm, a in zip(names, args) if nm}

                    def sub2(txt, m=m):
                        for k_, v_ in sorted(m.items(), key=lambda kv: -len(kv[0])):
                            txt = re.sub(re.escape(k_) + r"(?![\w])", lambda _m: v_, txt)
                        return txt
                    collect(hb, sub2, depth + 1)
        collect(b, lambda x: x)
        src = "PayloadSource::diff(^self.source, ^state)↓Some.0.0" if meth == "serial" else "PayloadSource::full(^self.source).0"
        flat = [v for vs in st.values() for v in vs]
        ok = len(st) == 3 and all(re.sub(r"^\w+⟵", "", v) == src or v == src for v in flat)
        ctx.ob("R-FLOW", "Connection::%s:state-is-source-state" % meth, ok,
               "CacheResponse, EndOfData and the socket update all carry the state returned by the source's %s"
               % ("diff" if meth == "serial" else "full"), where=b.loc, detail=st)
        # the timing announced in End of Data is what the source says *in this exchange*: the result of a call of
        # PayloadSource::timing made by the responder itself — not a value kept in the connection from an earlier exchange
        tsrc = "PayloadSource::timing(^self.source)"
        okt = bool(tm) and all(re.sub(r"^\w+⟵", "", v) == tsrc for v in tm)
        ctx.ob("R-FLOW", "Connection::%s:timing-is-source-timing" % meth, okt,
               "the timing values of End of Data are the source's current ones (PayloadSource::timing called in this exchange)",
               where=b.loc, detail=tm)
        # every item of the iterator goes through new_if_supported with its own action
        ni = [c for c in b.calls() if c.res == PDU + "Payload::new_if_supported" and not b.is_cleanup(c.bb)]
        okn = len(ni) == 1
        det = None
        if okn:
            a = K.arg_renders(ni[0])
            det = a
            if meth == "serial":
                okn = re.search(r"Action::into_flags\(.*PayloadDiff::next\(.*\)↓Some\.0\.1\)$", a[1]) is not None and \
                    re.search(r"PayloadDiff::next\(.*\)↓Some\.0\.0$", a[2]) is not None
            else:
                okn = a[1] == "Action::into_flags(payload::Action::Announce{})" and re.search(r"PayloadSet::next\(.*\)↓Some\.0$", a[2]) is not None
            okn = okn and re.search(r"Connection::version\(\^self\)", a[0]) is not None
        ctx.ob("R-FLOW", "Connection::%s:items" % meth, okn,
               "every item the source yields is offered to Payload::new_if_supported with the connection's version and %s"
               % ("its own action" if meth == "serial" else "Announce"), where=b.loc, detail=det)
    # dispatch in run
    rb = f.body(SRV + "run::{closure#0}")
    if rb is None:
        ctx.missing("R-WHO", "Connection::run", SRV + "run")
    else:
        ctx.saw_fn(rb.name)
        oc = outcome(rb)
        sym = oc.sym
        sws = [bi for bi, blk in enumerate(rb.blocks) if blk["term"]["t"] == "switch" and
               re.match(r"^discr\(.*Connection::recv.*\)$", render(strip_deep(sym.operand(blk["term"]["discr"])))) and
               len(blk["term"]["targets"]) >= 3]
        adt = f.adts.get("rtr::server::Query")
        names = [v["name"] for v in adt["variants"]] if adt else []
        want = {"Serial": "serial", "Reset": "reset", "Error": "error", "Notify": "notify"}
        ok = False
        detail = {}
        if sws and names:
            sw = sws[-1]
            recv_blocks = {c.bb for c in rb.calls() if c.res == SRV + "recv"}
            ok = True
            for v, tb in rb.switch_edges(sw):
                if v is None or v >= len(names):
                    continue
                reach = rb.reachable(tb, removed_blocks=recv_blocks)
                resp = sorted({short(c.res).split("::")[-1] for c in rb.calls() if c.bb in reach and c.res and c.res.startswith(SRV)
                               and c.res[len(SRV):] in ("serial", "reset", "error", "notify")})
                detail[names[v]] = resp
                if resp != [want.get(names[v])]:
                    ok = False
            ok = ok and set(detail) == set(want)
        ctx.ob("R-WHO", "Connection::run:one-responder-per-query", ok,
               "the dispatch loop answers Serial with serial(), Reset with reset(), Error with error() and Notify with "
               "notify() — exactly one responder per received query", where=rb.loc, detail=detail)
    callers = sorted({root_fn(f, c.body.name) for c in calls_to(f, lambda c: c.res == SRV + "notify")})
    ctx.ob("R-WHO", "Connection::notify-callers", callers == [SRV + "run"],
           "Serial Notify PDUs are sent only from the dispatch loop, i.e. between responses", detail=callers)
    nw = sorted({root_fn(f, c.body.name) for c in calls_to(f, lambda c: c.res == PDU + "SerialNotify::write") if c.body.name.startswith("rtr::server")})
    ctx.ob("R-WHO", "SerialNotify::write-callers", nw == [SRV + "notify"],
           "SerialNotify is written only by Connection::notify", detail=nw)

    # ---- C08.c malformed ⇒ Error PDU -----------------------------------------------------------
    cv = SRV + "check_version"
    b = f.body(cv)
    if b is None:
        ctx.missing("R-REG", "check_version", cv)
    else:
        ctx.saw_fn(cv)
        names = {"Header::version(header)": "v", "self.version↓Some.0": "cur"}
        paths, it, err = K.run_absint(f, cv, sym_names=names)
        if paths is None:
            ctx.ob("R-REG", "check_version:analysable", False, "cannot establish: " + err, where=b.loc)
        else:
            from engine.absint import region_constraints as RC

            def out(text):
                return lambda p: re.sub(r"b'[^']*'", "TEXT", K.rename(outcome_str(p.outcome), names)) == text
            isnone = lambda p: ("self.version is None", True) in p.conds
            issome = lambda p: ("self.version is Some", True) in p.conds
            K.check_regions(ctx, "R-REG", "check_version[no version yet]", paths, it, [
                ("v≤2", RC("v", 0, 2), out("return Ok(())"), "Ok (and the version is adopted)"),
                ("v>2", RC("v", 3, 255), out("return Err(Error(Error::new(2, 4, header, TEXT)))"), "Error PDU code 4 in version 2"),
            ], b.loc, allow_opaque=True, path_filter=isnone)
            K.check_regions(ctx, "R-REG", "check_version[version stored]", paths, it, [
                ("v=cur", RC(("v", "cur"), 0, 0), out("return Ok(())"), "Ok"),
                ("v>cur", RC(("v", "cur"), 1, None), out("return Err(Error(Error::new(cur, 8, header, TEXT)))"), "Error PDU code 8 in the stored version"),
                ("v<cur", RC(("v", "cur"), None, -1), out("return Err(Error(Error::new(cur, 8, header, TEXT)))"), "Error PDU code 8 in the stored version"),
            ], b.loc, allow_opaque=True, path_filter=issome)
        # on the accepting first-contact path the version is stored
        sv = False
        s = K.sym_of(b)
        for bi, blk in enumerate(b.blocks):
            for st_ in blk["stmts"]:
                if st_["s"] == "assign" and any(p[0] == "f" and p[1] == "version" for p in st_["pl"]["p"]):
                    r = render(strip_deep(s.rvalue(st_["rv"])))
                    sv = r == "option::Option::Some{0: Header::version(header)}"
        ctx.ob("R-FLOW", "check_version:stores-version", sv, "the first accepted version is stored for the connection", where=b.loc)
    # the length check is whichever private function of the server compares the header's length field with an expected
    # u32 (method or free function, whatever it is called).  Its decision table is read with the server's private
    # helpers looked into and an Error PDU as a structured value: "Error PDU of the header's version, code 3, quoting the
    # header" is the same fact whether Error::new is called in place or in a shared constructor, with a literal or a
    # named constant.  The two parameters are identified by their types, not their names.
    cl = find_check_length(f)
    b = f.body(cl) if cl else None
    if b is None:
        ctx.missing("R-REG", "check_length", SRV + "check_length")
    else:
        ctx.saw_fn(cl)
        ins = f.fns[cl].get("inputs", [])
        hp = [b.local_name(i + 1) for i, t_ in enumerate(ins) if re.sub(r"^&(mut )?", "", t_) == PDU + "Header"]
        ep = [b.local_name(i + 1) for i, t_ in enumerate(ins) if t_ == "u32"]
        if len(hp) != 1 or len(ep) != 1 or not hp[0] or not ep[0]:
            ctx.ob("R-REG", "check_length:analysable", False, "cannot establish: the length check does not take one header and "
                   "one expected length (%s)" % ", ".join(ins), where=b.loc)
        else:
            hp, ep = hp[0], ep[0]
            names = {"Header::length(%s)" % hp: "len"}
            paths, it, err = run_header_interp(f, cl, names)
            if paths is None:
                ctx.ob("R-REG", "check_length:analysable", False, "cannot establish: " + str(err), where=b.loc)
            else:
                from engine.absint import region_constraints as RC
                e3 = rejects("Header::version(%s)" % hp, 3, hp, names)
                K.check_regions(ctx, "R-REG", "check_length", paths, it, [
                    ("len=expected", RC(("len", ep), 0, 0), accepts, "Ok"),
                    ("len>expected", RC(("len", ep), 1, None), e3, "Error PDU code 3 quoting the header"),
                    ("len<expected", RC(("len", ep), None, -1), e3, "Error PDU code 3 quoting the header"),
                ], b.loc)
    rb = f.body(SRV + "recv::{closure#0}")
    if rb is None:
        ctx.missing("R-FLOW", "Connection::recv", SRV + "recv")
    else:
        ctx.saw_fn(rb.name)
        oc = outcome(rb)
        sym = oc.sym
        sws = [bi for bi, blk in enumerate(rb.blocks) if blk["term"]["t"] == "switch" and
               re.search(r"^Header::pdu\(", render(strip_deep(sym.operand(blk["term"]["discr"]))))]
        ok = False
        detail = None
        if sws:
            t = rb.term(sws[0])
            vals = sorted(v for v, _ in t["targets"])
            want = sorted([f.consts[PDU + "SerialQuery::PDU"]["v"], f.consts[PDU + "ResetQuery::PDU"]["v"], f.consts[PDU + "Error::PDU"]["v"]])
            reach = rb.reachable(t["otherwise"])
            errs = [[render(K.fold_consts(a_, f.consts)) for a_ in K.arg_terms(c)] for c in rb.calls() if c.bb in reach and c.res == PDU + "Error::new" and
                    c.bb not in set().union(*[rb.reachable(tb) for _, tb in t["targets"]])]
            # the header that is quoted (and whose version is used) is the very value whose PDU type was switched on
            dt = strip_deep(sym.operand(t["discr"]))
            hdr = render(dt[2][0]) if dt[0] == "call" and dt[2] else None
            ok = vals == want and len(errs) == 1 and errs[0][1] == "3" and re.search(r"Header::version\(", errs[0][0]) is not None and \
                (re.search(r"^\$?header|header$|Select::poll", errs[0][2]) is not None or
                 (hdr is not None and errs[0][2] == hdr and errs[0][0] == "Header::version(%s)" % hdr))
            detail = {"handled": vals, "default_arm_errors": errs}
        ctx.ob("R-FLOW", "Connection::recv:unknown-pdu-error", ok,
               "recv answers any PDU type other than Serial Query / Reset Query / Error with an Error PDU (code 3) "
               "quoting the offending header", where=rb.loc, detail=detail)
        # version and length checks are honoured.  The checks are found by what they do (find_check_version /
        # find_check_length), their call sites wherever the receive path has them: in recv itself or in a private async
        # helper it awaits (`recv_query(header).await`).  At each site the failure edge of the switch on the result must
        # not reach anything that reads the socket; when the site is in a helper the same must hold in every awaiting
        # caller after the helper comes back (nothing is read once the helper has returned — sufficient, and what the
        # receive path does: it hands the query on).
        def reads_socket(body_, c, depth=0):
            if (c.res or "").startswith(PDU) and c.name == "read":
                return True
            if (c.trait or "").endswith("AsyncReadExt") and (c.name or "").startswith("read"):
                return True
            h = async_helper(f, c)
            if h is not None and depth < 4:
                return any(reads_socket(h, x, depth + 1) for x in h.calls() if not h.is_cleanup(x.bb))
            return False

        def recv_path(body_, after, depth=0, seen=None):
            """[(body, [(caller body, block of the awaiting call), …])] — the receive coroutine and the private async
            helpers it awaits, each with the chain of call blocks leading to it."""
            seen = seen if seen is not None else set()
            if body_.name in seen or depth > 3:
                return []
            seen.add(body_.name)
            out_ = [(body_, after)]
            for c in body_.calls():
                if body_.is_cleanup(c.bb):
                    continue
                h = async_helper(f, c)
                if h is not None:
                    out_ += recv_path(h, after + [(body_, c.bb)], depth + 1, seen)
            return out_
        bodies = recv_path(rb, [])
        for callee, what in ((find_check_version(f, vfield) or SRV + "check_version", "version"),
                             (find_check_length(f) or SRV + "check_length", "length")):
            res = []
            nsites = 0
            for body_, chain in bodies:
                cs = [c for c in body_.calls() if c.res == callee and not body_.is_cleanup(c.bb)]
                nsites += len(cs)
                # once a helper holding a check has returned, its callers read nothing any more
                quiet_after = all(not any(reads_socket(cb, x) for x in cb.calls()
                                          if x.bb in (cb.reachable(cbb) - {cbb}) and not cb.is_cleanup(x.bb))
                                  for cb, cbb in chain)
                for c in cs:
                    # the Err edge must return the error query — i.e. leave without reading a payload
                    D = derived_locals(body_, c.dest["l"])
                    sws2 = switch_on_locals(body_, D)
                    err_edges = []
                    for sw in sws2:
                        edges = body_.switch_edges(sw)
                        explicit = {v for v, _ in edges if v is not None}
                        # Result's Err is variant 1: its own arm, or the `otherwise` arm of `if let Ok(..)`
                        err_edges += [tb for v, tb in edges if v == 1 or (v is None and 1 not in explicit and 0 in explicit)]
                    good = bool(err_edges) and not any(
                        reads_socket(body_, x) for tb in err_edges for x in body_.calls()
                        if x.bb in body_.reachable(tb) and not body_.is_cleanup(x.bb))
                    res.append(good and quiet_after)
            ctx.ob("R-FLOW", "Connection::recv:%s-error-returned" % what, bool(res) and all(res),
                   "a %s mismatch in recv yields the Error query without consuming further bytes" % what, where=rb.loc,
                   detail={"call_sites": nsites})


def async_helper(facts, c):
    """The coroutine body polled by `c(..).await` when `c` calls a private async fn of the crate (None otherwise)."""
    if facts is None or not c.is_static or not c.res:
        return None
    fr = facts.fns.get(c.res)
    helper = facts.body(c.res + "::{closure#0}")
    if helper is None or not helper.is_coroutine or fr is None or fr.get("exported"):
        return None
    return helper


def has_events(facts, body, event, depth=0, seen=None):
    """Does the coroutine (or an awaited private async helper of it) perform an event at all?"""
    seen = seen if seen is not None else set()
    if depth > 4:
        return True                 # too deep to tell: assume it does (the callers then fail closed)
    if body.name in seen:
        return False
    seen.add(body.name)
    for c in body.calls():
        if body.is_cleanup(c.bb) or not c.is_static:
            continue
        if event(c):
            return True
        h = async_helper(facts, c)
        if h is not None and has_events(facts, h, event, depth + 1, seen):
            return True
    return False


def writes_checked(facts, body, event, depth=0, seen=None):
    """[(callee, result honoured?)] for every event call of `body` and of the private async helpers it awaits.  The call
    of a helper that performs events is itself such a call (its failure is the failure of a write)."""
    seen = seen if seen is not None else set()
    if depth > 4:
        return [("?helper nesting too deep: %s" % short(body.name), False)]
    if body.name in seen:
        return []                   # already listed at its first call site
    seen.add(body.name)
    oc = outcome(body)
    out = []
    for c in body.calls():
        if body.is_cleanup(c.bb) or not c.is_static:
            continue
        if event(c):
            out.append((short(c.res), call_checked(body, c.bb, oc)[0]))
            continue
        h = async_helper(facts, c)
        if h is not None and has_events(facts, h, event):
            out.append((short(c.res) + "(..).await", call_checked(body, c.bb, oc)[0]))
            out += [("%s: %s" % (short(c.res), n), v) for n, v in writes_checked(facts, h, event, depth + 1, seen)]
    return out


def run_dfa(body, oc, event, dfa, depth=0, start=(0,), _memo=None):
    """Forward propagation of automaton states over the CFG (failure blocks excluded).  Returns (bad transitions, the
    states in which a success return is reached when the body is entered in one of the states `start`).

    An awaited private async helper is a function from automaton states to sets of automaton states: the states its
    own success returns are reached in when it is entered in the caller's current state (decided by the same
    propagation over the helper's CFG, loops and branches included — a helper that writes a PDU on one branch and
    nothing on the other maps s to {δ(s,PDU), s}).  A helper without events is the identity."""
    from engine.facts import CallSite
    _memo = _memo if _memo is not None else {}
    states = {0: set(start)}
    work = [0]
    bad = []
    finals = set()

    def note_bad(x):
        if x not in bad:
            bad.append(x)
    while work:
        bb = work.pop()
        cur = states.get(bb, set())
        t = body.term(bb)
        out = set(cur)
        if t["t"] == "call":
            c = CallSite(body, bb, t)
            ev = event(c) if c.is_static else None
            if ev:
                out = set()
                for s in cur:
                    if (s, ev) in dfa:
                        out.add(dfa[(s, ev)])
                    else:
                        note_bad({"state": s, "event": ev, "at": body.where(bb)})
            elif c.is_static and t.get("target") is not None:
                helper = async_helper(body.facts, c)
                if helper is not None and has_events(body.facts, helper, event):
                    if depth >= 4:
                        note_bad({"state": sorted(cur), "event": "?helper nesting too deep: %s" % c.res, "at": body.where(bb)})
                        out = set()
                    else:
                        out = set()
                        for s in cur:
                            key = (helper.name, s)
                            if key not in _memo:
                                _memo[key] = run_dfa(helper, outcome(helper), event, dfa, depth + 1, (s,), _memo)
                            hb, hf = _memo[key]
                            for x in hb:
                                note_bad(x)
                            out |= hf
        if t["t"] == "return":
            finals |= cur
        for sc in body.succs(bb):
            if sc in oc.fail_blocks or body.is_cleanup(sc):
                continue
            old = states.get(sc, set())
            new = old | out
            if new != old:
                states[sc] = new
                work.append(sc)
    return bad, finals
