"""C05 — built objects decode back to themselves (structural clauses; DESIGN §2 C05.a–d)."""
import re
from engine.rules import (outcome, aggregates_of, is_derived, root_fn, calls_to, success_values)
from engine.sym import strip, strip_deep, render, walk, short
from props import common as K

META = {
    "level": "other",
    "technique": "static analysis of type-checked MIR (rustc_private driver): sibling agreement of capture framing across decoder, builder, iterator and encoder; abstract-interpretation pivot tables; order-table decision of the ROA limit check; field-coverage comparison",
    "explanation": "Captured-layout agreement: for every type that stores a bcder::Captured and is both decoded and built, the "
                   "framing (content only vs. including the SEQUENCE header) of the decoder's capture, of the builder's "
                   "captured encoder type (revealed impl Values), of the re-parsing iterator and of the encoder must agree; "
                   "encoder/decoder pivot agreement for X.509 times; field coverage between decoders' struct literals and "
                   "encode_ref; re-decode sites use the capture's mode; the ROA address parser accepts exactly prefix length ≤ "
                   "[maxLength ≤] family maximum, decided on every ordering of the three numbers; a built signed object's accessor fields (content type, message digest, signing time) are the very values put into the signed attributes, and what is signed is their encoding.",
    "not_decided": ["byte-for-byte encode(decode(x)) == x", "acceptance of built objects by the validator for all inputs",
                    "accessor equality between built and decoded twins (value equality)"],
    "trusted_base": ["bcder encode::sequence / Constructed write exactly one header around their content"],
}

SEQ_TAKERS = {"take_sequence", "take_opt_sequence", "take_set", "take_opt_set", "take_constructed", "take_constructed_if",
              "take_opt_constructed_if", "take_opt_constructed"}


def capture_framing(f, c):
    """Framing of a `capture` call site: 'content' if the closure the call sits in is the body passed
    to a take_sequence-like combinator, 'header' if the captured closure itself consumes the header."""
    b = c.body
    if c.name == "capture_one":
        return "header"
    # is the enclosing body a closure handed to a sequence taker?
    root = b.rec.get("root")
    if root:
        for n2, b2 in f.bodies.items():
            if not (n2 == root or n2.startswith(root + "::{closure")):
                continue
            for c2 in b2.calls():
                if c2.name in SEQ_TAKERS and not b2.is_cleanup(c2.bb):
                    for a in K.arg_terms(c2):
                        if a[0] == "closure" and a[1] == b.name:
                            return "content"
    # otherwise: does the captured closure take a sequence itself?
    for a in K.arg_terms(c):
        if a[0] == "closure":
            cb = f.body(a[1])
            if cb is not None and any(x.name in SEQ_TAKERS for x in cb.calls() if not cb.is_cleanup(x.bb)):
                return "header"
        if a[0] == "fnref":
            return "header"
    return "unknown"


def values_framing(ty):
    ty = ty.strip()
    if ty.startswith("bcder::encode::Constructed<"):
        return "header"
    if re.match(r"^bcder::encode::(Slice|Iter|Nothing)<", ty) or ty.startswith("("):
        return "content"
    if ty.startswith("bcder::encode::Primitive<"):
        return "header"
    return "unknown"


def run(ctx):
    f = ctx.facts()
    ctx.rule("R-SIB", "sibling agreement (framing of captured data; decoder vs encoder field coverage)")
    ctx.rule("R-REG", "decision table by abstract interpretation equals the spec")
    ctx.rule("R-FLOW", "operand provenance")

    # ---- C05.a captured-layout agreement ---------------------------------------------
    cap_adts = {}
    for adt, rec in f.adts.items():
        if rec["kind"] != "Struct":
            continue
        for fl in rec["variants"][0]["fields"]:
            if fl["ty"] == "bcder::Captured":
                cap_adts.setdefault(adt, []).append(fl["name"])
    n_types = 0
    # all encode-side uses, by (owner adt, field)
    enc_uses = {}
    for n, b in f.bodies.items():
        if is_derived(b):
            continue
        terms = [t for _, _, t in success_values(b)]
        sy = K.sym_of(b)
        for c in b.calls():
            if b.is_cleanup(c.bb) or c.res not in ("bcder::encode::sequence", "bcder::encode::set", "bcder::encode::sequence_as"):
                continue
            args = K.arg_terms(c)
            last = args[-1] if args else None
            if last is None:
                continue

            def unwrap(t):
                # a newtype wrapper around the captured field (`CapturedOctets(&self.0)`) writes that field
                t = strip_deep(t)
                n_ = 0
                while t[0] == "agg" and t[1] not in ("tuple", "array") and len(t[3]) == 1 and n_ < 3:
                    t = strip_deep(t[3][0][1])
                    n_ += 1
                return t
            last = unwrap(last)
            if last[0] == "agg" and last[1] == "tuple":
                last = ("agg", "tuple", last[2], tuple((k_, unwrap(v_)) for k_, v_ in last[3]))
            if last[0] == "field" and len(last) > 3 and last[3] in cap_adts and last[2] in cap_adts[last[3]]:
                enc_uses.setdefault((last[3], last[2]), []).append(("encode", "content", c.where()))
            elif last[0] == "agg" and last[1] == "tuple":
                for _, el in last[3]:
                    el = strip_deep(el)
                    if el[0] == "field" and len(el) > 3 and el[3] in cap_adts and el[2] in cap_adts[el[3]]:
                        enc_uses.setdefault((el[3], el[2]), []).append(("encode", "header", c.where()))
    # encode functions that hand out the captured bytes bare (the caller places them unwrapped)
    for n0, b in f.bodies.items():
        n = root_fn(f, n0)
        if is_derived(b) or not re.search(r"::encode(_ref)?\w*$", n):
            continue
        for _, _, t in success_values(b):
            if t[0] == "field" and len(t) > 3 and t[3] in cap_adts and t[2] in cap_adts[t[3]] and render(t[1]) in ("self", "^self"):
                # how do the callers frame the bare bytes?
                for c0 in calls_to(f, lambda c, n=n: c.res == n):
                    cb = c0.body
                    if cb.is_cleanup(c0.bb):
                        continue
                    used = False
                    for c in cb.calls():
                        if cb.is_cleanup(c.bb) or c.res not in ("bcder::encode::sequence", "bcder::encode::set", "bcder::encode::sequence_as"):
                            continue
                        args = K.arg_terms(c)
                        last = args[-1] if args else None
                        if last is None:
                            continue

                        def is_e(x):
                            return x[0] == "call" and x[1] == n
                        if is_e(last):
                            enc_uses.setdefault((t[3], t[2]), []).append(("encode", "content", c.where()))
                            used = True
                        elif last[0] == "agg" and last[1] == "tuple" and any(is_e(strip_deep(el)) for _, el in last[3]):
                            enc_uses.setdefault((t[3], t[2]), []).append(("encode", "header", c.where()))
                            used = True
                    if not used:
                        enc_uses.setdefault((t[3], t[2]), []).append(("encode", "unknown", c0.where()))
    for adt, flds in sorted(cap_adts.items()):
        for fld in flds:
            framings = list(enc_uses.get((adt, fld), []))
            # decode side: capture calls inside the type's own decoding functions
            for n, b in f.bodies.items():
                rb = f.body(b.rec.get("root", n)) or b
                if rb.rec.get("impl_adt") != adt or is_derived(rb):
                    continue
                for c in b.calls():
                    if not b.is_cleanup(c.bb) and c.name in ("capture", "capture_one") and (c.res or "").startswith("bcder::"):
                        framings.append(("decode", capture_framing(f, c), c.where()))
            # build side: Captured::from_values flowing into the field
            for bd, bi, si, st in aggregates_of(f, adt):
                if is_derived(bd) or "_serde" in bd.name:
                    continue
                t = K.sym_of(bd).rvalue(st["rv"])
                v = strip_deep(dict(t[3]).get(fld, ("unknown",)))
                vals = [v]
                if v[0] == "var":
                    vals = [strip_deep(d) for _, d in K.sym_of(bd).defs_of_var(v[2])]
                for vv in vals:
                    for x in walk(vv):
                        if x[0] == "call" and x[1] == "bcder::Captured::from_values":
                            ga = x[3].get("ga") or ()
                            framings.append(("build", values_framing(ga[0]) if ga else "unknown", bd.where(bi, si)))
            kinds = {fr for _, fr, _ in framings}
            sides = {s_ for s_, _, _ in framings}
            if len(sides) < 2:
                continue        # only ever decoded or only ever built: nothing to agree on
            n_types += 1
            ctx.ob("R-SIB", "%s.%s:framing" % (short(adt), fld), len(kinds) == 1 and "unknown" not in kinds,
                   "decoder, builder and encoder of %s.%s agree on whether the captured bytes include the SEQUENCE header"
                   % (short(adt), fld), where=framings[0][2], detail=[list(x) for x in framings])
    ctx.floor("R-SIB", "captured fields that are both decoded and built/encoded", n_types, 7)
    # iterators over captured content parse element by element (content-only expectation) in the capture's mode
    K.check_redecode_modes(ctx, f)

    check_roa_limits(ctx, f)
    check_prefix_family_limits(ctx, f)
    K.check_serial_start(ctx, f)
    check_key_id_follows_key(ctx, f)
    check_builder_fields_match_attributes(ctx, f)
    # which time form is written: only encode_varied chooses (by year); the manifest profile fixes GeneralizedTime
    for nm, want in (("encode_utc_time", ["repository::x509::Time::encode_varied"]),
                     ("encode_generalized_time", ["repository::manifest::ManifestContent::encode_ref", "repository::x509::Time::encode_varied"])):
        got = sorted({root_fn(f, c.body.name) for c in calls_to(f, lambda c, nm=nm: c.res == "repository::x509::Time::" + nm)
                      if not c.body.is_cleanup(c.bb)})
        ctx.ob("R-SIB", "Time::%s-callers" % nm, got == want,
               "Time::%s is used only by %s — every other encoder picks the form by year through encode_varied, as the decoders expect"
               % (nm, ", ".join(short(w) for w in want)), detail=got)

    # ---- C05.b pivots -----------------------------------------------------------------------
    K.check_time_pivots(ctx, f)

    # ---- C05.d field coverage decoder literal ↔ encoder -----------------------------------
    pairs = [
        ("repository::cert::TbsCert", r"^repository::cert::TbsCert::encode_ref", {}),
        ("repository::crl::TbsCertList", r"^repository::crl::TbsCertList::<.*>::encode_ref", {}),
        ("repository::manifest::ManifestContent", r"^repository::manifest::ManifestContent::encode_ref", {"len": "derived from file_list"}),
        ("repository::roa::RouteOriginAttestation", r"^repository::roa::RouteOriginAttestation::encode_ref", {}),
        ("repository::aspa::AsProviderAttestation", r"^repository::aspa::AsProviderAttestation::encode_ref", {}),
        ("ca::idcert::TbsIdCert", r"^ca::idcert::TbsIdCert::encode_ref", {}),
        ("ca::sigmsg::SignedMessageTbsCrl", r"^ca::sigmsg::SignedMessageTbsCrl::encode_ref", {}),
    ]
    for adt, enc_rx, exempt in pairs:
        rec = f.adts.get(adt)
        if rec is None:
            ctx.missing("R-SIB", short(adt), adt)
            continue
        flds = [(x["name"], x["ty"]) for x in rec["variants"][0]["fields"] if "PhantomData" not in x["ty"]]
        reads = set()
        nb = 0
        for n, b in f.bodies.items():
            if not re.search(enc_rx, n):
                continue
            nb += 1
            for blk in b.blocks:
                if blk.get("cleanup"):
                    continue
                places = []
                for st in blk["stmts"]:
                    if st["s"] != "assign":
                        continue
                    rv = st["rv"]
                    if "pl" in rv:
                        places.append(rv["pl"])
                    for k in ("op", "a", "b"):
                        if isinstance(rv.get(k), dict):
                            pl = rv[k].get("c") or rv[k].get("m")
                            if pl:
                                places.append(pl)
                    for o in rv.get("ops", []):
                        pl = o.get("c") or o.get("m")
                        if pl:
                            places.append(pl)
                t = blk["term"]
                for a in t.get("args", []):
                    pl = a.get("c") or a.get("m")
                    if pl:
                        places.append(pl)
                for pl in places:
                    for p in pl["p"]:
                        if p[0] == "f" and p[2] == adt:
                            reads.add(p[1])
            for c in b.calls():
                if not b.is_cleanup(c.bb) and c.is_static and (c.res or "").startswith(adt + "::"):
                    reads.add(c.name)
        missing = [n for n, _ in flds if n not in reads and n not in exempt]
        ctx.ob("R-SIB", "%s:encoder-reads-every-field" % short(adt), nb > 0 and not missing,
               "encode_ref of %s reads every field the decoder fills%s" % (short(adt), (" (exempt: %s)" % exempt) if exempt else ""),
               detail={"fields": [n for n, _ in flds], "not_encoded": missing})


# ---- order tables of the length-limit checks ---------------------------------------------------------------------
# The limit checks are decided as order tables (engine.orderlogic.decide_table): every branch condition must be an order
# comparison of the quantities.  A membership test in a std range *is* a conjunction of such comparisons, whatever the
# spelling of the range, so it is rewritten into them before the table is decided.

_INT_TYPES = {"u8", "u16", "u32", "u64", "u128", "usize", "i8", "i16", "i32", "i64", "i128", "isize"}


def range_membership(t):
    """The order comparisons a std range membership test stands for.  `r.contains(&x)` with `r` a range built on the
    spot over an integer type is, by std's definition of `contains` (start bound ≤ x, x </≤ end bound):
        lo..=hi  → lo ≤ x ∧ x ≤ hi        lo..hi → lo ≤ x ∧ x < hi
        lo..     → lo ≤ x                 ..hi   → x < hi                ..=hi → x ≤ hi
    -> [orderlogic cmp atom, …] (their conjunction is the test) or None when `t` is not such a test.  Only a range that
    is constructed in the very expression is read (a RangeInclusive that has been iterated may be exhausted, and then
    contains nothing)."""
    t = strip_deep(t)
    if t[0] != "call" or len(t) < 4 or not isinstance(t[3], dict) or len(t[2]) != 2:
        return None
    info = t[3]
    if info.get("name") != "contains" or info.get("krate") not in ("core", "std") or \
            not re.match(r"^(std|core)::ops::(range::)?Range(Inclusive|From|To|ToInclusive)?::<", info.get("res") or ""):
        return None
    # integers only: the table is decided on a total order (floats are PartialOrd but not totally ordered)
    if not info.get("ga") or any(g not in _INT_TYPES for g in info["ga"]):
        return None
    rg, x = strip_deep(t[2][0]), strip_deep(t[2][1])
    kind = re.match(r"^(?:std|core)::ops::(?:range::)?(Range\w*)::<", info["res"]).group(1)
    lo = hi = None
    if kind == "RangeInclusive":
        # `lo..=hi` is spelled RangeInclusive::new(lo, hi) by the compiler (its fields are private)
        ri = rg[3] if rg[0] == "call" and len(rg) > 3 and isinstance(rg[3], dict) else {}
        if not (ri.get("name") == "new" and ri.get("krate") in ("core", "std") and len(rg[2]) == 2 and
                re.match(r"^(std|core)::ops::(range::)?RangeInclusive::<", ri.get("res") or "")):
            return None
        lo, hi, upper = strip_deep(rg[2][0]), strip_deep(rg[2][1]), "<="
    else:
        # the other ranges are plain struct literals {start, end}
        if rg[0] != "agg" or not re.match(r"^(std|core)::ops::(range::)?%s$" % kind, str(rg[1]).split("<")[0]):
            return None
        fs = {str(k_): strip_deep(v_) for k_, v_ in rg[3]}
        want = {"Range": {"start", "end"}, "RangeFrom": {"start"}, "RangeTo": {"end"}, "RangeToInclusive": {"end"}}[kind]
        if set(fs) != want:
            return None
        lo, hi, upper = fs.get("start"), fs.get("end"), ("<=" if kind == "RangeToInclusive" else "<")
    out = []
    if lo is not None:
        out.append(("cmp", "<=", lo, x))
    if hi is not None:
        out.append(("cmp", upper, x, hi))
    return out or None


def paths_with_range_tests_expanded(b, sym):
    """orderlogic.paths(b) with every branch on a range membership test replaced by branches on the comparisons it
    stands for: test true → all of them hold; test false → the first i-1 hold and the i-th fails, for each i (the
    disjoint cases of a failed conjunction).  -> (paths, number of branch conditions rewritten)."""
    from engine import orderlogic as OL
    ps = OL.paths(b, sym)
    # orderlogic keeps only the text of a condition it cannot read; the terms behind the texts are the discriminants
    # of the body's boolean switches
    tests = {}
    for blk in b.blocks:
        t = blk["term"]
        if blk.get("cleanup") or t["t"] != "switch" or t.get("dty") != "bool":
            continue
        d = strip_deep(sym.operand(t["discr"]))
        while d[0] == "un" and d[1] == "Not":
            d = strip_deep(d[2])
        cmps = range_membership(d)
        if cmps:
            tests[render(d)] = cmps
    if not tests:
        return ps, 0
    out, n = [], 0
    for conds, ret in ps:
        alts = [[]]
        for a, truth in conds:
            while a[0] == "not":
                a, truth = a[1], not truth
            cmps = tests.get(a[1]) if a[0] == "opaque" else None
            if cmps is None:
                alts = [pre + [(a, truth)] for pre in alts]
                continue
            n += 1
            if truth:
                ext = [[(c, True) for c in cmps]]
            else:
                ext = [[(c, True) for c in cmps[:i]] + [(cmps[i], False)] for i in range(len(cmps))]
            alts = [pre + e for pre in alts for e in ext]
        out.extend((cs, ret) for cs in alts)
    return out, n


def decide_limit_table(b, names, spec, label, select=None):
    """orderlogic.decide_table for an accept/reject function of length limits; when the function as written tests
    membership in a range (which decide_table does not read) the same table is decided on the comparisons the test
    stands for.  What is demanded does not change: on every weak ordering of the quantities the paths whose conditions
    hold all carry the specification's label, and there is at least one."""
    import itertools
    from engine import orderlogic as OL
    sym = K.sym_of(b)
    ok, det = OL.decide_table(b, sym, names, spec, label, select=select)
    if ok:
        return ok, det
    try:
        ps, n_rewritten = paths_with_range_tests_expanded(b, sym)
    except OL.NotComparisonOnly:
        return ok, det
    if not n_rewritten:
        return ok, det
    # from here: orderlogic.decide_table on the rewritten path set
    sel = []
    for conds, ret in ps:
        if any(a[0] == "opaque" for a, _ in conds):
            return False, "branches on something that is neither a comparison nor a variant: %s" % \
                [a[1] for a, _ in conds if a[0] == "opaque"][:2]
        if select is None or select([(a[1], a[2]) for a, _ in conds if a[0] == "switch"]):
            lab = label(render(ret) if ret is not None else "")
            if lab is not None:
                sel.append(([(a, t) for a, t in conds if a[0] != "switch"], lab))
    if not sel:
        return False, "no path selected"
    qmap = {}
    for q in OL.leaves([(c, None) for c, _ in sel]):
        for rx, nm in names:
            if re.search(rx, q):
                qmap[q] = nm
                break
        else:
            return False, "compares quantities outside the specification: %s" % [q]
    snames = sorted({nm for _, nm in names})
    bad, n = [], 0
    for vals in itertools.product(range(max(len(snames), 2)), repeat=len(snames)):
        senv = dict(zip(snames, vals))
        env = {q: senv[nm] for q, nm in qmap.items()}
        n += 1
        labs = {lab for conds, lab in sel if all(OL.ev(a, env) == t for a, t in conds)}
        want = spec(senv)
        if labs != {want}:
            bad.append({"ordering": senv, "function": sorted(labs), "specification": want})
            if len(bad) >= 4:
                break
    return not bad, {"orderings": n, "paths": len(sel), "range_tests_rewritten": n_rewritten, "counterexamples": bad}


def check_roa_limits(ctx, f):
    """The capture-time parser of a ROA address accepts exactly the (prefix length, max length) pairs that are legal for
    the family — in particular every pair a builder can legitimately produce (max length == family maximum included)."""
    fn = "repository::roa::RoaIpAddress::skip_opt_in"
    b = f.body(fn)
    if b is None:
        return ctx.missing("R-REG", "RoaIpAddress::skip_opt_in", fn)
    ctx.saw_fn(fn)
    names = [(r"^Prefix::addr_len\(.*\.prefix\)$", "p"), (r"^AddressFamily::max_addr_len\(", "f"), (r"\.max_length↓Some\.0$", "m")]

    def label(r):
        if r.startswith("result::Result::Ok{0: option::Option::Some"):
            return "accept"
        if r.startswith("result::Result::Err"):
            return "reject"
        return None

    def has(opq, rx, val):
        return any(re.search(rx, d) and v == val for d, v in opq)
    rows = [
        ("no-maxLength", lambda o: not has(o, r"\.max_length\)$", 1), lambda e: "accept" if e["p"] <= e["f"] else "reject",
         "without maxLength: accepted iff prefix length ≤ family maximum"),
        ("with-maxLength", lambda o: not has(o, r"\.max_length\)$", None) and not has(o, r"\.max_length\)$", 0),
         lambda e: "accept" if e["p"] <= e["f"] and e["p"] <= e["m"] <= e["f"] else "reject",
         "with maxLength m: accepted iff prefix length ≤ m ≤ family maximum"),
    ]
    for key, sel, spec, text in rows:
        ok, det = decide_limit_table(b, names, spec, label, select=sel)
        ctx.ob("R-REG", "RoaIpAddress::skip_opt_in:%s" % key, ok, "ROA address %s (on every ordering of the three numbers)" % text,
               where=b.loc, detail=det)


def check_prefix_family_limits(ctx, f):
    """The certificate IP-resource decoders accept a prefix exactly when its length is at most the family maximum
    (a /32 or /128 host prefix, which builders produce, included)."""
    names = [(r"^Prefix::addr_len\(", "p"), (r"^AddressFamily::max_addr_len\(", "f")]

    def label(r):
        if r.startswith("result::Result::Ok"):
            return "accept"
        if r.startswith("result::Result::Err"):
            return "reject"
        return None
    for fn in ("repository::resources::ipres::Prefix::parse_content_with_family", "repository::resources::ipres::AddressRange::check_len"):
        b = f.body(fn)
        if b is None:
            ctx.missing("R-REG", short(fn), fn)
            continue
        ctx.saw_fn(fn)
        if fn.endswith("check_len") and not outcome(b).fail_blocks and any(c.name == "min" for c in b.calls()):
            # feature "compat": check_len clamps the length to the family maximum instead of rejecting (documented)
            ctx.note("config %s: AddressRange::check_len clamps (feature compat) — family-limit table not applicable" % ctx.cfg)
            continue
        ok, det = decide_limit_table(b, names, lambda e: "accept" if e["p"] <= e["f"] else "reject", label)
        ctx.ob("R-REG", "%s:family-limit" % short(fn), ok,
               "%s accepts a prefix iff its length ≤ the family maximum (on every ordering of the two numbers)" % short(fn),
               where=b.loc, detail=det)



def check_key_id_follows_key(ctx, f):
    """The builders keep the subject key identifier coupled to the subject key: every function that is not a decoder and
    writes the key field or the identifier field of a certificate body writes both, and the identifier it writes is
    `key_identifier()` of exactly the key it stores (the validator — C01 — rejects anything else, so a built certificate
    whose two fields drift apart is not accepted by the library's own validator)."""
    n_writers = 0
    for adt, rec in sorted(f.adts.items()):
        if rec.get("kind") != "Struct" or not rec.get("variants"):
            continue
        flds = {fl["name"]: fl["ty"] for fl in rec["variants"][0]["fields"]}
        keyf = [n for n, t in flds.items() if t == "crypto::keys::PublicKey"]
        idf = [n for n, t in flds.items() if t == "crypto::keys::KeyIdentifier" and "subject" in n]
        if len(keyf) != 1 or len(idf) != 1:
            continue
        keyf, idf = keyf[0], idf[0]
        writers = {}        # fn -> {"key": [(term, bb, idx)], "id": [...]}
        for n, b in f.bodies.items():
            if is_derived(b):
                continue
            sy = None
            for bi, blk in enumerate(b.blocks):
                if blk.get("cleanup"):
                    continue
                for si, st in enumerate(blk["stmts"]):
                    if st["s"] != "assign":
                        continue
                    rv = st["rv"]
                    if rv["r"] == "agg" and rv.get("ak") == "adt" and rv.get("adt") == adt:
                        sy = sy or K.sym_of(b)
                        t = strip_deep(sy.rvalue(rv))
                        d = dict(t[3])
                        w = writers.setdefault(n, {"key": [], "id": []})
                        if keyf in d:
                            w["key"].append((strip_deep(d[keyf]), bi, si))
                        if idf in d:
                            w["id"].append((strip_deep(d[idf]), bi, si))
                        continue
                    pr = st["pl"]["p"]
                    last = pr[-1] if pr else None
                    if last and last[0] == "f" and len(last) > 2 and last[2] == adt and str(last[1]) in (keyf, idf):
                        sy = sy or K.sym_of(b)
                        w = writers.setdefault(n, {"key": [], "id": []})
                        w["key" if str(last[1]) == keyf else "id"].append((strip_deep(sy.rvalue(rv)), bi, si))
        for n, w in sorted(writers.items()):
            rf = root_fn(f, n)
            ins = (f.fns.get(rf) or {}).get("inputs") or []
            if any("decode::" in i for i in ins) or re.search(r"::(decode|take_from|from_constructed)\b", rf):
                continue                 # a decoder stores what the certificate says; the validator compares the two
            b = f.body(n)
            n_writers += 1
            keys = [render(K.expand_accessors(f, t)) for t, _, _ in w["key"]]
            bad = []
            if not w["key"] or not w["id"]:
                bad.append("writes only the %s field" % ("key" if w["key"] else "identifier"))
            for t, bi, si in w["id"]:
                t2 = K.expand_accessors(f, t)
                m = None
                for x in (t, t2):
                    if x[0] == "call" and (x[3] or {}).get("name") == "key_identifier" and len(x[2]) == 1:
                        m = strip_deep(x[2][0])
                if m is None:
                    bad.append("identifier is not key_identifier(..): %s" % render(t)[:120])
                    continue
                src = render(m)
                if src in keys:
                    continue
                # read back from the key field itself: fine only after the key field has been written
                if re.search(r"\.%s$" % re.escape(keyf), src) and any(
                        (kb == bi and ksi < si) or (kb != bi and kb in b.dominators().get(bi, ())) for _, kb, ksi in w["key"]):
                    continue
                bad.append("identifier is taken from `%s`, the key stored is %s" % (src[:100], keys))
            ctx.ob("R-SIB", "%s:key-id-follows-key[%s]" % (short(adt), short(rf)), not bad,
                   "%s writes %s.%s and %s.%s together, the identifier being key_identifier() of the key it stores"
                   % (short(rf), short(adt), keyf, short(adt), idf), where=b.loc, detail=bad or None)
    ctx.floor("R-SIB", "non-decoder writers of a (subject key, subject key identifier) pair", n_writers, 3)


def check_builder_fields_match_attributes(ctx, f):
    """A built signed object answers its accessors from fields, its decoded twin from the signed attributes.  Wherever a
    function creates the signed attributes (SignedAttrs::new) and the object around them, each accessor field that names
    an attribute (content type, message digest, signing time) holds the very value handed to SignedAttrs::new, the
    `signed_attrs` field is that SignedAttrs value, and what is signed is its encode_verify."""
    ATTRS = "repository::sigobj::SignedAttrs::new"
    n = 0
    for adt in ("repository::sigobj::SignedObject", "ca::sigmsg::SignedMessage"):
        for bd, bi, si, st in aggregates_of(f, adt):
            if K.is_derived_body(bd):
                continue
            news = [c for c in bd.calls() if c.res == ATTRS and not bd.is_cleanup(c.bb)]
            if not news:
                continue            # a decoder: fields and attributes both come from the wire
            n += 1
            ctx.saw_fn(bd.name)
            fields = dict((str(k), render(strip_deep(v))) for k, v in K.sym_of(bd).rvalue(st["rv"])[3])
            fn = short(root_fn(f, bd.name))
            if len(news) != 1:
                ctx.ob("R-SIB", "%s:fields-are-the-signed-attributes" % fn, False,
                       "%s creates the signed attributes once" % fn, where=bd.where(bi, si), detail=len(news))
                continue
            a = K.arg_renders(news[0])
            roles = {"content_type": a[0], "message_digest": a[1], "signing_time": a[2]}
            bad = {k: {"field": fields[k], "attribute": v} for k, v in roles.items() if k in fields and fields[k] != v}
            call = "SignedAttrs::new(%s)" % ", ".join(a)
            if "signed_attrs" in fields and fields["signed_attrs"] != call:
                bad["signed_attrs"] = {"field": fields["signed_attrs"][:200], "attribute": call[:200]}
            if "signature" in fields and ("SignedAttrs::encode_verify(%s)" % call) not in fields["signature"]:
                bad["signature"] = {"field": fields["signature"][:240], "expected_input": "encode_verify(%s)" % call[:160]}
            ctx.ob("R-SIB", "%s:fields-are-the-signed-attributes" % fn, not bad,
                   "%s stores in the object's accessor fields exactly what it put into the signed attributes, and signs their "
                   "encoding" % fn, where=bd.where(bi, si), detail=bad or None)
    ctx.floor("R-SIB", "builders creating signed attributes", n, 2)
