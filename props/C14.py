"""C14 — manifest entries cannot name anything outside the publication point
(DESIGN §2 C14.a–d)."""
import re
from engine import absint
from engine.rules import (MustPass, guard_edges, eq_matcher, pred_matcher, outcome, loop_each_checked, loop_exits,
                          variant_switches, switch_bool_edges, bool_atom, success_values, root_fn)
from engine.sym import Sym, strip, strip_deep, render, walk, short
from props import common as K

META = {
    "level": "other",
    "technique": "static analysis of type-checked MIR (rustc_private driver): accepted-language extraction (byte classes by abstract interpretation, loop form) compared as a set with Rsync::join's language; must-pass and guard rules",
    "explanation": "The accepted file-name language is computed from the MIR (byte classes by abstract interpretation, loop "
                   "form and exit edges of validate_file_name) and shown to be [-_0-9A-Za-z]* '.' [A-Za-z]{3}; it is then "
                   "compared as a set with what uri::Rsync::join accepts (URI byte class, no '/', not '.'/'..', non-empty), "
                   "so the unwrap in iter_uris is discharged and a joined URI is base + one segment. The name check is on "
                   "every decode path (capture-time skip and iteration), thisUpdate ≤ nextUpdate is enforced, len counts "
                   "exactly the accepted entries, and ManifestHash::verify fails exactly on inequality with the digest.",
    "not_decided": ["SHA-256 itself", "decoder completeness for every conforming encoder"],
    "trusted_base": ["bcder decode combinators propagate closure errors", "std slice::split_first / Iterator::all semantics"],
}

URI_CLASS_SPEC = set(b"!$%&'()*+,-./0123456789:;=ABCDEFGHIJKLMNOPQRSTUVWXYZ_abcdefghijklmnopqrstuvwxyz~")
STEM = set(b"-_0123456789ABCDEFGHIJKLMNOPQRSTUVWXYZabcdefghijklmnopqrstuvwxyz")
ALPHA = set(b"ABCDEFGHIJKLMNOPQRSTUVWXYZabcdefghijklmnopqrstuvwxyz")


def find_one(ctx, f, rule, rx, what):
    bs = f.find_bodies(rx)
    if len(bs) != 1:
        ctx.missing(rule, what, "%s (matches: %d)" % (rx, len(bs)))
        return None
    ctx.saw_fn(bs[0].name)
    return bs[0]


def run(ctx):
    f = ctx.facts()
    ctx.rule("R-CHK", "every success path passes a checked call to the sink (incl. loop form)")
    ctx.rule("R-GRD", "success requires the guard literal")
    ctx.rule("R-CLS", "byte classes extracted by abstract interpretation; set relations between them")
    ctx.rule("R-FLOW", "operand provenance")
    ctx.rule("R-SIB", "sibling decoders perform the same checks")

    # ---- C14.b the accepted language -------------------------------------------
    vf = find_one(ctx, f, "R-CLS", r"manifest::FileAndHash.*::validate_file_name$", "validate_file_name")
    stem_cls = ext_cls = None
    if vf is not None:
        oc = outcome(vf)
        sym = oc.sym
        # the per-byte predicate used in the loop
        guard_calls = []
        for bi, blk in enumerate(vf.blocks):
            t = blk["term"]
            if t["t"] == "switch" and t.get("dty") == "bool":
                at = bool_atom(sym.operand(t["discr"]))
                if at and isinstance(at[0], tuple) and at[0][0] == "pred" and at[0][1] in f.bodies:
                    guard_calls.append((bi, at))
        heads = [c for c in vf.calls() if c.name == "split_first"]
        ok_struct = len(heads) == 1
        ctx.ob("R-CHK", "validate_file_name:scans-with-split_first", ok_struct,
               "the name is consumed byte by byte (one split_first producer)", where=vf.loc)
        # the cursor that is scanned (whatever it is called): the argument of split_first
        scan = re.escape(K.arg_renders(heads[0])[0]) if ok_struct else r"\$n"
        if ok_struct:
            head = heads[0]
            # which predicate guards the back edge?
            stem_pred = None
            for bi, at in guard_calls:
                args = [render(a) for a in at[1]]
                if args and re.search(r"split_first\(.*\)↓Some\.0\.0$", args[0]):
                    stem_pred = at[0][1]
            if stem_pred is None:
                # no helper predicate: the tests on the scanned byte are written out in the loop.  Decide the loop body for
                # each of the 256 byte values: does the scan continue, leave the loop towards success, or reject?
                fate, pr = scan_byte_fates(f, vf, oc, head, r"split_first\(.*\)↓Some\.0\.0$")
                if fate is None:
                    ctx.ob("R-CLS", "validate_file_name:stem-predicate", False,
                           "the per-byte tests of the scan loop are understood", where=vf.loc, detail=pr)
                else:
                    stem_cls = {v for v, x in fate.items() if x == "continue"}
                    ctx.ob("R-CLS", "validate_file_name:stem-class", stem_cls == STEM and not pr,
                           "bytes allowed before the dot are exactly [-_0-9A-Za-z]", where=vf.loc,
                           detail={"extracted": absint.fmt_class(stem_cls), "problems": pr, "form": "tests written out in the loop"})
                    ctx.ob("R-CHK", "validate_file_name:every-stem-byte-checked", True,
                           "scanning continues past a byte only on the true edge of the stem predicate", where=vf.loc,
                           detail="decided per byte value")
                    ex = {v for v, x in fate.items() if x == "exit"}
                    ctx.ob("R-CHK", "validate_file_name:scan-exits", ex == {0x2e},
                           "the scan is left towards success only at end of input or at a '.' byte", where=vf.loc,
                           detail={"bytes leaving the scan": absint.fmt_class(ex)})
            else:
                stem_cls, pr = absint.byte_class(f, stem_pred)
                ctx.ob("R-CLS", "validate_file_name:stem-class", stem_cls == STEM and not pr,
                       "bytes allowed before the dot are exactly [-_0-9A-Za-z]", where=f.body(stem_pred).loc,
                       detail={"extracted": absint.fmt_class(stem_cls), "problems": pr})
                g = pred_matcher(re.escape(stem_pred) + "$", (r"split_first\(.*\)↓Some\.0\.0$",))
                res = loop_each_checked(vf, lambda c: c.name == "split_first",
                                        lambda bd, s, bb: guard_edges(bd, s, bb, g), require_for_return=False)
                for where, ok, detail in res:
                    ctx.ob("R-CHK", "validate_file_name:every-stem-byte-checked", ok,
                           "scanning continues past a byte only on the true edge of the stem predicate", where=where, detail=detail)
                # exits of the scan loop: end of input, or the byte is '.'
                exits = loop_exits(vf, head.bb, oc) or []
                allowed = set()
                for sw in variant_switches(vf, sym, r"split_first\("):
                    for v, tb in vf.switch_edges(sw):
                        if v != 1:
                            allowed.add((sw, tb))
                for bi, blk in enumerate(vf.blocks):
                    if blk["term"]["t"] == "switch":
                        e = value_edges(f, vf, sym, bi, r"split_first\(.*\)↓Some\.0\.0$", 0x2e)
                        if e:
                            allowed.update(e)
                # an exit edge may pass through trivial goto blocks; compare by source switch block
                def src_switch(u):
                    seen = set()
                    while vf.term(u)["t"] != "switch" and len(vf.preds(u)) == 1 and u not in seen:
                        seen.add(u)
                        u = vf.preds(u)[0]
                    return u
                bad = []
                for u, v in exits:
                    su = src_switch(u)
                    if not any(a[0] == su for a in allowed):
                        bad.append((u, v))
                    else:
                        # the edge taken out of su must be an allowed one
                        first = u if u != su else v
                        path_first = None
                        for a in allowed:
                            if a[0] == su and (a[1] == u or a[1] == v or u in vf.reachable(a[1]) ):
                                path_first = a
                        if path_first is None:
                            bad.append((u, v))
                ctx.ob("R-CHK", "validate_file_name:scan-exits", bool(exits) and not bad,
                       "the scan is left towards success only at end of input or at a '.' byte", where=vf.loc,
                       detail={"exits": exits, "bad": bad})
            # after the scan: exactly three bytes, all alphabetic
            len_rx = r"(^|::)len\(%s\)$" % scan
            mp = MustPass(f, lambda c: False, guard_fn=lambda bd, s, bb: value_edges(f, bd, s, bb, len_rx, 3), name="len(rest)==3")
            ok = mp.holds(vf.name)
            ctx.ob("R-GRD", "validate_file_name:extension-length-3", ok,
                   "success requires exactly three bytes after the dot", where=vf.loc, detail=None if ok else K.why(f, mp, vf.name))
            # `rest.iter().all(p)` must hold, or — the same thing — `rest.iter().any(q)` must not (then the class is ¬q)
            all_calls = [c for c in vf.calls() if c.name in ("all", "any") and c.trait == "std::iter::Iterator" and not vf.is_cleanup(c.bb)]
            okx = False
            detail = None
            for c in all_calls:
                a = K.arg_terms(c)
                recv_rx = r"(^|⟵)(Iterator::(copied|cloned)\()?%s\)?$" % scan
                if re.search(recv_rx, render(a[0])):
                    ext_cls, pr = predicate_class(f, strip(a[1]))
                    if c.name == "any" and ext_cls is not None:
                        ext_cls = set(range(256)) - ext_cls
                    detail = {"form": c.name, "extracted": absint.fmt_class(ext_cls), "problems": pr}
                    g = pred_matcher(r"::%s$" % c.name, (recv_rx,), positive=(c.name == "all"))
                    mp = MustPass(f, lambda c: False, guard_fn=lambda bd, s, bb: guard_edges(bd, s, bb, g), name="all alphabetic")
                    okx = ext_cls == ALPHA and not pr and mp.holds(vf.name)
            ctx.ob("R-CLS", "validate_file_name:extension-class", okx,
                   "success requires every byte after the dot to be in [A-Za-z]", where=vf.loc, detail=detail)

    # relation to what Rsync::join accepts
    ub = f.body("uri::is_u8_uri_ascii")
    if ub is None:
        ctx.missing("R-CLS", "is_u8_uri_ascii", "uri::is_u8_uri_ascii")
    else:
        uri_cls, pr = absint.byte_class(f, "uri::is_u8_uri_ascii")
        ctx.ob("R-CLS", "uri-byte-class", uri_cls == URI_CLASS_SPEC and not pr,
               "uri::is_u8_uri_ascii accepts exactly ! $-; = A-Z _ a-z ~", where=ub.loc,
               detail={"extracted": absint.fmt_class(uri_cls), "problems": pr})
        if stem_cls is not None and ext_cls is not None and uri_cls is not None:
            lang = stem_cls | ext_cls | {0x2e}
            ctx.ob("R-CLS", "name-bytes⊆uri-bytes", lang <= uri_cls,
                   "every byte of an accepted manifest file name is a permitted URI byte", detail=absint.fmt_class(lang - uri_cls))
            ctx.ob("R-CLS", "name-has-no-slash", 0x2f not in lang,
                   "an accepted manifest file name contains no '/' (single segment)")
            ctx.ob("R-CLS", "name-not-dot-segment", 0x2e not in stem_cls and 0x2e not in ext_cls,
                   "an accepted name is at least '.' + 3 letters with no dot in stem or extension, hence never '.' or '..' nor empty")

    check_join_dot_segments(ctx, f)

    # ---- C14.a the check is on every decode path -------------------------------
    checks = {}
    for which in ("skip_opt_in", "take_opt_from"):
        b = find_one(ctx, f, "R-CHK", r"manifest::FileAndHash.*::%s$" % which, which)
        if b is None:
            continue

        def sink(c):
            if not (c.res or "").endswith("::validate_file_name"):
                return False
            a = K.arg_renders(c)
            t = K.arg_terms(c)[0]
            ia5 = any(x[0] == "call" and x[3].get("name") == "take_from" and any("Ia5CharSet" in g for g in x[3].get("ga", ()))
                      for x in walk(t))
            return ia5 and re.search(r"(Ia5String|RestrictedString)::take_from\([^()]*\)", a[0]) is not None
        mp = MustPass(f, sink, name="validate_file_name(IA5 bytes)")
        ok = mp.holds(b.name)
        ctx.ob("R-CHK", "FileAndHash::%s→validate_file_name" % which, ok,
               "FileAndHash::%s accepts an entry only if its name passed validate_file_name" % which, where=b.loc,
               detail=None if ok else K.why(f, mp, b.name))
        # checked-call set of the closure (for sibling comparison)
        cl = [x for x in f.children(b.name)]
        names = set()
        for n in cl:
            for c in f.body(n).calls():
                if c.is_static and c.res and (c.res.endswith("validate_file_name") or "RestrictedString" in c.res and c.name == "take_from"
                                              or ("BitString" in c.res and c.name in ("take_from", "skip_in"))):
                    names.add(short(c.res).replace("skip_in", "take/skip").replace("take_from", "take/skip") if "BitString" in c.res else short(c.res))
        checks[which] = names
    if len(checks) == 2:
        ctx.ob("R-SIB", "FileAndHash:skip_opt_in≡take_opt_from", checks["skip_opt_in"] == checks["take_opt_from"],
               "capture-time skip and iteration-time take parse the same fields with the same checks",
               detail={k: sorted(v) for k, v in checks.items()})
    # the iterator re-parses with the parser whose sibling ran at capture time
    nb = f.body("<repository::manifest::FileListIter as std::iter::Iterator>::next")
    if nb is None:
        ctx.missing("R-SIB", "FileListIter::next", "FileListIter::next")
    else:
        ctx.saw_fn(nb.name)
        cs = [c for c in nb.calls() if c.name == "decode_partial" and (c.res or "").startswith("bcder::")]
        ok = len(cs) == 1 and K.arg_renders(cs[0])[0] == "self.0"
        inner = [c for n in f.children(nb.name) for c in f.body(n).calls() if (c.res or "").endswith("::take_opt_from")]
        ctx.ob("R-SIB", "FileListIter::next:reparses-captured-list-in-its-own-mode", ok and len(inner) == 1,
               "FileListIter::next re-decodes the captured list with Captured::decode_partial (capture's own mode) and "
               "FileAndHash::take_opt_from", where=nb.loc)
    # ManifestContent constructors: the captured list is what skip_opt_in accepted
    mc = find_one(ctx, f, "R-CHK", r"manifest::ManifestContent::take_from::\{closure#0\}$", "ManifestContent::take_from closure")
    if mc is not None:
        # the capture loop is found by what it does (it is the caller of FileAndHash::skip_opt_in), wherever it lives
        # below ManifestContent::take_from: in one of its closures or in a private function those call
        is_skip = lambda c: re.search(r"manifest::FileAndHash.*::skip_opt_in$", c.res or "") is not None
        below = _reachable_fns(f, "repository::manifest::ManifestContent::take_from")
        loop_b = [bd for n, bd in f.bodies.items() if root_fn(f, n) in below and any(is_skip(c) for c in bd.calls())]
        counter = None
        lb = None
        if len(loop_b) != 1:
            ctx.missing("R-CHK", "file-list capture loop", "closure calling skip_opt_in")
        else:
            lb = loop_b[0]
            ctx.saw_fn(lb.name)
            oc = outcome(lb)
            # counter += 1 exactly on the Some edge; the counter is a captured variable of the loop's closure
            inc_blocks = set()
            counters = set()
            for bi, blk in enumerate(lb.blocks):
                for st in blk["stmts"]:
                    if st["s"] == "assign" and st["rv"]["r"] == "bin" and st["rv"]["bop"] in ("AddWithOverflow", "Add"):
                        ta, tb2 = strip_deep(oc.sym.operand(st["rv"]["a"])), strip_deep(oc.sym.operand(st["rv"]["b"]))
                        if ta[0] == "upvar" and render(tb2) == "1":
                            inc_blocks.add(bi)
                            counters.add(ta[1])
            if len(counters) == 1:
                counter = list(counters)[0]
            res = []
            entry_rx = r"^Try::branch\(FileAndHash::skip_opt_in\([^()]*\)\)↓Continue\.0$"
            for sw, some_t in option_some_edges(lb, oc.sym, entry_rx):
                reach = lb.reachable(some_t, removed_blocks=set(oc.fail_blocks) | inc_blocks)
                bad = sw in reach or any(c.bb in reach for c in lb.calls() if is_skip(c)) or \
                    any(r in reach for r in oc.returns())
                res.append((lb.where(sw), not bad, "next iteration or end of the capture reachable without counting" if bad else
                            "entry counted on every continuing path (%d counting block(s))" % len(inc_blocks)))
            for where, ok, detail in res:
                ctx.ob("R-FLOW", "ManifestContent::take_from:len-counts-entries", ok and len(inc_blocks) == 1 and counter is not None,
                       "len is incremented by one on every iteration that accepted an entry (and nowhere else)",
                       where=where, detail=detail)
            if not res:
                ctx.ob("R-FLOW", "ManifestContent::take_from:len-counts-entries", False, "entry loop not found", where=lb.loc)
            # a failing entry fails the capture
            # (loop: the only success exit is the None edge; errors propagate through `?`)
            from engine.rules import call_checked
            ok = all(call_checked(lb, c.bb, oc)[0] for c in lb.calls() if is_skip(c))
            ctx.ob("R-CHK", "ManifestContent::take_from:entry-errors-propagate", ok,
                   "an entry rejected by skip_opt_in makes the whole manifest fail to decode", where=lb.loc)
        # struct literal: len field is the counter, file_list the capture
        from engine.rules import aggregates_of
        sites = [x for x in aggregates_of(f, "repository::manifest::ManifestContent") if x[0] is mc]
        ok = False
        detail = None
        for bd, bi, si, st in sites:
            t = outcome(bd).sym.rvalue(st["rv"])
            flds = {k: through_helpers(f, v) for k, v in t[3]}
            detail = {k: render(v) for k, v in flds.items()}
            ln, fl = flds.get("len"), _ok_payload(flds.get("file_list") or ("unknown", "no field"))
            # len: a variable initialised to 0 — the one the capture loop counts in
            ok_len = ln is not None and ln[0] == "mvar" and ln[3] == ("const", 0) and lb is not None and ln[1] == counter
            # file_list: what take_sequence(capture(loop)) returned, the loop's closure borrowing that very variable
            ok_fl = False
            if ok_len and fl[0] == "call" and (fl[3] or {}).get("name") == "take_sequence" and (fl[3] or {}).get("krate") == "bcder":
                cl = [a for a in fl[2] if a[0] == "closure"]
                ok_fl = len(cl) == 1 and lb.name.startswith(cl[0][1] + "::") and \
                    any(c[0] == "mvar" and c[2] == ln[2] for c in cl[0][2]) and \
                    any(c.name == "capture" and (c.krate or "") == "bcder" for c in (f.body(cl[0][1]).calls() if f.body(cl[0][1]) else ()))
            ok = ok_len and ok_fl
        ctx.ob("R-FLOW", "ManifestContent::take_from:fields", ok,
               "ManifestContent.len is the entry counter (initialised to 0) and file_list the captured sequence",
               where=mc.loc, detail=detail)
        # ---- C14.c thisUpdate <= nextUpdate
        def g(bd, s, bb):
            return K.order_literal_edges(bd, s, bb, r"^Try::branch\(Time::take_from\(cons\)\)↓Continue\.0$", r"^Try::branch\(Time::take_from\(cons\)\)↓Continue\.0$")
        # both operands render identically (two Time::take_from calls); they are told apart by their role: which field
        # of the ManifestContent literal each value ends up in
        oc = outcome(mc)
        roles = {}
        for bd, bi, si, st in sites:
            rv = st["rv"]
            if len(rv.get("fields", ())) == len(rv["ops"]):
                for fld, op in zip(rv["fields"], rv["ops"]):
                    pl = op.get("m") or op.get("c")
                    if pl is not None and not pl["p"] and fld in ("this_update", "next_update"):
                        roles[_root_local(mc, pl["l"])] = fld
        found = False
        okc = False
        for bi, blk in enumerate(mc.blocks):
            t = blk["term"]
            if t["t"] != "switch" or t.get("dty") != "bool":
                continue
            term = strip(oc.sym.operand(t["discr"]))
            at = bool_atom(term)
            if not at or at[0] not in ("lt", "le", "gt", "ge"):
                continue
            # operand locals
            d = t["discr"]
            pl = d.get("m") or d.get("c")
            defs = mc.defs().get(pl["l"], [])
            if not defs or defs[0][2] != "call":
                continue
            call = defs[0][3]
            names = []
            for a in call["args"]:
                apl = a.get("m") or a.get("c")
                # &this_update → find the local behind the reference
                names.append(roles.get(_root_local(mc, apl["l"])) if apl is not None and not apl["p"] else None)
            if set(names) == {"this_update", "next_update"}:
                found = True
                rel, _, _, pos = at
                lo_first = names[0] == "this_update"
                # literal wanted: this_update <= next_update
                e = switch_bool_edges(mc, bi)
                f_t, t_t = e
                if rel in ("gt", "lt"):
                    strict_violation = (rel == "gt" and lo_first) or (rel == "lt" and not lo_first)
                    # atom == (this > next): literal true on the atom-false edge
                    lit_edge = (f_t if pos else t_t) if strict_violation else None
                else:
                    holds = (rel == "le" and lo_first) or (rel == "ge" and not lo_first)
                    lit_edge = (t_t if pos else f_t) if holds else None
                if lit_edge is not None:
                    other = f_t if lit_edge == t_t else t_t
                    okc = other not in oc.success_reach() and lit_edge in oc.success_reach()
        ctx.ob("R-GRD", "ManifestContent::take_from:thisUpdate<=nextUpdate", found and okc,
               "decoding fails when thisUpdate is after nextUpdate (equality allowed)", where=mc.loc)

    # ---- C14.b' iter_uris joins the validated name onto the base ----------------
    iu = find_one(ctx, f, "R-FLOW", r"manifest::ManifestContent::iter_uris::\{closure#0\}$", "iter_uris closure")
    if iu is not None:
        js = [c for c in iu.calls() if c.res == "uri::Rsync::join"]
        ok = False
        detail = None
        if len(js) == 1:
            a = K.arg_renders(js[0])
            detail = a
            # the joined name is the entry handed to the closure (its element parameter, whatever it is called)
            ok = a[0] == "^base" and iu.arg_count == 2 and K.alpha(a[1], iu) == "FileAndHash::into_pair(%2).0"
        ctx.ob("R-FLOW", "iter_uris:join(base, entry name)", ok,
               "iter_uris joins exactly the entry's (validated) file name onto the caller's base URI", where=iu.loc, detail=detail)

    # ---- C14.d ManifestHash::verify ----------------------------------------------
    hv = find_one(ctx, f, "R-GRD", r"manifest::ManifestHash::verify$", "ManifestHash::verify")
    if hv is not None:
        g = eq_matcher(r"^self\.hash$", r"^DigestAlgorithm::digest\(self\.algorithm, t\)$")
        mp = MustPass(f, lambda c: False, guard_fn=lambda bd, s, bb: guard_edges(bd, s, bb, g), name="hash == digest(data)")
        ok = mp.holds(hv.name)
        ctx.ob("R-GRD", "ManifestHash::verify:ok-only-if-equal", ok,
               "ManifestHash::verify returns Ok only if the stored hash equals the digest of the data", where=hv.loc,
               detail=None if ok else K.why(f, mp, hv.name))
        ok2, detail = K.guard_false_edge_fails(hv, g)
        oc = outcome(hv)
        acc = False
        for bi, blk in enumerate(hv.blocks):
            if blk["term"]["t"] == "switch":
                e = guard_edges(hv, oc.sym, bi, g)
                if e and e[0][1] in oc.success_reach():
                    acc = True
        ctx.ob("R-GRD", "ManifestHash::verify:ok-if-equal", acc,
               "ManifestHash::verify returns Ok when they are equal", where=hv.loc)
    db = f.body("crypto::digest::DigestAlgorithm::digest")
    if db is None:
        ctx.missing("R-FLOW", "DigestAlgorithm::digest", "crypto::digest::DigestAlgorithm::digest")
    else:
        cs = [c for c in db.calls() if c.name == "digest" and (c.krate or "").startswith("aws_lc")]
        ok = len(cs) == 1 and "SHA256" in K.arg_renders(cs[0])[0] and K.arg_renders(cs[0])[1] == "data"
        ctx.ob("R-FLOW", "DigestAlgorithm::digest=sha256(data)", ok, "DigestAlgorithm::digest is SHA-256 over its argument",
               where=db.loc, detail=K.arg_renders(cs[0]) if cs else None)


def _root_local(body, l, depth=0):
    """The local a temporary is a plain copy / move / reference of."""
    ds = [d for d in body.defs().get(l, []) if d[2] in ("assign", "call", "yield", "partial")]
    if depth > 12 or len(ds) != 1 or ds[0][2] != "assign":
        return l
    rv = ds[0][3]["rv"]
    pl = None
    if rv["r"] == "use":
        pl = rv["op"].get("m") or rv["op"].get("c")
    elif rv["r"] == "ref":
        pl = rv["pl"]
    if pl is None or any(p[0] != "d" for p in pl["p"]):
        return l
    return _root_local(body, pl["l"], depth + 1)


def _reachable_fns(f, start, depth=4):
    """`start` and the crate functions reachable from it (and from its closures) through static calls, a few levels."""
    seen = {start}
    frontier = [start]
    for _ in range(depth):
        nxt = []
        for fn in frontier:
            for n, bd in f.bodies.items():
                if root_fn(f, n) != fn:
                    continue
                for c in bd.calls():
                    if c.is_static and c.res and c.res not in seen and f.body(c.res) is not None:
                        seen.add(c.res)
                        nxt.append(c.res)
        frontier = nxt
    return seen


def option_some_edges(body, sym, place_rx):
    """[(switch block, target)] of the edges on which the Option X (render(X) ~ place_rx) is known to be Some: `match`/
    `if let`/`while let` on it, or a test of X.is_some() / X.is_none()."""
    out = []
    for sw in variant_switches(body, sym, place_rx):
        for v, tb in body.switch_edges(sw):
            if v == 1:
                out.append((sw, tb))
    for bi, blk in enumerate(body.blocks):
        t = blk["term"]
        if t["t"] != "switch" or t.get("dty") != "bool" or blk.get("cleanup"):
            continue
        for nm, pos in (("is_some", True), ("is_none", False)):
            e = guard_edges(body, sym, bi, pred_matcher(r"Option::%s$|::%s$" % (nm, nm), (place_rx,), positive=pos))
            if e:
                out.extend(e)
    return out


def _ok_payload(t):
    """`x?` is the Ok payload of x."""
    t = strip_deep(t)
    if t[0] == "field" and t[2] == "0" and t[1][0] == "variant" and t[1][2] == "Continue":
        c = strip_deep(t[1][1])
        if c[0] == "call" and (c[3] or {}).get("name") == "branch" and len(c[2]) == 1:
            return strip_deep(c[2][0])
    return t


def through_helpers(f, t, depth=0):
    """A value obtained from a call of a crate function with one success value, `H(..)?`, `H(..)?.1`, …: the term that
    function returns there (in the function's own terms).  Other terms are returned as they are."""
    t = strip_deep(t)
    projs = []
    cur = t
    while cur[0] == "field" and not (cur[2] == "0" and cur[1][0] == "variant" and cur[1][2] == "Continue"):
        projs.append(cur[2])
        cur = strip_deep(cur[1])
    inner = _ok_payload(cur)
    if inner is cur or inner[0] != "call" or depth > 3:
        return t
    hb = f.body((inner[3] or {}).get("res") or inner[1])
    if hb is None:
        return t
    vals = [v for _, _, v in success_values(hb)]
    if len(vals) != 1:
        return t
    v = strip_deep(vals[0])
    if not (v[0] == "agg" and v[2] == "Ok" and len(v[3]) == 1):
        return t
    v = strip_deep(v[3][0][1])
    for name in reversed(projs):
        if v[0] != "agg":
            return t
        nxt = [x for k, x in v[3] if k == name]
        if len(nxt) != 1:
            return t
        v = strip_deep(nxt[0])
    return through_helpers(f, v, depth + 1)


_CLS_CACHE = {}


def scan_byte_fates(f, body, oc, head, byte_rx):
    """For a scan loop whose element is produced by the call `head` (split_first): what happens to each byte value on the
    Some edge — "continue" (back to the producer), "exit" (leaves the loop towards a success return) or "reject".
    Every branch on the way must be a test of that byte against constants (==, <, <=, … in any spelling, `match` arms,
    std's u8::is_ascii_* or a crate predicate whose byte class is computed); anything else → (None, why)."""
    sym = oc.sym
    rx = re.compile(byte_rx)
    comp = None
    for c in body.cycles_sccs():
        if head.bb in c:
            comp = set(c)
    sws = variant_switches(body, sym, r"split_first\(")
    if comp is None or len(sws) != 1:
        return None, ["scan loop not found"]
    start = [tb for v, tb in body.switch_edges(sws[0]) if v == 1]
    if len(start) != 1:
        return None, ["no Some edge"]
    ok_reach = oc.success_reach()

    def is_byte(t):
        return rx.search(render(strip_deep(t))) is not None

    def const_of(t):
        t = K.fold_consts(strip_deep(t), f.consts)
        return t[1] if t[0] == "const" and isinstance(t[1], int) and not isinstance(t[1], bool) else None

    def truth(term, v):
        at = bool_atom(term)
        if at is None:
            return None
        rel, a, b, pos = at
        if isinstance(rel, tuple):
            if len(a) != 1 or not is_byte(a[0]):
                return None
            name = rel[1]
            if name not in _CLS_CACHE:
                m = re.match(r"^core::num::<impl u8>::(is_ascii\w*)$", name)
                if m and m.group(1) in absint.ASCII_CLASSES:
                    _CLS_CACHE[name] = ({x for lo, hi in absint.ASCII_CLASSES[m.group(1)] for x in range(lo, hi + 1)}, [])
                elif f.body(name) is not None:
                    _CLS_CACHE[name] = absint.byte_class(f, name)
                else:
                    _CLS_CACHE[name] = (None, ["unknown predicate " + name])
            cls, pr = _CLS_CACHE[name]
            if cls is None or pr:
                return None
            return (v in cls) == pos
        x = v if is_byte(a) else const_of(a)
        y = v if is_byte(b) else const_of(b)
        if x is None or y is None or not (is_byte(a) or is_byte(b)):
            return None
        r = {"eq": x == y, "lt": x < y, "le": x <= y, "gt": x > y, "ge": x >= y}[rel]
        return r == pos

    fate = {}
    for v in range(256):
        cur, steps = start[0], 0
        env = {}             # booleans stored on the way (`matches!(..)`, `let ok = ..;`)
        while True:
            steps += 1
            if steps > 200:
                return None, ["walk does not terminate for byte %d" % v]
            if cur in comp and cur != head.bb:
                for st in body.blocks[cur]["stmts"]:
                    if st["s"] == "assign" and not st["pl"]["p"]:
                        val = strip_deep(sym.rvalue(st["rv"])) if st["rv"]["r"] == "use" and "k" in st["rv"]["op"] else None
                        if val is not None and val[0] == "const" and isinstance(val[1], (bool, int)):
                            env[st["pl"]["l"]] = bool(val[1])
                        else:
                            env.pop(st["pl"]["l"], None)
            if cur == head.bb:
                fate[v] = "continue"
                break
            if cur not in comp:
                fate[v] = "exit" if cur in ok_reach and cur not in oc.fail_blocks else "reject"
                break
            t = body.term(cur)
            if t["t"] != "switch":
                nx = body.succs(cur)
                if len(nx) != 1:
                    fate[v] = "reject"       # return / unreachable inside the walk
                    break
                cur = nx[0]
                continue
            d = sym.operand(t["discr"])
            if t.get("dty") == "bool":
                d0 = strip(d)
                tv = env.get(d0[2]) if d0[0] == "var" else truth(d, v)
                if tv is None:
                    return None, ["bb%d: not a test of the scanned byte against constants: %s" % (cur, render(strip_deep(d))[:160])]
                fe, te = switch_bool_edges(body, cur)
                cur = te if tv else fe
            elif is_byte(d):
                nxt = [tb for val, tb in t["targets"] if val == v]
                cur = nxt[0] if nxt else t["otherwise"]
            else:
                return None, ["bb%d: branch on something other than the scanned byte: %s" % (cur, render(strip_deep(d))[:160])]
    return fate, []


def value_edges(f, body, sym, bb, place_rx, value):
    """Edges of the switch at bb on which `X == value` is known, X rendering like place_rx: a boolean comparison in
    either order / polarity (named integer constants folded), or a match on X itself with `value` as a pattern."""
    t = body.term(bb)
    if t["t"] != "switch":
        return None
    rx = re.compile(place_rx)
    if t.get("dty") == "bool":
        def m(rel, a, b):
            if rel != "eq" or b is None:
                return None
            a2, b2 = K.fold_consts(a, f.consts), K.fold_consts(b, f.consts)
            for x, y in ((a2, b2), (b2, a2)):
                if rx.search(render(x)) and y[0] == "const" and not isinstance(y[1], bool) and y[1] == value:
                    return True
            return None
        return guard_edges(body, sym, bb, m)
    d = strip_deep(sym.operand(t["discr"]))
    if d[0] in ("discr",) or not rx.search(render(d)):
        return None
    out = [(bb, tb) for v, tb in t["targets"] if v == value]
    return out or None


def predicate_class(f, t):
    """Byte class of a per-byte predicate given as a closure, a crate function or one of std's u8::is_ascii_* methods."""
    if t[0] == "closure":
        return absint.byte_class(f, t[1], arg_index=1)
    if t[0] == "fnref":
        if f.body(t[1]) is not None:
            return absint.byte_class(f, t[1])
        m = re.match(r"^core::num::<impl u8>::(is_ascii\w*)$", t[1])
        if m and m.group(1) in absint.ASCII_CLASSES:
            return {x for lo, hi in absint.ASCII_CLASSES[m.group(1)] for x in range(lo, hi + 1)}, []
    return None, ["predicate not understood: " + render(t)[:120]]



def reach_tests(b, s, target):
    """Under which conditions control arrives at block `target`: the disjunction of the literals on the last branches
    before it.  Returns (tests, problems) with tests = [(boolean term, truth)].  A boolean that was first stored in a local
    (`let d = a || b; if d {…}`, or a helper inlined by a view) is followed back to the values assigned to it."""
    tests, problems = [], []
    region = {target}               # blocks from which `target` is reached without a further decision
    done = set()
    changed = True
    while changed:
        changed = False
        for x in list(region):
            for p in b.preds(x):
                if p in region or b.is_cleanup(p):
                    continue
                if b.term(p)["t"] != "switch":
                    region.add(p)
                    changed = True
                    continue
                edges = b.switch_edges(p)
                into = [v for v, tb in edges if tb in region]
                if len(into) == len(edges):
                    region.add(p)
                    changed = True
    if 0 in region:
        problems.append("reached unconditionally")
    for p in range(len(b.blocks)):
        if p in region or b.is_cleanup(p) or b.term(p)["t"] != "switch":
            continue
        edges = b.switch_edges(p)
        into = [v for v, tb in edges if tb in region]
        if not into:
            continue
        t = b.term(p)
        listed = [v for v, _ in edges if v is not None]
        if t.get("dty") != "bool" or listed != [0] or len(into) != 1:
            problems.append("bb%d: not a boolean test: %s" % (p, render(strip_deep(s.operand(t["discr"])))[:120]))
            continue
        truth = into[0] is None
        term = strip(s.operand(t["discr"]))
        if term[0] != "var":
            tests.append((term, truth))
            continue
        # a stored boolean: look at what was stored on each way here
        for db, val in s.defs_of_var(term[2]):
            cur, steps = db, 0
            while cur != p and steps < 64:
                steps += 1
                tt = b.term(cur)
                if tt["t"] == "switch" or len(b.succs(cur)) != 1:
                    cur = None
                    break
                cur = b.succs(cur)[0]
            if cur != p:
                problems.append("bb%d: stored boolean %s is not assigned right before the test" % (p, term[1]))
                continue
            v = strip_deep(val)
            if v[0] == "const" and isinstance(v[1], (bool, int)):
                if bool(v[1]) == truth:
                    sub, pr = reach_tests(b, s, db)
                    tests.extend(sub)
                    problems.extend(pr)
            else:
                tests.append((v, truth))
    return tests, problems


def _bytes_of(t):
    if t[0] == "bytes":
        return bytes(t[1])
    m = re.match(r"^b'(.*)'$", render(t))
    return m.group(1).encode() if m else None


def eq_bytes_literals(f, body, term, truth, depth=0):
    """If `term == truth` is equivalent to a disjunction of `X == <byte string>` comparisons, the set {(α-text of X,
    byte string)}; else None.  Calls of crate-local one-argument predicates are decided from their truth table."""
    from engine import orderlogic as OL
    t = strip_deep(term)
    t = K.fold_consts(t, f.consts)
    a = OL.atom(t)
    while a[0] == "not":
        a, truth = a[1], not truth
    if a[0] == "cmp" and a[1] in ("==", "!="):
        if (a[1] == "==") != truth:
            return None
        lx, ly = _bytes_of(a[2]), _bytes_of(a[3])
        if (lx is None) == (ly is None):
            return None
        return {(K.alpha(render(a[2] if lx is None else a[3]), body), ly if lx is None else lx)}
    if a[0] != "opaque" or not truth or depth > 2:
        return None
    c = t
    while c[0] == "un" and c[1] == "Not":
        c = strip_deep(c[2])
    if c[0] != "call" or len(c[2]) != 1:
        return None
    hb = f.body((c[3] or {}).get("res") or c[1])
    if hb is None or hb.arg_count != 1:
        return None
    hs = Sym(hb)
    try:
        ps = OL.paths(hb, hs)
    except OL.NotComparisonOnly:
        return None
    lits = {}

    def reg(x):
        while x[0] == "not":
            x = x[1]
        if x[0] == "cmp":
            got = eq_bytes_literals(f, hb, ("bin", "Eq", x[2], x[3]), True, depth + 1) if x[1] in ("==", "!=") else None
            if got and len(got) == 1:
                (who, lit), = got
                if who == "%1":
                    lits[OL._atom_key(x)] = lit
    for conds, ret in ps:
        for x, _ in conds:
            reg(x)
        if ret is not None:
            reg(OL.atom(ret))
    names = [("^" + re.escape(k) + "$", repr(v)) for k, v in lits.items()]
    ok, _ = OL.decide_bool(hb, hs, names, lambda env: any(env.values()))
    if not ok or not lits:
        return None
    arg = K.alpha(render(strip_deep(c[2][0])), body)
    return {(arg, v) for v in lits.values()}


def check_join_dot_segments(ctx, f):
    """What Rsync::check_path (hence Rsync::join) rejects as a dot segment is exactly "." and ".." — not, say, every
    segment that starts with a dot: a manifest may legitimately list ".cer"-like names that the name check accepts."""
    b = f.body("uri::Rsync::check_path")
    if b is None:
        return ctx.missing("R-CLS", "Rsync::check_path", "uri::Rsync::check_path")
    ctx.saw_fn(b.name)
    s = K.sym_of(b)
    target = None
    for bi, blk in enumerate(b.blocks):
        for st in blk["stmts"]:
            if st["s"] == "assign" and st["pl"]["l"] == 0 and "DotSegments" in render(strip_deep(s.rvalue(st["rv"]))):
                target = bi
    shown, lits, problems = [], set(), []
    if target is not None:
        tests, problems = reach_tests(b, s, target)
        for term, truth in tests:
            shown.append("%s%s" % ("" if truth else "!", K.alpha(render(strip_deep(term)), b)))
            got = eq_bytes_literals(f, b, term, truth)
            if got is None:
                problems.append("not a comparison with a constant segment: " + shown[-1][:160])
            else:
                lits |= got
    who = {w for w, _ in lits}
    ok = target is not None and not problems and len(who) == 1 and {v for _, v in lits} == {b".", b".."}
    ctx.ob("R-CLS", "Rsync::check_path:dot-segments-are-exactly-.-and-..", ok,
           'Rsync::check_path answers DotSegments exactly for a segment equal to "." or ".."', where=b.loc,
           detail={"tests": sorted(shown), "problems": problems,
                   "literals": sorted("%s == %r" % (w, v) for w, v in lits)})
