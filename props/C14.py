"""C14 — manifest entries cannot name anything outside the publication point
(DESIGN §2 C14.a–d)."""
import re
from engine import absint
from engine.rules import (MustPass, guard_edges, eq_matcher, pred_matcher, outcome, loop_each_checked, loop_exits,
                          variant_switches, switch_bool_edges, bool_atom, success_values, root_fn, is_derived)
from engine.sym import Sym, strip, strip_deep, render, walk, short
from props import common as K

META = {
    "level": "other",
    "technique": "static analysis of type-checked MIR (rustc_private driver): accepted-language extraction (byte classes by abstract interpretation, loop form) compared as a set with Rsync::join's language; must-pass and guard rules",
    "explanation": "The accepted file-name language is computed from the MIR (byte classes by abstract interpretation, loop "
                   "form and exit edges of validate_file_name) and shown to be [-_0-9A-Za-z]* '.' [A-Za-z]{3}; it is then "
                   "compared as a set with what uri::Rsync::join accepts (URI byte class, no '/', not '.'/'..', non-empty), "
                   "so the unwrap in iter_uris is discharged and a joined URI is base + one segment. The name check is on "
                   "every decode path (capture-time skip and iteration), thisUpdate ≤ nextUpdate is enforced, len counts "
                   "exactly the accepted entries, and ManifestHash::verify fails exactly on inequality with the digest; the rsync path check is decided on the languages of its first round (DotSegments exactly for '.' and '..', EmptySegments exactly for an empty segment that is not the last).",
    "not_decided": ["SHA-256 itself", "decoder completeness for every conforming encoder"],
    "trusted_base": ["bcder decode combinators propagate closure errors",
                     "documented semantics of the std slice / slice-iterator / Option / Result functions the name-language "
                     "interpreter has transfer functions for (split_first, next, position, find, all, any, split, splitn, "
                     "split_at, len, is_empty, index by range, starts_with, strip_prefix, map, ok_or, then_some, …)"],
}

URI_CLASS_SPEC = set(b"!$%&'()*+,-./0123456789:;=ABCDEFGHIJKLMNOPQRSTUVWXYZ_abcdefghijklmnopqrstuvwxyz~")
STEM = set(b"-_0123456789ABCDEFGHIJKLMNOPQRSTUVWXYZabcdefghijklmnopqrstuvwxyz")
ALPHA = set(b"ABCDEFGHIJKLMNOPQRSTUVWXYZabcdefghijklmnopqrstuvwxyz")


def find_one(ctx, f, rule, rx, what):
    bs = f.find_bodies(rx)
    if len(bs) != 1:
        ctx.missing(rule, what, "%s (matches: %d)" % (rx, len(bs)))
        return None
    ctx.saw_fn(bs[0].name)
    return bs[0]


def run(ctx):
    f = ctx.facts()

    # a listed hash is compared as listed: the constructor every resolved entry goes through stores the hash and the
    # algorithm it is given, all of it (a copy that keeps only the first digest-length octets would let a longer listed
    # hash "verify")
    mh = f.body("repository::manifest::ManifestHash::new")
    if mh is None:
        ctx.missing("R-FLOW", "ManifestHash::new", "repository::manifest::ManifestHash::new")
    else:
        ctx.saw_fn(mh.name)
        from engine.rules import success_values as _sv
        vals = [strip_deep(t) for _, _, t in _sv(mh)]
        sy = K.sym_of(mh)
        params = [strip_deep(sy.local(i)) for i in range(1, mh.arg_count + 1)]
        okm = len(vals) == 1 and vals[0][0] == "agg" and str(vals[0][2]) == "ManifestHash" and \
            sorted(render(strip_deep(v)) for _, v in vals[0][3]) == sorted(render(p_) for p_ in params) and \
            all(K.kept_as_is(v, lambda l: l in params) for _, v in vals[0][3])
        ctx.ob("R-FLOW", "ManifestHash::new:stores-what-it-is-given", okm,
               "ManifestHash::new stores the listed hash and the algorithm exactly as given", where=mh.loc,
               detail=[K.alpha(render(v), mh)[:200] for v in vals])
    ctx.rule("R-CHK", "every success path passes a checked call to the sink (incl. loop form)")
    ctx.rule("R-GRD", "success requires the guard literal")
    ctx.rule("R-CLS", "byte classes extracted by abstract interpretation; set relations between them")
    ctx.rule("R-FLOW", "operand provenance")
    ctx.rule("R-SIB", "sibling decoders perform the same checks")

    # ---- C14.b the accepted language -------------------------------------------
    # The name check is found by what it is applied to — the IA5String bytes of an entry, below the two public decode
    # paths — not by its (private) name.
    checkers = ia5_checkers(f)
    if not checkers:
        for b_ in f.find_bodies(r"manifest::FileAndHash.*::validate_file_name$"):
            checkers[b_.name] = 0
    name_lang = None
    good_checkers = set()
    if not checkers:
        ctx.missing("R-CLS", "validate_file_name", "a crate function applied to the IA5String bytes of a manifest entry")
    for vname, argi in sorted(checkers.items()):
        vf = f.body(vname)
        ctx.saw_fn(vname)
        shapes = why = None
        try:
            shapes = ShapeExec(f).language(vf, argi)
        except LangFail as e:
            why = str(e)
        except (RecursionError, IndexError, KeyError, TypeError, ValueError) as e:
            why = "%s: %s" % (type(e).__name__, e)
        if shapes is not None:
            try:
                diff = lang_diff(shapes, FILE_NAME_SPEC)
            except LangFail as e:
                diff = (b"", None, str(e))
            shown = sorted({fmt_shape(x) for x in shapes})
            ctx.ob("R-CLS", "validate_file_name:accepted-language", diff is None,
                   "the set of names the check accepts, computed from its MIR over all inputs, is exactly "
                   "[-_0-9A-Za-z]* '.' [A-Za-z]{3}", where=vf.loc,
                   detail={"function": short(vname), "accepted (union of)": shown[:24],
                           "distinguishing name": None if diff is None else
                           {"name": repr(diff[0]), "accepted by the code": diff[1], "in the specification": diff[2]}})
            if diff is None:
                good_checkers.add(vname)
            name_lang = list(shapes) if name_lang is None else name_lang + list(shapes)
        else:
            ctx.note("name-language interpreter gave up on %s (%s); form-specific rules used" % (short(vname), why))
            n0 = len(ctx.obligations)
            st_c, ex_c = legacy_name_language(ctx, f, vf)
            if st_c is not None and ex_c is not None:
                if all(o.ok for o in ctx.obligations[n0:]) and len(ctx.obligations) > n0:
                    good_checkers.add(vname)
                sh = (("S", frozenset(st_c)), ("B", frozenset([0x2e]))) + (("B", frozenset(ex_c)),) * 3
                name_lang = [sh] if name_lang is None else name_lang + [sh]

    # relation to what Rsync::join accepts
    uri_cls, uwhere, upr = uri_byte_class(f)
    if uri_cls is None and not upr:
        ctx.missing("R-CLS", "is_u8_uri_ascii", "uri::check_uri_ascii / uri::is_u8_uri_ascii")
    else:
        ctx.ob("R-CLS", "uri-byte-class", uri_cls == URI_CLASS_SPEC and not upr,
               "uri::check_uri_ascii accepts exactly the byte strings over ! $-; = A-Z _ a-z ~", where=uwhere,
               detail={"extracted": absint.fmt_class(uri_cls), "problems": upr})
        if name_lang is not None and uri_cls is not None:
            feasible = [sh for sh in name_lang if all(c or k == "S" for k, c in sh)]
            lang = set()
            for sh in feasible:
                for _, c in sh:
                    lang |= c
            ctx.ob("R-CLS", "name-bytes⊆uri-bytes", lang <= uri_cls,
                   "every byte of an accepted manifest file name is a permitted URI byte", detail=absint.fmt_class(lang - uri_cls))
            ctx.ob("R-CLS", "name-has-no-slash", 0x2f not in lang,
                   "an accepted manifest file name contains no '/' (single segment)")
            bad = [w for w in (b"", b".", b"..") if lang_member(feasible, w)]
            ctx.ob("R-CLS", "name-not-dot-segment", not bad,
                   "an accepted name is never empty, '.' or '..'", detail=[repr(w) for w in bad] or None)

    check_join_dot_segments(ctx, f)
    check_join_failure_kinds(ctx, f)

    # ---- C14.a the check is on every decode path -------------------------------
    checks = {}
    parsers = entry_parsers(f)
    for which in ("skip_opt_in", "take_opt_from"):
        # the entry parser of each decode path (capture: "skip_opt_in", iteration: "take_opt_from" at review time) is the
        # function below that path which reads the IA5String — found by that, not by its private name
        if parsers.get(which):
            b = f.body(parsers[which])
            ctx.saw_fn(b.name)
        else:
            b = find_one(ctx, f, "R-CHK", r"manifest::FileAndHash.*::%s$" % which, which)
        if b is None:
            continue
        parsers[which] = b.name

        def sink(c):
            if c.res not in good_checkers:         # a check whose accepted language is the specified one
                return False
            a = K.arg_renders(c)
            t = K.arg_terms(c)[0]
            ia5 = any(x[0] == "call" and x[3].get("name") == "take_from" and any("Ia5CharSet" in g for g in x[3].get("ga", ()))
                      for x in walk(t))
            return ia5 and re.search(r"(Ia5String|RestrictedString)::take_from\([^()]*\)", a[0]) is not None
        mp = MustPass(f, sink, name="validate_file_name(IA5 bytes)")
        ok = mp.holds(b.name)
        ctx.ob("R-CHK", "FileAndHash::%s→validate_file_name" % which, ok,
               "FileAndHash::%s accepts an entry only if its name passed validate_file_name" % which, where=b.loc,
               detail=None if ok else K.why(f, mp, b.name))
        # checked-call set of the closure (for sibling comparison)
        under = _reachable_fns(f, b.name, depth=3)
        cl = [n for n in f.bodies if root_fn(f, n) in under]
        names = set()
        for n in cl:
            for c in f.body(n).calls():
                if not (c.is_static and c.res):
                    continue
                if c.res in checkers:
                    names.add("name check" + ("" if c.res in good_checkers else " (language differs)"))
                elif "RestrictedString" in c.res and c.name == "take_from":
                    names.add(short(c.res))
                elif "BitString" in c.res and c.name in ("take_from", "skip_in"):
                    names.add(short(c.res).replace("skip_in", "take/skip").replace("take_from", "take/skip"))
        checks[which] = names
    if len(checks) == 2:
        ctx.ob("R-SIB", "FileAndHash:skip_opt_in≡take_opt_from", checks["skip_opt_in"] == checks["take_opt_from"],
               "capture-time skip and iteration-time take parse the same fields with the same checks",
               detail={k: sorted(v) for k, v in checks.items()})
    # the iterator re-parses with the parser whose sibling ran at capture time
    nb = f.body("<repository::manifest::FileListIter as std::iter::Iterator>::next")
    if nb is None:
        ctx.missing("R-SIB", "FileListIter::next", "FileListIter::next")
    else:
        ctx.saw_fn(nb.name)
        cs = [c for c in nb.calls() if c.name == "decode_partial" and (c.res or "").startswith("bcder::")]
        ok = len(cs) == 1 and K.arg_renders(cs[0])[0] == "self.0"
        inner = [c for n in f.children(nb.name) for c in f.body(n).calls() if c.res and c.res == parsers.get("take_opt_from")]
        ctx.ob("R-SIB", "FileListIter::next:reparses-captured-list-in-its-own-mode", ok and len(inner) == 1,
               "FileListIter::next re-decodes the captured list with Captured::decode_partial (capture's own mode) and "
               "FileAndHash::take_opt_from", where=nb.loc)
    # ManifestContent constructors: the captured list is what skip_opt_in accepted
    mc = find_one(ctx, f, "R-CHK", r"manifest::ManifestContent::take_from::\{closure#0\}$", "ManifestContent::take_from closure")
    if mc is not None:
        # the capture loop is found by what it does (it is the caller of FileAndHash::skip_opt_in), wherever it lives
        # below ManifestContent::take_from: in one of its closures or in a private function those call
        is_skip = lambda c: bool(c.res) and c.res == parsers.get("skip_opt_in")
        below = _reachable_fns(f, "repository::manifest::ManifestContent::take_from")
        loop_b = [bd for n, bd in f.bodies.items() if root_fn(f, n) in below and any(is_skip(c) for c in bd.calls())]
        counter = None
        lb = None
        if len(loop_b) != 1:
            ctx.missing("R-CHK", "file-list capture loop", "closure calling skip_opt_in")
        else:
            lb = loop_b[0]
            ctx.saw_fn(lb.name)
            oc = outcome(lb)
            # counter += 1 exactly on the Some edge; the counter is a captured variable of the loop's closure
            inc_blocks = set()
            counters = set()
            for bi, blk in enumerate(lb.blocks):
                for st in blk["stmts"]:
                    if st["s"] == "assign" and st["rv"]["r"] == "bin" and st["rv"]["bop"] in ("AddWithOverflow", "Add"):
                        ta, tb2 = strip_deep(oc.sym.operand(st["rv"]["a"])), strip_deep(oc.sym.operand(st["rv"]["b"]))
                        if ta[0] == "upvar" and render(tb2) == "1":
                            inc_blocks.add(bi)
                            counters.add(ta[1])
            if len(counters) == 1:
                counter = list(counters)[0]
            res = []
            _sk = re.escape(short(parsers.get("skip_opt_in") or "FileAndHash::skip_opt_in"))
            # the Ok payload of the parser's result, through `?` or through a `match` on the Result itself
            entry_rx = r"^(?:Try::branch\(%s\([^()]*\)\)↓Continue\.0|%s\([^()]*\)↓Ok\.0)$" % (_sk, _sk)
            for sw, some_t in option_some_edges(lb, oc.sym, entry_rx):
                reach = lb.reachable(some_t, removed_blocks=set(oc.fail_blocks) | inc_blocks)
                bad = sw in reach or any(c.bb in reach for c in lb.calls() if is_skip(c)) or \
                    any(r in reach for r in oc.returns())
                res.append((lb.where(sw), not bad, "next iteration or end of the capture reachable without counting" if bad else
                            "entry counted on every continuing path (%d counting block(s))" % len(inc_blocks)))
            for where, ok, detail in res:
                ctx.ob("R-FLOW", "ManifestContent::take_from:len-counts-entries", ok and len(inc_blocks) == 1 and counter is not None,
                       "len is incremented by one on every iteration that accepted an entry (and nowhere else)",
                       where=where, detail=detail)
            if not res:
                ctx.ob("R-FLOW", "ManifestContent::take_from:len-counts-entries", False, "entry loop not found", where=lb.loc)
            # a failing entry fails the capture
            # (loop: the only success exit is the None edge; errors propagate through `?`)
            from engine.rules import call_checked
            ok = all(call_checked(lb, c.bb, oc)[0] for c in lb.calls() if is_skip(c))
            ctx.ob("R-CHK", "ManifestContent::take_from:entry-errors-propagate", ok,
                   "an entry rejected by skip_opt_in makes the whole manifest fail to decode", where=lb.loc)
        # struct literal: len field is the counter, file_list the capture
        from engine.rules import aggregates_of
        sites = [x for x in aggregates_of(f, "repository::manifest::ManifestContent") if x[0] is mc]
        ok = False
        detail = None
        for bd, bi, si, st in sites:
            t = outcome(bd).sym.rvalue(st["rv"])
            flds = {k: through_helpers(f, v) for k, v in t[3]}
            detail = {k: render(v) for k, v in flds.items()}
            ln, fl = flds.get("len"), _ok_payload(flds.get("file_list") or ("unknown", "no field"))
            # len: a variable initialised to 0 — the one the capture loop counts in
            ok_len = ln is not None and ln[0] == "mvar" and ln[3] == ("const", 0) and lb is not None and ln[1] == counter
            # file_list: what take_sequence(capture(loop)) returned, the loop's closure borrowing that very variable
            ok_fl = False
            if ok_len and fl[0] == "call" and (fl[3] or {}).get("name") == "take_sequence" and (fl[3] or {}).get("krate") == "bcder":
                cl = [a for a in fl[2] if a[0] == "closure"]
                ok_fl = len(cl) == 1 and lb.name.startswith(cl[0][1] + "::") and \
                    any(c[0] == "mvar" and c[2] == ln[2] for c in cl[0][2]) and \
                    any(c.name == "capture" and (c.krate or "") == "bcder" for c in (f.body(cl[0][1]).calls() if f.body(cl[0][1]) else ()))
            ok = ok_len and ok_fl
        ctx.ob("R-FLOW", "ManifestContent::take_from:fields", ok,
               "ManifestContent.len is the entry counter (initialised to 0) and file_list the captured sequence",
               where=mc.loc, detail=detail)
        # ---- C14.c thisUpdate <= nextUpdate
        def g(bd, s, bb):
            return K.order_literal_edges(bd, s, bb, r"^Try::branch\(Time::take_from\(cons\)\)↓Continue\.0$", r"^Try::branch\(Time::take_from\(cons\)\)↓Continue\.0$")
        # both operands render identically (two Time::take_from calls); they are told apart by their role: which field
        # of the ManifestContent literal each value ends up in
        oc = outcome(mc)
        roles = {}
        for bd, bi, si, st in sites:
            rv = st["rv"]
            if len(rv.get("fields", ())) == len(rv["ops"]):
                for fld, op in zip(rv["fields"], rv["ops"]):
                    pl = op.get("m") or op.get("c")
                    if pl is not None and not pl["p"] and fld in ("this_update", "next_update"):
                        roles[_root_local(mc, pl["l"])] = fld
        found = False
        okc = False
        for bi, blk in enumerate(mc.blocks):
            t = blk["term"]
            if t["t"] != "switch" or t.get("dty") != "bool":
                continue
            term = strip(oc.sym.operand(t["discr"]))
            at = bool_atom(term)
            if not at or at[0] not in ("lt", "le", "gt", "ge"):
                continue
            # operand locals
            d = t["discr"]
            pl = d.get("m") or d.get("c")
            defs = mc.defs().get(pl["l"], [])
            if not defs or defs[0][2] != "call":
                continue
            call = defs[0][3]
            names = []
            for a in call["args"]:
                apl = a.get("m") or a.get("c")
                # &this_update → find the local behind the reference
                names.append(roles.get(_root_local(mc, apl["l"])) if apl is not None and not apl["p"] else None)
            if set(names) == {"this_update", "next_update"}:
                found = True
                rel, _, _, pos = at
                lo_first = names[0] == "this_update"
                # literal wanted: this_update <= next_update
                e = switch_bool_edges(mc, bi)
                f_t, t_t = e
                if rel in ("gt", "lt"):
                    strict_violation = (rel == "gt" and lo_first) or (rel == "lt" and not lo_first)
                    # atom == (this > next): literal true on the atom-false edge
                    lit_edge = (f_t if pos else t_t) if strict_violation else None
                else:
                    holds = (rel == "le" and lo_first) or (rel == "ge" and not lo_first)
                    lit_edge = (t_t if pos else f_t) if holds else None
                if lit_edge is not None:
                    other = f_t if lit_edge == t_t else t_t
                    okc = other not in oc.success_reach() and lit_edge in oc.success_reach()
        ctx.ob("R-GRD", "ManifestContent::take_from:thisUpdate<=nextUpdate", found and okc,
               "decoding fails when thisUpdate is after nextUpdate (equality allowed)", where=mc.loc)

    # ---- C14.b' iter_uris joins the validated name onto the base ----------------
    iu_fn = "repository::manifest::ManifestContent::iter_uris"
    joiners = [f.body(n) for n in [iu_fn] + list(f.children(iu_fn)) if f.body(n) is not None and
               any(c.res == "uri::Rsync::join" for c in f.body(n).calls())]
    if len(joiners) != 1:
        # (a join moved into a private helper is seen again once that helper is folded back: same key in every view)
        ctx.ob("R-FLOW", "iter_uris:join(base, entry name)", False,
               "iter_uris joins exactly the entry's (validated) file name onto the caller's base URI",
               where=f.body(iu_fn).loc if f.body(iu_fn) else None,
               detail="bodies of ManifestContent::iter_uris that call Rsync::join: %d" % len(joiners))
    else:
        iu = joiners[0]
        ctx.saw_fn(iu.name)
        js = [c for c in iu.calls() if c.res == "uri::Rsync::join"]
        ok = False
        detail = None
        if len(js) == 1:
            # captures are read in the vocabulary of iter_uris (parameters are positions there)
            env = {}
            parent = f.body(iu_fn)
            if iu.name != iu_fn and parent is not None:
                ps = K.sym_of(parent)
                for bi, blk in enumerate(parent.blocks):
                    for st in blk["stmts"]:
                        if st["s"] == "assign" and st["rv"]["r"] == "agg" and st["rv"].get("def") == iu.name:
                            _, env = K.closure_env(f, ps.rvalue(st["rv"]), "%elem")
            from engine.sym import substituting
            ts = K.arg_terms(js[0])
            with substituting(env or {}):
                a0 = render(strip_deep(ts[0]))
            name_t = fold_accessors(f, ts[1])
            a1 = K.alpha(render(name_t), iu)
            detail = [a0, a1]
            # the joined name: the `file` field of the element handed to the closure — read directly, through
            # into_pair().0 (whose body is inspected), or through the accessor
            elem = "%%%d" % iu.arg_count if iu.name != iu_fn else None
            okname = elem is not None and (a1 == "%s.file" % elem or
                                           (a1 == "FileAndHash::into_pair(%s).0" % elem and _pair_first_is_file(f)))
            ok = a0 in ("base", "^base") and okname
        ctx.ob("R-FLOW", "iter_uris:join(base, entry name)", ok,
               "iter_uris joins exactly the entry's (validated) file name onto the caller's base URI", where=iu.loc, detail=detail)

    # ---- C14.d ManifestHash::verify ----------------------------------------------
    hv = find_one(ctx, f, "R-GRD", r"manifest::ManifestHash::verify$", "ManifestHash::verify")
    if hv is not None:
        g = eq_matcher(r"^self\.hash$", r"^DigestAlgorithm::digest\(self\.algorithm, t\)$")
        mp = MustPass(f, lambda c: False, guard_fn=lambda bd, s, bb: guard_edges(bd, s, bb, g), name="hash == digest(data)")
        ok = mp.holds(hv.name)
        ctx.ob("R-GRD", "ManifestHash::verify:ok-only-if-equal", ok,
               "ManifestHash::verify returns Ok only if the stored hash equals the digest of the data", where=hv.loc,
               detail=None if ok else K.why(f, mp, hv.name))
        ok2, detail = K.guard_false_edge_fails(hv, g)
        oc = outcome(hv)
        acc = False
        for bi, blk in enumerate(hv.blocks):
            if blk["term"]["t"] == "switch":
                e = guard_edges(hv, oc.sym, bi, g)
                if e and e[0][1] in oc.success_reach():
                    acc = True
        ctx.ob("R-GRD", "ManifestHash::verify:ok-if-equal", acc,
               "ManifestHash::verify returns Ok when they are equal", where=hv.loc)
    db = f.body("crypto::digest::DigestAlgorithm::digest")
    if db is None:
        ctx.missing("R-FLOW", "DigestAlgorithm::digest", "crypto::digest::DigestAlgorithm::digest")
    else:
        cs = [c for c in db.calls() if c.name == "digest" and (c.krate or "").startswith("aws_lc")]
        ok = len(cs) == 1 and "SHA256" in K.arg_renders(cs[0])[0] and K.arg_renders(cs[0])[1] == "data"
        ctx.ob("R-FLOW", "DigestAlgorithm::digest=sha256(data)", ok, "DigestAlgorithm::digest is SHA-256 over its argument",
               where=db.loc, detail=K.arg_renders(cs[0]) if cs else None)



PUBLIC_DECODE_PATHS = ("repository::manifest::ManifestContent::take_from",
                       "<repository::manifest::FileListIter as std::iter::Iterator>::next")


def _has_ia5(t):
    return any(x[0] == "call" and (x[3] or {}).get("name") == "take_from" and any("Ia5CharSet" in g for g in (x[3] or {}).get("ga", ()))
               for x in walk(t))


def ia5_checkers(f):
    """{crate function: argument index}: the functions the IA5String bytes of a manifest entry are handed to, anywhere
    below the public decode paths (capture and iteration) — the name check, whatever it is called and wherever it sits."""
    out = {}
    below = set()
    for p in PUBLIC_DECODE_PATHS:
        if f.body(p) is not None:
            below |= _reachable_fns(f, p, depth=6)
    for n, bd in f.bodies.items():
        if root_fn(f, n) not in below:
            continue
        for c in bd.calls():
            if not c.is_static or not c.res or f.body(c.res) is None or bd.is_cleanup(c.bb):
                continue
            try:
                ts = K.arg_terms(c)
            except Exception:
                continue
            for i, t in enumerate(ts):
                if _has_ia5(t):
                    out.setdefault(c.res, i)
    return out


def uri_byte_class(f):
    """(class, where, problems): the bytes uri::check_uri_ascii (public) lets through — the language it accepts must be
    C* for one class C, however the test is spelt (all / any / loop / helper predicate)."""
    cb = f.body("uri::check_uri_ascii")
    pr = []
    if cb is not None:
        try:
            shapes = ShapeExec(f).language(cb, 0)
            cls = frozenset(v for v in range(256) if lang_member(shapes, bytes([v])))
            if lang_diff(shapes, [(("S", cls),)]) is None:
                return set(cls), cb.loc, []
            pr.append("check_uri_ascii does not accept a language of the form C*")
        except LangFail as e:
            pr.append("check_uri_ascii: " + str(e))
        except (RecursionError, IndexError, KeyError, TypeError, ValueError) as e:
            pr.append("check_uri_ascii: %s: %s" % (type(e).__name__, e))
    ub = f.body("uri::is_u8_uri_ascii")
    if ub is None:
        return None, None, pr if cb is not None else []
    cls, pr2 = absint.byte_class(f, "uri::is_u8_uri_ascii")
    return cls, ub.loc, pr2



def fold_accessors(f, t, depth=0):
    """The term with calls of trivial crate accessors (`fn x(&self) -> &T { &self.x }`, also through as_ref / deref) read
    as the field they return: `self.hash` and `self.as_slice()` are the same value."""
    t = strip_deep(t)
    k = t[0]
    if depth > 30:
        return t
    if k == "call":
        args = tuple(fold_accessors(f, a, depth + 1) for a in t[2])
        t = ("call", t[1], args, t[3])
        hb = f.body((t[3] or {}).get("res") or t[1])
        if hb is not None and hb.arg_count == 1 and len(args) == 1 and len(hb.blocks) <= 6 and "{closure" not in hb.name:
            r = strip_deep(Sym(hb).local(0))
            names = []
            while r[0] == "field" and len(names) < 4:
                names.append((r[2], r[3] if len(r) > 3 else None))
                r = strip_deep(r[1])
            if names and r[0] == "param":
                out = args[0]
                for nm, owner in reversed(names):
                    out = ("field", out, nm, owner)
                return out
        return t
    if k == "field":
        return ("field", fold_accessors(f, t[1], depth + 1), t[2], t[3] if len(t) > 3 else None)
    if k == "variant":
        return ("variant", fold_accessors(f, t[1], depth + 1), t[2])
    if k == "index":
        return ("index", fold_accessors(f, t[1], depth + 1), fold_accessors(f, t[2], depth + 1))
    if k == "bin":
        return ("bin", t[1], fold_accessors(f, t[2], depth + 1), fold_accessors(f, t[3], depth + 1))
    if k == "un":
        return ("un", t[1], fold_accessors(f, t[2], depth + 1))
    if k == "cast":
        return ("cast", fold_accessors(f, t[1], depth + 1), t[2])
    if k in ("discr", "len"):
        return (k, fold_accessors(f, t[1], depth + 1))
    if k == "agg":
        return ("agg", t[1], t[2], tuple((n, fold_accessors(f, v, depth + 1)) for n, v in t[3]))
    if k == "mvar":
        return ("mvar", t[1], t[2], fold_accessors(f, t[3], depth + 1))
    if k == "closure":
        return ("closure", t[1], tuple(fold_accessors(f, a, depth + 1) for a in t[2]))
    return t



def _pair_first_is_file(f):
    """FileAndHash::into_pair returns (self.file, self.hash) — component 0 is the file name."""
    for n, bd in f.bodies.items():
        if n.endswith("::into_pair") and bd.rec.get("impl_adt") == "repository::manifest::FileAndHash":
            r = strip_deep(Sym(bd).local(0))
            return r[0] == "agg" and len(r[3]) == 2 and render(strip_deep(r[3][0][1])) == "self.file"
    return False



def entry_parsers(f):
    """{"skip_opt_in": capture-side entry parser, "take_opt_from": iteration-side entry parser}: for each public decode
    path, the one crate function called from it (or its closures) below which the IA5String of an entry is read."""
    memo = {}

    def reads_ia5(fn):
        if fn not in memo:
            memo[fn] = False
            under = _reachable_fns(f, fn, depth=3)
            memo[fn] = any(c.name == "take_from" and any("Ia5CharSet" in g for g in (c.ga or ()))
                           for n, bd in f.bodies.items() if root_fn(f, n) in under for c in bd.calls())
        return memo[fn]
    out = {}
    for role, pub in zip(("skip_opt_in", "take_opt_from"), PUBLIC_DECODE_PATHS):
        if f.body(pub) is None:
            continue
        # an entry parser answers Result<Option<_>, _> (one optional SEQUENCE per call: the protocol the capture loop and
        # the iterator rely on); a helper that merely holds the loop, or one that only reads the name, does not
        cands = {g for g in _reachable_fns(f, pub, depth=5)
                 if g != pub and f.body(g) is not None and "{closure" not in g and
                 re.match(r"^(std|core)::result::Result<(std|core)::option::Option<", f.body(g).ret_ty or "") and reads_ia5(g)}
        if len(cands) == 1:
            out[role] = cands.pop()
    return out


def _root_local(body, l, depth=0):
    """The local a temporary is a plain copy / move / reference of."""
    ds = [d for d in body.defs().get(l, []) if d[2] in ("assign", "call", "yield", "partial")]
    if depth > 12 or len(ds) != 1 or ds[0][2] != "assign":
        return l
    rv = ds[0][3]["rv"]
    pl = None
    if rv["r"] == "use":
        pl = rv["op"].get("m") or rv["op"].get("c")
    elif rv["r"] == "ref":
        pl = rv["pl"]
    if pl is None or any(p[0] != "d" for p in pl["p"]):
        return l
    return _root_local(body, pl["l"], depth + 1)


def _reachable_fns(f, start, depth=4):
    """`start` and the crate functions reachable from it (and from its closures) through static calls, a few levels."""
    seen = {start}
    frontier = [start]
    for _ in range(depth):
        nxt = []
        for fn in frontier:
            for n, bd in f.bodies.items():
                if root_fn(f, n) != fn:
                    continue
                for c in bd.calls():
                    if c.is_static and c.res and c.res not in seen and f.body(c.res) is not None:
                        seen.add(c.res)
                        nxt.append(c.res)
        frontier = nxt
    return seen


def option_some_edges(body, sym, place_rx):
    """[(switch block, target)] of the edges on which the Option X (render(X) ~ place_rx) is known to be Some: `match`/
    `if let`/`while let` on it, or a test of X.is_some() / X.is_none()."""
    out = []
    for sw in variant_switches(body, sym, place_rx):
        for v, tb in body.switch_edges(sw):
            if v == 1:
                out.append((sw, tb))
    for bi, blk in enumerate(body.blocks):
        t = blk["term"]
        if t["t"] != "switch" or t.get("dty") != "bool" or blk.get("cleanup"):
            continue
        for nm, pos in (("is_some", True), ("is_none", False)):
            e = guard_edges(body, sym, bi, pred_matcher(r"Option::%s$|::%s$" % (nm, nm), (place_rx,), positive=pos))
            if e:
                out.extend(e)
    return out


def _ok_payload(t):
    """`x?` is the Ok payload of x."""
    t = strip_deep(t)
    if t[0] == "field" and t[2] == "0" and t[1][0] == "variant" and t[1][2] == "Continue":
        c = strip_deep(t[1][1])
        if c[0] == "call" and (c[3] or {}).get("name") == "branch" and len(c[2]) == 1:
            return strip_deep(c[2][0])
    return t


def through_helpers(f, t, depth=0):
    """A value obtained from a call of a crate function with one success value, `H(..)?`, `H(..)?.1`, …: the term that
    function returns there (in the function's own terms).  Other terms are returned as they are."""
    t = strip_deep(t)
    projs = []
    cur = t
    while cur[0] == "field" and not (cur[2] == "0" and cur[1][0] == "variant" and cur[1][2] == "Continue"):
        projs.append(cur[2])
        cur = strip_deep(cur[1])
    inner = _ok_payload(cur)
    if inner is cur or inner[0] != "call" or depth > 3:
        return t
    hb = f.body((inner[3] or {}).get("res") or inner[1])
    if hb is None:
        return t
    vals = [v for _, _, v in success_values(hb)]
    if len(vals) != 1:
        return t
    v = strip_deep(vals[0])
    if not (v[0] == "agg" and v[2] == "Ok" and len(v[3]) == 1):
        return t
    v = strip_deep(v[3][0][1])
    for name in reversed(projs):
        if v[0] != "agg":
            return t
        nxt = [x for k, x in v[3] if k == name]
        if len(nxt) != 1:
            return t
        v = strip_deep(nxt[0])
    return through_helpers(f, v, depth + 1)


def legacy_name_language(ctx, f, vf):
    """Fallback when the shape interpreter meets a construct it has no transfer function for: the original form-specific
    rules (a split_first cursor loop followed by `len == 3` and `all(alphabetic)`).  Returns (stem class, extension
    class) or (None, None)."""
    stem_cls = ext_cls = None
    oc = outcome(vf)
    sym = oc.sym
    # the per-byte predicate used in the loop
    guard_calls = []
    for bi, blk in enumerate(vf.blocks):
        t = blk["term"]
        if t["t"] == "switch" and t.get("dty") == "bool":
            at = bool_atom(sym.operand(t["discr"]))
            if at and isinstance(at[0], tuple) and at[0][0] == "pred" and at[0][1] in f.bodies:
                guard_calls.append((bi, at))
    heads = [c for c in vf.calls() if c.name == "split_first"]
    ok_struct = len(heads) == 1
    ctx.ob("R-CHK", "validate_file_name:scans-with-split_first", ok_struct,
           "the name is consumed byte by byte (one split_first producer)", where=vf.loc)
    # the cursor that is scanned (whatever it is called): the argument of split_first
    scan = re.escape(K.arg_renders(heads[0])[0]) if ok_struct else r"\$n"
    if ok_struct:
        head = heads[0]
        # which predicate guards the back edge?
        stem_pred = None
        for bi, at in guard_calls:
            args = [render(a) for a in at[1]]
            if args and re.search(r"split_first\(.*\)↓Some\.0\.0$", args[0]):
                stem_pred = at[0][1]
        if stem_pred is None:
            # no helper predicate: the tests on the scanned byte are written out in the loop.  Decide the loop body for
            # each of the 256 byte values: does the scan continue, leave the loop towards success, or reject?
            fate, pr = scan_byte_fates(f, vf, oc, head, r"split_first\(.*\)↓Some\.0\.0$")
            if fate is None:
                ctx.ob("R-CLS", "validate_file_name:stem-predicate", False,
                       "the per-byte tests of the scan loop are understood", where=vf.loc, detail=pr)
            else:
                stem_cls = {v for v, x in fate.items() if x == "continue"}
                ctx.ob("R-CLS", "validate_file_name:stem-class", stem_cls == STEM and not pr,
                       "bytes allowed before the dot are exactly [-_0-9A-Za-z]", where=vf.loc,
                       detail={"extracted": absint.fmt_class(stem_cls), "problems": pr, "form": "tests written out in the loop"})
                ctx.ob("R-CHK", "validate_file_name:every-stem-byte-checked", True,
                       "scanning continues past a byte only on the true edge of the stem predicate", where=vf.loc,
                       detail="decided per byte value")
                ex = {v for v, x in fate.items() if x == "exit"}
                ctx.ob("R-CHK", "validate_file_name:scan-exits", ex == {0x2e},
                       "the scan is left towards success only at end of input or at a '.' byte", where=vf.loc,
                       detail={"bytes leaving the scan": absint.fmt_class(ex)})
        else:
            stem_cls, pr = absint.byte_class(f, stem_pred)
            ctx.ob("R-CLS", "validate_file_name:stem-class", stem_cls == STEM and not pr,
                   "bytes allowed before the dot are exactly [-_0-9A-Za-z]", where=f.body(stem_pred).loc,
                   detail={"extracted": absint.fmt_class(stem_cls), "problems": pr})
            g = pred_matcher(re.escape(stem_pred) + "$", (r"split_first\(.*\)↓Some\.0\.0$",))
            res = loop_each_checked(vf, lambda c: c.name == "split_first",
                                    lambda bd, s, bb: guard_edges(bd, s, bb, g), require_for_return=False)
            for where, ok, detail in res:
                ctx.ob("R-CHK", "validate_file_name:every-stem-byte-checked", ok,
                       "scanning continues past a byte only on the true edge of the stem predicate", where=where, detail=detail)
            # exits of the scan loop: end of input, or the byte is '.'
            exits = loop_exits(vf, head.bb, oc) or []
            allowed = set()
            for sw in variant_switches(vf, sym, r"split_first\("):
                for v, tb in vf.switch_edges(sw):
                    if v != 1:
                        allowed.add((sw, tb))
            for bi, blk in enumerate(vf.blocks):
                if blk["term"]["t"] == "switch":
                    e = value_edges(f, vf, sym, bi, r"split_first\(.*\)↓Some\.0\.0$", 0x2e)
                    if e:
                        allowed.update(e)
            # an exit edge may pass through trivial goto blocks; compare by source switch block
            def src_switch(u):
                seen = set()
                while vf.term(u)["t"] != "switch" and len(vf.preds(u)) == 1 and u not in seen:
                    seen.add(u)
                    u = vf.preds(u)[0]
                return u
            bad = []
            for u, v in exits:
                su = src_switch(u)
                if not any(a[0] == su for a in allowed):
                    bad.append((u, v))
                else:
                    # the edge taken out of su must be an allowed one
                    first = u if u != su else v
                    path_first = None
                    for a in allowed:
                        if a[0] == su and (a[1] == u or a[1] == v or u in vf.reachable(a[1]) ):
                            path_first = a
                    if path_first is None:
                        bad.append((u, v))
            ctx.ob("R-CHK", "validate_file_name:scan-exits", bool(exits) and not bad,
                   "the scan is left towards success only at end of input or at a '.' byte", where=vf.loc,
                   detail={"exits": exits, "bad": bad})
        # after the scan: exactly three bytes, all alphabetic
        len_rx = r"(^|::)len\(%s\)$" % scan
        mp = MustPass(f, lambda c: False, guard_fn=lambda bd, s, bb: value_edges(f, bd, s, bb, len_rx, 3), name="len(rest)==3")
        ok = mp.holds(vf.name)
        ctx.ob("R-GRD", "validate_file_name:extension-length-3", ok,
               "success requires exactly three bytes after the dot", where=vf.loc, detail=None if ok else K.why(f, mp, vf.name))
        # `rest.iter().all(p)` must hold, or — the same thing — `rest.iter().any(q)` must not (then the class is ¬q)
        all_calls = [c for c in vf.calls() if c.name in ("all", "any") and c.trait == "std::iter::Iterator" and not vf.is_cleanup(c.bb)]
        okx = False
        detail = None
        for c in all_calls:
            a = K.arg_terms(c)
            recv_rx = r"(^|⟵)(Iterator::(copied|cloned)\()?%s\)?$" % scan
            if re.search(recv_rx, render(a[0])):
                ext_cls, pr = predicate_class(f, strip(a[1]))
                if c.name == "any" and ext_cls is not None:
                    ext_cls = set(range(256)) - ext_cls
                detail = {"form": c.name, "extracted": absint.fmt_class(ext_cls), "problems": pr}
                g = pred_matcher(r"::%s$" % c.name, (recv_rx,), positive=(c.name == "all"))
                mp = MustPass(f, lambda c: False, guard_fn=lambda bd, s, bb: guard_edges(bd, s, bb, g), name="all alphabetic")
                okx = ext_cls == ALPHA and not pr and mp.holds(vf.name)
        ctx.ob("R-CLS", "validate_file_name:extension-class", okx,
               "success requires every byte after the dot to be in [A-Za-z]", where=vf.loc, detail=detail)

    return stem_cls, ext_cls


_CLS_CACHE = {}


def scan_byte_fates(f, body, oc, head, byte_rx):
    """For a scan loop whose element is produced by the call `head` (split_first): what happens to each byte value on the
    Some edge — "continue" (back to the producer), "exit" (leaves the loop towards a success return) or "reject".
    Every branch on the way must be a test of that byte against constants (==, <, <=, … in any spelling, `match` arms,
    std's u8::is_ascii_* or a crate predicate whose byte class is computed); anything else → (None, why)."""
    sym = oc.sym
    rx = re.compile(byte_rx)
    comp = None
    for c in body.cycles_sccs():
        if head.bb in c:
            comp = set(c)
    sws = variant_switches(body, sym, r"split_first\(")
    if comp is None or len(sws) != 1:
        return None, ["scan loop not found"]
    start = [tb for v, tb in body.switch_edges(sws[0]) if v == 1]
    if len(start) != 1:
        return None, ["no Some edge"]
    ok_reach = oc.success_reach()

    def is_byte(t):
        return rx.search(render(strip_deep(t))) is not None

    def const_of(t):
        t = K.fold_consts(strip_deep(t), f.consts)
        return t[1] if t[0] == "const" and isinstance(t[1], int) and not isinstance(t[1], bool) else None

    def truth(term, v):
        at = bool_atom(term)
        if at is None:
            return None
        rel, a, b, pos = at
        if isinstance(rel, tuple):
            if len(a) != 1 or not is_byte(a[0]):
                return None
            name = rel[1]
            if name not in _CLS_CACHE:
                m = re.match(r"^core::num::<impl u8>::(is_ascii\w*)$", name)
                if m and m.group(1) in absint.ASCII_CLASSES:
                    _CLS_CACHE[name] = ({x for lo, hi in absint.ASCII_CLASSES[m.group(1)] for x in range(lo, hi + 1)}, [])
                elif f.body(name) is not None:
                    _CLS_CACHE[name] = absint.byte_class(f, name)
                else:
                    _CLS_CACHE[name] = (None, ["unknown predicate " + name])
            cls, pr = _CLS_CACHE[name]
            if cls is None or pr:
                return None
            return (v in cls) == pos
        x = v if is_byte(a) else const_of(a)
        y = v if is_byte(b) else const_of(b)
        if x is None or y is None or not (is_byte(a) or is_byte(b)):
            return None
        r = {"eq": x == y, "lt": x < y, "le": x <= y, "gt": x > y, "ge": x >= y}[rel]
        return r == pos

    fate = {}
    for v in range(256):
        cur, steps = start[0], 0
        env = {}             # booleans stored on the way (`matches!(..)`, `let ok = ..;`)
        while True:
            steps += 1
            if steps > 200:
                return None, ["walk does not terminate for byte %d" % v]
            if cur in comp and cur != head.bb:
                for st in body.blocks[cur]["stmts"]:
                    if st["s"] == "assign" and not st["pl"]["p"]:
                        val = strip_deep(sym.rvalue(st["rv"])) if st["rv"]["r"] == "use" and "k" in st["rv"]["op"] else None
                        if val is not None and val[0] == "const" and isinstance(val[1], (bool, int)):
                            env[st["pl"]["l"]] = bool(val[1])
                        else:
                            env.pop(st["pl"]["l"], None)
            if cur == head.bb:
                fate[v] = "continue"
                break
            if cur not in comp:
                fate[v] = "exit" if cur in ok_reach and cur not in oc.fail_blocks else "reject"
                break
            t = body.term(cur)
            if t["t"] != "switch":
                nx = body.succs(cur)
                if len(nx) != 1:
                    fate[v] = "reject"       # return / unreachable inside the walk
                    break
                cur = nx[0]
                continue
            d = sym.operand(t["discr"])
            if t.get("dty") == "bool":
                d0 = strip(d)
                tv = env.get(d0[2]) if d0[0] == "var" else truth(d, v)
                if tv is None:
                    return None, ["bb%d: not a test of the scanned byte against constants: %s" % (cur, render(strip_deep(d))[:160])]
                fe, te = switch_bool_edges(body, cur)
                cur = te if tv else fe
            elif is_byte(d):
                nxt = [tb for val, tb in t["targets"] if val == v]
                cur = nxt[0] if nxt else t["otherwise"]
            else:
                return None, ["bb%d: branch on something other than the scanned byte: %s" % (cur, render(strip_deep(d))[:160])]
    return fate, []


def value_edges(f, body, sym, bb, place_rx, value):
    """Edges of the switch at bb on which `X == value` is known, X rendering like place_rx: a boolean comparison in
    either order / polarity (named integer constants folded), or a match on X itself with `value` as a pattern."""
    t = body.term(bb)
    if t["t"] != "switch":
        return None
    rx = re.compile(place_rx)
    if t.get("dty") == "bool":
        def m(rel, a, b):
            if rel != "eq" or b is None:
                return None
            a2, b2 = K.fold_consts(a, f.consts), K.fold_consts(b, f.consts)
            for x, y in ((a2, b2), (b2, a2)):
                if rx.search(render(x)) and y[0] == "const" and not isinstance(y[1], bool) and y[1] == value:
                    return True
            return None
        return guard_edges(body, sym, bb, m)
    d = strip_deep(sym.operand(t["discr"]))
    if d[0] in ("discr",) or not rx.search(render(d)):
        return None
    out = [(bb, tb) for v, tb in t["targets"] if v == value]
    return out or None


def predicate_class(f, t):
    """Byte class of a per-byte predicate given as a closure, a crate function or one of std's u8::is_ascii_* methods."""
    if t[0] == "closure":
        return absint.byte_class(f, t[1], arg_index=1)
    if t[0] == "fnref":
        if f.body(t[1]) is not None:
            return absint.byte_class(f, t[1])
        m = re.match(r"^core::num::<impl u8>::(is_ascii\w*)$", t[1])
        if m and m.group(1) in absint.ASCII_CLASSES:
            return {x for lo, hi in absint.ASCII_CLASSES[m.group(1)] for x in range(lo, hi + 1)}, []
    return None, ["predicate not understood: " + render(t)[:120]]



def reach_tests(b, s, target):
    """Under which conditions control arrives at block `target`: the disjunction of the literals on the last branches
    before it.  Returns (tests, problems) with tests = [(boolean term, truth)].  A boolean that was first stored in a local
    (`let d = a || b; if d {…}`, or a helper inlined by a view) is followed back to the values assigned to it."""
    tests, problems = [], []
    region = {target}               # blocks from which `target` is reached without a further decision
    done = set()
    changed = True
    while changed:
        changed = False
        for x in list(region):
            for p in b.preds(x):
                if p in region or b.is_cleanup(p):
                    continue
                if b.term(p)["t"] != "switch":
                    region.add(p)
                    changed = True
                    continue
                edges = b.switch_edges(p)
                into = [v for v, tb in edges if tb in region]
                if len(into) == len(edges):
                    region.add(p)
                    changed = True
    if 0 in region:
        problems.append("reached unconditionally")
    for p in range(len(b.blocks)):
        if p in region or b.is_cleanup(p) or b.term(p)["t"] != "switch":
            continue
        edges = b.switch_edges(p)
        into = [v for v, tb in edges if tb in region]
        if not into:
            continue
        t = b.term(p)
        listed = [v for v, _ in edges if v is not None]
        if t.get("dty") != "bool" or listed != [0] or len(into) != 1:
            problems.append("bb%d: not a boolean test: %s" % (p, render(strip_deep(s.operand(t["discr"])))[:120]))
            continue
        truth = into[0] is None
        term = strip(s.operand(t["discr"]))
        if term[0] != "var":
            tests.append((term, truth))
            continue
        # a stored boolean: look at what was stored on each way here
        for db, val in s.defs_of_var(term[2]):
            cur, steps = db, 0
            while cur != p and steps < 64:
                steps += 1
                tt = b.term(cur)
                if tt["t"] == "switch" or len(b.succs(cur)) != 1:
                    cur = None
                    break
                cur = b.succs(cur)[0]
            if cur != p:
                problems.append("bb%d: stored boolean %s is not assigned right before the test" % (p, term[1]))
                continue
            v = strip_deep(val)
            if v[0] == "const" and isinstance(v[1], (bool, int)):
                if bool(v[1]) == truth:
                    sub, pr = reach_tests(b, s, db)
                    tests.extend(sub)
                    problems.extend(pr)
            else:
                tests.append((v, truth))
    return tests, problems


def _bytes_of(t):
    if t[0] == "bytes":
        return bytes(t[1])
    m = re.match(r"^b'(.*)'$", render(t))
    return m.group(1).encode() if m else None


def eq_bytes_literals(f, body, term, truth, depth=0):
    """If `term == truth` is equivalent to a disjunction of `X == <byte string>` comparisons, the set {(α-text of X,
    byte string)}; else None.  Calls of crate-local one-argument predicates are decided from their truth table."""
    from engine import orderlogic as OL
    t = strip_deep(term)
    t = K.fold_consts(t, f.consts)
    a = OL.atom(t)
    while a[0] == "not":
        a, truth = a[1], not truth
    if a[0] == "cmp" and a[1] in ("==", "!="):
        if (a[1] == "==") != truth:
            return None
        lx, ly = _bytes_of(a[2]), _bytes_of(a[3])
        if (lx is None) == (ly is None):
            return None
        return {(K.alpha(render(a[2] if lx is None else a[3]), body), ly if lx is None else lx)}
    if a[0] != "opaque" or not truth or depth > 2:
        return None
    c = t
    while c[0] == "un" and c[1] == "Not":
        c = strip_deep(c[2])
    if c[0] != "call" or len(c[2]) != 1:
        return None
    hb = f.body((c[3] or {}).get("res") or c[1])
    if hb is None or hb.arg_count != 1:
        return None
    hs = Sym(hb)
    try:
        ps = OL.paths(hb, hs)
    except OL.NotComparisonOnly:
        return None
    lits = {}

    def reg(x):
        while x[0] == "not":
            x = x[1]
        if x[0] == "cmp":
            got = eq_bytes_literals(f, hb, ("bin", "Eq", x[2], x[3]), True, depth + 1) if x[1] in ("==", "!=") else None
            if got and len(got) == 1:
                (who, lit), = got
                if who == "%1":
                    lits[OL._atom_key(x)] = lit
    for conds, ret in ps:
        for x, _ in conds:
            reg(x)
        if ret is not None:
            reg(OL.atom(ret))
    names = [("^" + re.escape(k) + "$", repr(v)) for k, v in lits.items()]
    ok, _ = OL.decide_bool(hb, hs, names, lambda env: any(env.values()))
    if not ok or not lits:
        return None
    arg = K.alpha(render(strip_deep(c[2][0])), body)
    return {(arg, v) for v in lits.values()}



_PATH_LANGS = {}


def path_check_languages(f, b):
    """{outcome: [shape]} of the first round of the rsync path check `b` (see ShapeExec.first_round_languages): outcomes are
    "Ok", "continue" and the names of the uri::Error variants answered.  None when the shape domain cannot follow it."""
    key = (id(f), b.name)
    if key in _PATH_LANGS:
        return _PATH_LANGS[key]
    vnames = [v["name"] for v in (f.adts.get("uri::Error") or {"variants": []})["variants"]]

    def label(v):
        if v[0] == "enum" and v[1] == _RES:
            if v[2] == 0:
                return "Ok"
            inner = dict(v[3]).get("0")
            if inner and inner[0] == "enum" and inner[1] == "uri::Error" and inner[2] < len(vnames):
                return vnames[inner[2]]
        raise LangFail("returns something other than Ok(()) / Err(uri::Error)")
    argi = next((i for i in range(b.arg_count) if b.local_ty(i + 1) in ("&[u8]", "&'a [u8]")), None)
    res = None
    if argi is not None:
        try:
            res = ShapeExec(f).first_round_languages(b, argi, label)
        except LangFail as e:
            res = None
    _PATH_LANGS[key] = res
    return res


def _path_spec():
    ALLB_ = frozenset(range(256))
    slash, dot = frozenset([0x2f]), frozenset([0x2e])
    seg = ALLB_ - slash
    rest = (("B", slash), ("S", ALLB_))
    nondot = [(("B", seg - dot), ("S", seg)), (("B", dot), ("B", seg - dot), ("S", seg)), (("B", dot), ("B", dot), ("B", seg), ("S", seg))]
    return {
        # decided within the first segment of the path
        "DotSegments": [(("B", dot),), (("B", dot), ("B", dot)), (("B", dot),) + rest, (("B", dot), ("B", dot)) + rest],
        "EmptySegments": [rest],
        "Ok": [()],
        "continue": nondot + [x + rest for x in nondot],
    }


def path_language_verdict(f, b):
    """(ok, detail) from the languages of the first round, or None when they cannot be computed."""
    langs = path_check_languages(f, b)
    if langs is None:
        return None
    detail = {}
    PATH_SPEC = _path_spec()
    for k in sorted(set(langs) | set(PATH_SPEC)):
        got, want = langs.get(k, []), PATH_SPEC.get(k, [])
        try:
            d = lang_diff(got, want)
        except LangFail as e:
            return None
        if d is not None:
            w, ina, inb = d
            detail[k] = "%r is %s by the code, %s by the rule" % (w, "so answered" if ina else "not so answered",
                                                                  "expected" if inb else "not expected")
    return (not detail, detail)

def check_join_dot_segments(ctx, f):
    """What Rsync::check_path (hence Rsync::join) rejects as a dot segment is exactly "." and ".." — not, say, every
    segment that starts with a dot: a manifest may legitimately list ".cer"-like names that the name check accepts."""
    b = f.body("uri::Rsync::check_path")
    builders = [bd for n, bd in f.bodies.items() if (bd.file or "").endswith("uri.rs") and
                any(st["s"] == "assign" and st["rv"]["r"] == "agg" and st["rv"].get("adt") == "uri::Error" and
                    st["rv"].get("variant") == "DotSegments" for blk in bd.blocks for st in blk["stmts"])]
    if len(builders) == 1:
        b = builders[0]                   # whatever it is called: the one place that answers DotSegments
    if b is None:
        return ctx.missing("R-CLS", "Rsync::check_path", "uri::Rsync::check_path")
    ctx.saw_fn(b.name)
    s = K.sym_of(b)
    target = None
    for bi, blk in enumerate(b.blocks):
        for st in blk["stmts"]:
            if st["s"] == "assign" and st["pl"]["l"] == 0 and "DotSegments" in render(strip_deep(s.rvalue(st["rv"]))):
                target = bi
    shown, lits, problems = [], set(), []
    if target is not None:
        tests, problems = reach_tests(b, s, target)
        for term, truth in tests:
            shown.append("%s%s" % ("" if truth else "!", K.alpha(render(strip_deep(term)), b)))
            got = eq_bytes_literals(f, b, term, truth)
            if got is None:
                problems.append("not a comparison with a constant segment: " + shown[-1][:160])
            else:
                lits |= got
    who = {w for w, _ in lits}
    ok = target is not None and not problems and len(who) == 1 and {v for _, v in lits} == {b".", b".."}
    # the same fact decided on languages: for which paths does the first round of the check answer what — exact for any
    # spelling of the segment tests (comparisons, slice patterns, `matches!`, helpers); it overrides the reading of tests
    lv = path_language_verdict(f, b)
    if lv is not None:
        ok = lv[0]
        if not ok:
            problems = problems + ["%s: %s" % kv for kv in sorted(lv[1].items())]
    ctx.ob("R-CLS", "Rsync::check_path:dot-segments-are-exactly-.-and-..", ok,
           'Rsync::check_path answers DotSegments exactly for a segment equal to "." or ".."', where=b.loc,
           detail={"tests": sorted(shown), "problems": problems,
                   "literals": sorted("%s == %r" % (w, v) for w, v in lits)})


def check_join_failure_kinds(ctx, f):
    """`ManifestContent::iter_uris` unwraps `base.join(name)`.  What `join` can object to in a single segment has to be
    something the manifest's name check already excludes: the function that answers DotSegments (Rsync::check_path,
    whatever it is called) answers with nothing but DotSegments and EmptySegments, and it answers EmptySegments only after
    an emptiness test of a segment — a new kind of refusal there (say, a length limit the name check does not know) is a
    new way for a decoded manifest to panic."""
    builders = [bd for n, bd in f.bodies.items() if (bd.file or "").endswith("uri.rs") and not is_derived(bd) and
                any(st["s"] == "assign" and st["rv"]["r"] == "agg" and st["rv"].get("adt") == "uri::Error" and
                    st["rv"].get("variant") == "DotSegments" for blk in bd.blocks for st in blk["stmts"])]
    b = builders[0] if len(builders) == 1 else f.body("uri::Rsync::check_path")
    if b is None:
        return ctx.missing("R-CLS", "Rsync::check_path:failure-kinds", "uri::Rsync::check_path")
    s = K.sym_of(b)
    kinds = {}
    for bi, blk in enumerate(b.blocks):
        if blk.get("cleanup"):
            continue
        for st in blk["stmts"]:
            if st["s"] == "assign" and st["rv"]["r"] == "agg" and st["rv"].get("adt") == "uri::Error":
                kinds.setdefault(st["rv"].get("variant"), []).append(bi)
    # errors produced by callees (`?` on another check) count as kinds of their own
    oc = outcome(b)
    for c in b.calls():
        if not b.is_cleanup(c.bb) and c.is_static and (c.res or "").startswith("uri::") and c.res in f.bodies and \
                re.search(r"Result<.*uri::Error>", (f.fns.get(c.res) or {}).get("output") or ""):
            kinds.setdefault("via " + short(c.res), []).append(c.bb)
    extra = sorted(k for k in kinds if k not in ("DotSegments", "EmptySegments"))
    probs = []
    for bi in kinds.get("EmptySegments", []):
        tests, problems = reach_tests(b, s, bi)
        for term, truth in tests:
            r = render(strip_deep(term))
            if not re.search(r"is_empty\(|is_some\(|is_none\(|Iterator::next\(", r):
                probs.append("EmptySegments is answered under a test that is not an emptiness test: %s" % K.alpha(r, b)[:140])
        probs += problems
    # … and Rsync::join itself refuses only through its two checks (characters, segments)
    jb = f.body("uri::Rsync::join")
    if jb is None:
        ctx.missing("R-CLS", "Rsync::join:failure-kinds", "uri::Rsync::join")
    else:
        ctx.saw_fn(jb.name)
        own = sorted({st["rv"].get("variant") for blk in jb.blocks if not blk.get("cleanup") for st in blk["stmts"]
                      if st["s"] == "assign" and st["rv"]["r"] == "agg" and st["rv"].get("adt") == "uri::Error"})
        via = sorted({short(c.res) for c in jb.calls() if not jb.is_cleanup(c.bb) and c.is_static and c.res in f.bodies and
                      re.search(r"Result<.*uri::Error>", (f.fns.get(root_fn(f, c.res)) or {}).get("output") or "")})
        chk = [c for c in jb.calls() if not jb.is_cleanup(c.bb) and c.res == b.name]
        ascii_ = [v for v in via if v != short(b.name)]
        ctx.ob("R-CLS", "Rsync::join:failure-kinds", not own and bool(chk) and len(ascii_) <= 1,
               "Rsync::join refuses a path only through the character check and %s" % short(b.name), where=jb.loc,
               detail={"own_refusals": own, "refusing_callees": via})
    lv = path_language_verdict(f, b)
    okk = not extra and not probs and "DotSegments" in kinds
    if lv is not None and not extra:
        # languages of the first round: EmptySegments exactly for an empty segment that is not the last, nothing else refused
        okk = lv[0]
        probs = ["%s: %s" % kv for kv in sorted(lv[1].items())]
    ctx.ob("R-CLS", "Rsync::check_path:failure-kinds", okk,
           "%s refuses a path only for dot segments and empty segments" % short(b.name), where=b.loc,
           detail={"kinds": {k: len(v) for k, v in kinds.items()}, "unreviewed_kinds": extra, "problems": probs})


# ======================================================================================================================
# The accepted language of a byte-string recogniser, by symbolic execution of its MIR over *string shapes*.
#
# A shape describes the unknown input as a concatenation of cells, each either one byte drawn from a class ("B", C) or
# any number of bytes drawn from a class ("S", C); marks are the boundaries between cells.  Values of the program are
# read in terms of marks: a sub-slice / slice iterator is a pair of marks, a position is a linear form over marks, a byte
# read from the input is the cell behind a mark.  Every test the program makes on the input — a comparison of a byte with
# a constant, a byte predicate, `len() == k`, `is_empty`, `split_first`, `next`, `position`/`find`/`all`/`any`, `split`,
# `starts_with` … — refines the shape exactly (forking into the alternatives), so a state that reaches a success return
# carries the exact set of inputs that take this path.  A cursor loop is summarised by its inductive invariant "the bytes
# consumed so far are each from C" (C grown until stable).  The union of the shapes of the success returns is the accepted
# language; it is compared with a specification as regular languages (determinised over the byte partition).  Nothing is
# executed: what is interpreted is the MIR, over all inputs at once.  Anything outside this vocabulary fails closed.
# ======================================================================================================================

class LangFail(Exception):
    """The recogniser uses a construct the shape domain has no exact transfer function for."""


ALLB = frozenset(range(256))
_OPT, _RES, _CF = "std::option::Option", "std::result::Result", "std::ops::ControlFlow"
_TRANSPARENT = {"iter", "into_iter", "by_ref", "copied", "cloned", "as_ref", "deref", "clone", "borrow", "as_bytes",
                "into", "from", "as_deref", "as_slice", "as_mut", "to_owned", "as_mut_slice"}


def _some(v):
    return ("enum", _OPT, 1, (("0", v),))


_NONE = ("enum", _OPT, 0, ())


def _lin(terms, c=0):
    d = {}
    for m, k in terms:
        d[m] = d.get(m, 0) + k
    ts = tuple(sorted((m, k) for m, k in d.items() if k))
    return ("lin", ts, c) if ts else ("int", c)


def _lin_add(a, b, sign=1):
    ta, ca = (a[1], a[2]) if a[0] == "lin" else ((), a[1])
    tb, cb = (b[1], b[2]) if b[0] == "lin" else ((), b[1])
    return _lin(list(ta) + [(m, sign * k) for m, k in tb], ca + sign * cb)


class _St:
    __slots__ = ("marks", "cells", "frames", "loops")

    def __init__(self, marks, cells, frames=None, loops=None):
        self.marks, self.cells, self.frames, self.loops = marks, cells, frames or {}, loops or {}

    def copy(self):
        return _St(list(self.marks), list(self.cells), {k: dict(v) for k, v in self.frames.items()}, dict(self.loops))

    def idx(self, m):
        try:
            return self.marks.index(m)
        except ValueError:
            raise LangFail("a value refers to a position of another string")

    def shape(self):
        return tuple(self.cells)


def _vmap(v, fn):
    """The value with every mark replaced by fn(mark)."""
    k = v[0]
    if k == "byte":
        return ("byte", fn(v[1]))
    if k == "slice":
        return ("slice", fn(v[1]), fn(v[2]))
    if k == "iter":
        return ("iter", fn(v[1]), fn(v[2]), v[3])
    if k == "split":
        return ("split", fn(v[1]), fn(v[2])) + v[3:]
    if k == "lin":
        return _lin([(fn(m), c) for m, c in v[1]], v[2])
    if k == "enum":
        return ("enum", v[1], v[2], tuple((n, _vmap(x, fn)) for n, x in v[3]))
    if k == "tuple":
        return ("tuple", tuple(_vmap(x, fn) for x in v[1]))
    if k == "closure":
        return ("closure", v[1], tuple(_vmap(x, fn) for x in v[2]))
    return v


class ShapeExec:
    def __init__(self, facts, max_steps=400000):
        self.f = facts
        self.n = 0
        self.steps = 0
        self.max_steps = max_steps
        self._heads = {}
        self._pcls = {}
        self.first_round = None
        self.first_round_frame = None

    def fresh(self):
        self.n += 1
        return self.n

    # ---- the language of a function of one byte-slice argument -------------------------------------------------------
    def language(self, body, arg_index=0):
        s, e = self.fresh(), self.fresh()
        st = _St([s, e], [("S", ALLB)])
        args = [("opaque", "arg")] * body.arg_count
        args[arg_index] = ("slice", s, e)
        shapes = []
        for st2, v in self.exec_body(body, st, args, 0):
            if self.is_success(v) and all(c or k == "S" for k, c in st2.cells):
                shapes.append(st2.shape())
        return shapes

    def first_round_languages(self, body, arg_index=0, label=None):
        """{label: [shape]} of the inputs for which the function returns during the first round of its loop(s) — `label(v)`
        names the returned value — plus "continue" for the inputs with which a loop head is reached a second time (every
        later round runs the same code on the rest of the input)."""
        s, e = self.fresh(), self.fresh()
        st = _St([s, e], [("S", ALLB)])
        args = [("opaque", "arg")] * body.arg_count
        args[arg_index] = ("slice", s, e)
        self.first_round = []
        self.first_round_frame = self.n + 1         # the frame id exec_body is about to draw
        out = {}
        try:
            for st2, v in self.exec_body(body, st, args, 0):
                if all(c or k == "S" for k, c in st2.cells):
                    out.setdefault(label(v) if label else repr(v[:3]), []).append(st2.shape())
            for st2 in self.first_round:
                if all(c or k == "S" for k, c in st2.cells):
                    out.setdefault("continue", []).append(st2.shape())
        finally:
            self.first_round = None
        return out

    @staticmethod
    def is_success(v):
        if v is None:
            raise LangFail("no return value")
        if v[0] == "enum" and v[1] == _RES:
            return v[2] == 0
        if v[0] == "enum" and v[1] == _OPT:
            return v[2] == 1
        if v[0] == "int" and v[1] in (0, 1):
            return v[1] == 1
        raise LangFail("return value not understood: %r" % (v[:2],))

    # ---- shape primitives ------------------------------------------------------------------------------------------------
    def pop(self, st, a, b, right=False):
        """The first (last) byte of [a,b): [(state, None)] if the region is empty, [(state, (byte mark, mark of the rest's
        boundary))] otherwise — exact case split."""
        out = []
        cur = st.copy()
        i, ib = cur.idx(a), cur.idx(b)
        if i > ib:
            raise LangFail("inverted region")
        js = range(ib - 1, i - 1, -1) if right else range(i, ib)
        for j in js:
            kind, cls = cur.cells[j]
            if kind == "B":
                if cls:
                    out.append((cur, (cur.marks[j], cur.marks[j] if right else cur.marks[j + 1])))
                return out
            if cls:
                s2 = cur.copy()
                m = self.fresh()
                s2.cells[j:j + 1] = [("S", cls), ("B", cls)] if right else [("B", cls), ("S", cls)]
                s2.marks.insert(j + 1, m)
                out.append((s2, (m, m) if right else (s2.marks[j], m)))
            cur.cells[j] = ("S", frozenset())
        out.append((cur, None))
        return out

    def first(self, st, a, b, p, right=False):
        """The first (last) byte of [a,b) that lies in class p: [(state, byte mark or None)] — exact case split."""
        out = []
        cur = st.copy()
        i, ib = cur.idx(a), cur.idx(b)
        if i > ib:
            raise LangFail("inverted region")
        js = range(ib - 1, i - 1, -1) if right else range(i, ib)
        for j in js:
            kind, cls = cur.cells[j]
            hit, miss = cls & p, cls - p
            if kind == "B":
                if hit:
                    s2 = cur.copy()
                    s2.cells[j] = ("B", hit)
                    out.append((s2, s2.marks[j]))
                if not miss:
                    return out
                cur.cells[j] = ("B", miss)
            else:
                if hit:
                    s2 = cur.copy()
                    m1, m2 = self.fresh(), self.fresh()
                    s2.cells[j:j + 1] = [("S", cls), ("B", hit), ("S", miss)] if right else [("S", miss), ("B", hit), ("S", cls)]
                    s2.marks[j + 1:j + 1] = [m1, m2]
                    out.append((s2, m1))
                cur.cells[j] = ("S", miss)
        out.append((cur, None))
        return out

    def after(self, st, m):
        return st.marks[st.idx(m) + 1]

    def walk(self, st, m, off):
        """[(state, mark)] of the position `off` bytes to the right (left if negative) of m; positions outside the string
        do not exist (the program panics or answers None there: never a success of the caller's slicing)."""
        cur = [(st, m)]
        for _ in range(abs(off)):
            nxt = []
            for s, mm in cur:
                for s2, r in (self.pop(s, mm, s.marks[-1]) if off > 0 else self.pop(s, s.marks[0], mm, right=True)):
                    if r is not None:
                        nxt.append((s2, r[1] if off > 0 else r[0]))
            cur = nxt
        return cur

    def resolve(self, st, a, v):
        """[(state, mark)]: the position a + v."""
        v = _lin_add(v, _lin([(a, 1)]))
        if v[0] == "int":
            return self.walk(st, st.marks[0], v[1])
        ts = [(m, k) for m, k in v[1] if m != st.marks[0]]
        if not ts:
            return self.walk(st, st.marks[0], v[2])
        if len(ts) == 1 and ts[0][1] == 1:
            return self.walk(st, ts[0][0], v[2])
        raise LangFail("position is not an offset from a known boundary")

    def cmp0(self, st, d, rel):
        """[(state, bool)]: d `rel` 0 for a linear form d over positions — exact case split on the one run it depends on."""
        fn = {"Eq": lambda x: x == 0, "Ne": lambda x: x != 0, "Lt": lambda x: x < 0, "Le": lambda x: x <= 0,
              "Gt": lambda x: x > 0, "Ge": lambda x: x >= 0}[rel]
        if d[0] == "int":
            return [(st, fn(d[1]))]
        c, w = d[2], {}
        for m, k in d[1]:
            for j in range(st.idx(m)):
                kind, cls = st.cells[j]
                if kind == "B":
                    c += k
                elif cls:
                    w[j] = w.get(j, 0) + k
        w = {j: k for j, k in w.items() if k}
        if not w:
            return [(st, fn(c))]
        if len(w) != 1:
            raise LangFail("a length comparison depends on several runs")
        (j, k), = w.items()
        t = abs(c) // abs(k) + 1
        if t > 24:
            raise LangFail("length threshold too large")
        out = []
        cls = st.cells[j][1]
        for s in range(t + 2):
            s2 = st.copy()
            new = [("B", cls)] * s + ([("S", cls)] if s == t + 1 else [])
            if not new:
                new = [("S", frozenset())]
            s2.cells[j:j + 1] = new
            s2.marks[j + 1:j + 1] = [self.fresh() for _ in range(len(new) - 1)]
            out.append((s2, fn(c + k * s)))
        return out

    def fork_class(self, st, m, cls):
        """[(state, bool)]: is the byte behind mark m in cls?"""
        out = []
        j = st.idx(m)
        kind, c = st.cells[j]
        if kind != "B":
            raise LangFail("not a byte position")
        for truth, part in ((True, c & cls), (False, c - cls)):
            if part:
                s2 = st.copy()
                s2.cells[j] = ("B", part)
                out.append((s2, truth))
        return out

    # ---- values ------------------------------------------------------------------------------------------------------
    def deref(self, st, v):
        n = 0
        while v[0] == "ref" and n < 8:
            v = self.read_local(st, v[1], v[2])
            n += 1
        return v

    def read_local(self, st, fid, l):
        try:
            return st.frames[fid][l]
        except KeyError:
            raise LangFail("read of a local that has no value on this path")

    def setref(self, st, r, v):
        n = 0
        while r[0] == "ref" and n < 8:
            inner = st.frames[r[1]].get(r[2])
            if inner is not None and inner[0] == "ref":
                r = inner
                n += 1
                continue
            st.frames[r[1]][r[2]] = v
            return
        # the iterator was passed by value: nothing outside sees it advance

    def project(self, st, v, p):
        k = p[0]
        if k == "d":
            return self.read_local(st, v[1], v[2]) if v[0] == "ref" else v
        v = self.deref(st, v)
        if k == "f":
            name = str(p[1])
            if v[0] == "tuple":
                return v[1][int(name)]
            if v[0] == "enum":
                for n, x in v[3]:
                    if n == name:
                        return x
                if name.isdigit() and int(name) < len(v[3]):
                    return v[3][int(name)][1]
            if v[0] == "closure" and name.isdigit() and int(name) < len(v[2]):
                return v[2][int(name)]
            if v[0] == "opaque":
                return v
            raise LangFail("field %s of %s" % (name, v[0]))
        if k == "dc":
            if v[0] == "enum" and v[2] == p[2]:
                return v
            if v[0] == "opaque":
                return v
            raise LangFail("downcast of a value of another variant")
        raise LangFail("projection " + k)

    def place(self, st, fid, pl):
        """[(state, value)] — only element projections fork."""
        cur = [(st, self.read_local(st, fid, pl["l"]))]
        for p in pl["p"]:
            nxt = []
            for s, v in cur:
                if p[0] in ("i", "ci", "ss"):
                    base = self.deref(s, v)
                    if base[0] != "slice":
                        raise LangFail("element of something that is not the input")
                    if p[0] == "i":
                        for s2, m in self.resolve(s, base[1], self.as_num(s, self.read_local(s, fid, p[1]))):
                            if s2.idx(m) < s2.idx(base[2]):
                                for s3, r in self.pop(s2, m, base[2]):
                                    if r is not None:
                                        nxt.append((s3, ("byte", r[0])))
                    elif p[0] == "ci":
                        from_end = bool(p[3]) if len(p) > 3 else False
                        for s2, m in self.walk(s, base[2] if from_end else base[1], -p[1] if from_end else p[1]):
                            if s2.idx(base[1]) <= s2.idx(m) < s2.idx(base[2]):
                                for s3, r in self.pop(s2, m, base[2]):
                                    if r is not None:
                                        nxt.append((s3, ("byte", r[0])))
                    else:
                        from_end = bool(p[3])
                        for s2, lo in self.walk(s, base[1], p[1]):
                            for s3, hi in (self.walk(s2, base[2], -p[2]) if from_end else self.walk(s2, base[1], p[2])):
                                if s3.idx(lo) <= s3.idx(hi) <= s3.idx(base[2]):
                                    nxt.append((s3, ("slice", lo, hi)))
                else:
                    nxt.append((s, self.project(s, v, p)))
            cur = nxt
        return cur

    def as_num(self, st, v):
        v = self.deref(st, v)
        if v[0] in ("int", "lin"):
            return v
        raise LangFail("number expected, got " + v[0])

    def const(self, st, k, body, depth):
        if "fn" in k:
            return ("fn", k.get("res") or k["fn"], k.get("name"))
        if "v" in k:
            return ("int", int(k["v"]))
        if k.get("bytes") is not None:
            return ("bytes", bytes(k["bytes"]))
        if "promoted" in k:
            pb = body.promoted
            if k["promoted"] < len(pb):
                res = self.exec_body(pb[k["promoted"]], st, [], depth + 1)
                if len(res) == 1:
                    return res[0][1]
            raise LangFail("promoted constant")
        if "cdef" in k:
            c = self.f.consts.get(k["cdef"]) or {}
            if isinstance(c.get("v"), int):
                return ("int", int(c["v"]))
            if c.get("bytes") is not None:
                return ("bytes", bytes(c["bytes"]))
            return ("opaque", "const " + k["cdef"])
        if k.get("ty") == "()":
            return ("tuple", ())
        return ("opaque", "const")

    def operand(self, st, fid, op, body, depth):
        if "k" in op:
            return [(st, self.const(st, op["k"], body, depth))]
        return self.place(st, fid, op.get("c") or op.get("m"))

    def operands(self, st, fid, ops, body, depth):
        cur = [(st, [])]
        for op in ops:
            nxt = []
            for s, vs in cur:
                for s2, v in self.operand(s, fid, op, body, depth):
                    nxt.append((s2, vs + [v]))
            cur = nxt
        return cur

    def binop(self, st, op, a, b):
        a, b = self.deref(st, a), self.deref(st, b)
        ovf = op.endswith("WithOverflow")
        base = op[:-len("WithOverflow")] if ovf else op
        base = base[:-len("Unchecked")] if base.endswith("Unchecked") else base
        if base in ("Eq", "Ne", "Lt", "Le", "Gt", "Ge"):
            flip = {"Lt": "Gt", "Le": "Ge", "Gt": "Lt", "Ge": "Le", "Eq": "Eq", "Ne": "Ne"}
            if b[0] == "byte" and a[0] == "int":
                a, b, base = b, a, flip[base]
            if a[0] == "byte" and b[0] == "int":
                n = b[1]
                cls = frozenset(v for v in range(256) if {"Eq": v == n, "Ne": v != n, "Lt": v < n, "Le": v <= n,
                                                             "Gt": v > n, "Ge": v >= n}[base])
                return [(s, ("int", int(t))) for s, t in self.fork_class(st, a[1], cls)]
            if a[0] in ("int", "lin") and b[0] in ("int", "lin"):
                return [(s, ("int", int(t))) for s, t in self.cmp0(st, _lin_add(a, b, -1), base)]
            if a[0] == "byte" and b[0] == "byte" and a[1] == b[1]:
                return [(st, ("int", int(base in ("Eq", "Le", "Ge"))))]
            for x, y in ((a, b), (b, a)):
                if x[0] == "slice" and y[0] == "bytes" and base in ("Eq", "Ne"):
                    return [(s, ("int", int(t == (base == "Eq")))) for s, t in self.eq_bytes(st, x, y[1])]
            raise LangFail("comparison of %s with %s" % (a[0], b[0]))
        if a[0] == "int" and b[0] == "int":
            x, y = a[1], b[1]
            fn = {"Add": lambda: x + y, "Sub": lambda: x - y, "Mul": lambda: x * y, "BitAnd": lambda: x & y,
                  "BitOr": lambda: x | y, "BitXor": lambda: x ^ y, "Shl": lambda: x << y, "Shr": lambda: x >> y,
                  "Div": lambda: x // y if y else 0, "Rem": lambda: x % y if y else 0}.get(base)
            if fn is None:
                raise LangFail("operator " + op)
            r = fn()
            if r < 0:
                return []                       # unsigned underflow: the program panics here
            return [(st, ("tuple", (("int", r), ("int", 0))) if ovf else ("int", r))]
        if base in ("Add", "Sub") and a[0] in ("int", "lin") and b[0] in ("int", "lin"):
            r = _lin_add(a, b, 1 if base == "Add" else -1)
            return [(st, ("tuple", (r, ("int", 0))) if ovf else r)]
        raise LangFail("operator %s on %s, %s" % (op, a[0], b[0]))

    def eq_bytes(self, st, sl, lit, prefix=False, right=False):
        """[(state, bool, mark after the matched part)]-like: does the slice equal (start with / end with) the literal?"""
        out = []
        cur = [(st, sl[2] if right else sl[1])]
        seq = list(reversed(lit)) if right else list(lit)
        for ch in seq:
            nxt = []
            for s, m in cur:
                for s2, r in (self.pop(s, sl[1], m, right=True) if right else self.pop(s, m, sl[2])):
                    if r is None:
                        out.append((s2, False))
                        continue
                    for s3, t in self.fork_class(s2, r[0], frozenset([ch])):
                        if t:
                            nxt.append((s3, r[1]))
                        else:
                            out.append((s3, False))
            cur = nxt
        for s, m in cur:
            if prefix:
                out.append((s, True, m))
            else:
                for s2, r in (self.pop(s, sl[1], m, right=True) if right else self.pop(s, m, sl[2])):
                    out.append((s2, r is None))
        return out

    # ---- statements ------------------------------------------------------------------------------------------------------
    def rvalue(self, st, fid, rv, body, depth):
        r = rv["r"]
        if r == "use":
            return self.operand(st, fid, rv["op"], body, depth)
        if r in ("ref", "rawptr"):
            pl = rv["pl"]
            if rv.get("mut") or rv.get("kind") == "Mut":
                if not pl["p"]:
                    return [(st, ("ref", fid, pl["l"]))]
                if len(pl["p"]) == 1 and pl["p"][0][0] == "d":
                    v = self.read_local(st, fid, pl["l"])
                    if v[0] == "ref":
                        return [(st, v)]
            return self.place(st, fid, pl)
        if r == "cast":
            return self.operand(st, fid, rv["op"], body, depth)
        if r == "bin":
            out = []
            for s, (a, b) in self.operands(st, fid, [rv["a"], rv["b"]], body, depth):
                out.extend(self.binop(s, rv["bop"], a, b))
            return out
        if r == "un":
            out = []
            for s, v in self.operand(st, fid, rv["a"], body, depth):
                v = self.deref(s, v)
                if rv["uop"] == "PtrMetadata":
                    if v[0] == "slice":
                        out.append((s, _lin([(v[2], 1), (v[1], -1)])))
                    elif v[0] == "bytes":
                        out.append((s, ("int", len(v[1]))))
                    else:
                        raise LangFail("length of " + v[0])
                elif rv["uop"] == "Not" and v[0] == "int" and v[1] in (0, 1) and rv.get("oty") == "bool":
                    out.append((s, ("int", 1 - v[1])))
                else:
                    raise LangFail("unary " + rv["uop"])
            return out
        if r == "discr":
            out = []
            for s, v in self.place(st, fid, rv["pl"]):
                v = self.deref(s, v)
                if v[0] != "enum":
                    raise LangFail("discriminant of " + v[0])
                out.append((s, ("int", v[2])))
            return out
        if r == "agg":
            out = []
            for s, vs in self.operands(st, fid, rv["ops"], body, depth):
                ak = rv["ak"]
                if ak == "adt":
                    fs = rv["fields"] if len(rv.get("fields", ())) == len(vs) else [str(i) for i in range(len(vs))]
                    out.append((s, ("enum", rv["adt"], rv.get("vidx", 0), tuple(zip(fs, vs)))))
                elif ak == "closure":
                    out.append((s, ("closure", rv["def"], tuple(vs))))
                elif ak == "tuple":
                    out.append((s, ("tuple", tuple(vs))))
                elif ak == "array" and all(v[0] == "int" for v in vs):
                    out.append((s, ("bytes", bytes(v[1] & 255 for v in vs))))
                else:
                    raise LangFail("aggregate " + ak)
            return out
        raise LangFail("rvalue " + r)

    def assign(self, st, fid, pl, v):
        if not pl["p"]:
            st.frames[fid][pl["l"]] = v
            return
        cur = st.frames[fid].get(pl["l"])
        if len(pl["p"]) == 1 and pl["p"][0][0] == "d" and cur is not None and cur[0] == "ref":
            self.setref(st, cur, v)
            return
        if len(pl["p"]) == 1 and pl["p"][0][0] == "f" and cur is not None and cur[0] == "tuple":
            i = int(pl["p"][0][1])
            st.frames[fid][pl["l"]] = ("tuple", cur[1][:i] + (v,) + cur[1][i + 1:])
            return
        raise LangFail("assignment through a projection")

    # ---- control ---------------------------------------------------------------------------------------------------------
    def loop_heads(self, body):
        if body.name not in self._heads:
            hs = set()
            for comp in body.cycles_sccs():
                cs = set(comp)
                for b in comp:
                    if b == 0 or any(p not in cs for p in body.preds(b) if not body.is_cleanup(p)):
                        hs.add(b)
            self._heads[body.name] = hs
        return self._heads[body.name]

    def _snap(self, st, locs, drop=None):
        """Cells and the listed locals with marks written as cell indices; `drop`: the cell (and the boundary in front of
        it) left out."""
        def fn(m):
            i = st.idx(m)
            return i - 1 if drop is not None and i > drop else i
        cells = tuple(c for j, c in enumerate(st.cells) if j != drop)
        env = {(fid, l): _vmap(st.frames[fid][l], fn) for fid, l in locs if fid in st.frames and l in st.frames[fid]}
        return cells, env

    def at_head(self, st, fid, bb):
        key = (fid, bb)
        info = st.loops.get(key)
        if info is None:
            locs = [(fi, l) for fi, fr in st.frames.items() for l in fr]
            st.loops[key] = ("probe", locs, self._snap(st, locs), None)
            return st
        if self.first_round is not None and fid == self.first_round_frame:
            # only the first round of the outermost loops is wanted: arriving at a head again is an outcome of its own
            self.first_round.append(st)
            return None
        stage, locs, snap, runmark = info
        if self._snap(st, locs) == snap:
            return None                                   # nothing consumed: no new inputs reach the head this way
        for j, (kind, cls) in enumerate(st.cells):
            if kind != "B" or self._snap(st, locs, drop=j) != snap:
                continue
            if stage == "probe":
                w = st.copy()
                w.cells[j] = ("S", cls)
                w.loops[key] = ("wide", locs, self._snap(w, locs), w.marks[j + 1])
                return w
            if st.marks[j] != runmark or st.cells[j - 1][0] != "S":
                continue
            if cls <= st.cells[j - 1][1]:
                return None                               # covered by the invariant
            w = st.copy()
            w.cells[j - 1] = ("S", st.cells[j - 1][1] | cls)
            old, new = w.marks[j], w.marks[j + 1]
            del w.cells[j]
            del w.marks[j]
            for fr in w.frames.values():
                for l in list(fr):
                    fr[l] = _vmap(fr[l], lambda m: new if m == old else m)
            w.loops[key] = ("wide", locs, self._snap(w, locs), new)
            return w
        raise LangFail("loop at bb%d: one iteration is not 'consume one byte of a class' (no invariant found)" % bb)

    def exec_body(self, body, st, args, depth):
        if depth > 10:
            raise LangFail("call depth")
        fid = self.fresh()
        st = st.copy()
        st.frames[fid] = {i + 1: v for i, v in enumerate(args)}
        heads = self.loop_heads(body)
        work = [(st, 0, 0)]
        results = []
        while work:
            st, bb, si = work.pop()
            self.steps += 1
            if self.steps > self.max_steps:
                raise LangFail("too many steps")
            if si == 0 and bb in heads:
                st = self.at_head(st, fid, bb)
                if st is None:
                    continue
            blk = body.blocks[bb]
            stmts = blk["stmts"]
            forked = False
            while si < len(stmts):
                s_ = stmts[si]
                si += 1
                if s_["s"] != "assign":
                    if s_["s"] == "setdiscr":
                        raise LangFail("set discriminant")
                    continue
                outs = self.rvalue(st, fid, s_["rv"], body, depth)
                if len(outs) == 1 and outs[0][0] is st:
                    self.assign(st, fid, s_["pl"], outs[0][1])
                    continue
                for s2, v in outs:
                    self.assign(s2, fid, s_["pl"], v)
                    work.append((s2, bb, si))
                forked = True
                break
            if forked:
                continue
            t = blk["term"]
            k = t["t"]
            if k in ("goto", "drop", "assert"):
                work.append((st, t["target"], 0))
            elif k == "return":
                v = st.frames[fid].get(0)
                del st.frames[fid]
                results.append((st, v))
            elif k == "switch":
                for s2, d in self.operand(st, fid, t["discr"], body, depth):
                    d = self.deref(s2, d)
                    if d[0] == "int":
                        tg = [tb for val, tb in t["targets"] if val == d[1]]
                        work.append((s2, tg[0] if tg else t["otherwise"], 0))
                    elif d[0] == "byte":
                        listed = set()
                        for val, tb in t["targets"]:
                            listed.add(val)
                            for s3, tr in self.fork_class(s2, d[1], frozenset([val])):
                                if tr:
                                    work.append((s3, tb, 0))
                        for s3, tr in self.fork_class(s2, d[1], frozenset(listed)):
                            if not tr:
                                work.append((s3, t["otherwise"], 0))
                    elif d[0] == "lin":
                        rest = [s2]
                        for val, tb in t["targets"]:
                            nxt_ = []
                            for s3 in rest:
                                for s4, tr in self.cmp0(s3, _lin_add(d, ("int", val), -1), "Eq"):
                                    if tr:
                                        work.append((s4, tb, 0))
                                    else:
                                        nxt_.append(s4)
                            rest = nxt_
                        for s3 in rest:
                            work.append((s3, t["otherwise"], 0))
                    else:
                        raise LangFail("branch on " + d[0])
            elif k == "call":
                for s2, v in self.call(st, fid, body, t, depth):
                    if t["target"] is not None:
                        self.assign(s2, fid, t["dest"], v)
                        work.append((s2, t["target"], 0))
            elif k in ("unreachable", "resume"):
                pass
            else:
                raise LangFail("terminator " + k)
        return results

    # ---- calls -----------------------------------------------------------------------------------------------------------
    def call(self, st, fid, body, t, depth):
        fk = t["func"].get("k") if isinstance(t["func"], dict) else None
        out = []
        for s, args in self.operands(st, fid, t["args"], body, depth):
            if not fk or "fn" not in fk:
                fv = self.operand(s, fid, t["func"], body, depth)
                if len(fv) != 1:
                    raise LangFail("indirect call")
                out.extend(self.apply(fv[0][0], fv[0][1], args, depth))
            else:
                out.extend(self.invoke(s, fk.get("res") or fk["fn"], fk.get("name"), args, depth))
        return out

    def apply(self, st, fv, args, depth):
        fv = self.deref(st, fv)
        if fv[0] == "closure":
            cb = self.f.body(fv[1])
            if cb is None:
                raise LangFail("closure body not found")
            return self.exec_body(cb, st, [fv] + list(args), depth + 1)
        if fv[0] == "fn":
            return self.invoke(st, fv[1], fv[2], list(args), depth)
        raise LangFail("call of " + fv[0])

    def invoke(self, st, res, name, args, depth):
        cb = self.f.body(res)
        if cb is not None:
            return self.exec_body(cb, st, args, depth + 1)
        if name in ("call", "call_mut", "call_once") and len(args) == 2 and self.deref(st, args[1])[0] == "tuple":
            return self.apply(st, args[0], list(self.deref(st, args[1])[1]), depth)
        return self.summary(st, res, name, args, depth)

    def pred_class(self, st, fv, depth):
        """The set of bytes a per-byte predicate (closure, crate function, std u8 method) answers true for."""
        fv = self.deref(st, fv)
        key = repr(fv)
        if key not in self._pcls:
            m0, m1 = self.fresh(), self.fresh()
            s0 = _St([m0, m1], [("B", ALLB)], {k: dict(v) for k, v in st.frames.items()})
            acc, rej = set(), set()
            for s, v in self.apply(s0, fv, [("byte", m0)], depth + 1):
                v = self.deref(s, v)
                if v[0] != "int" or v[1] not in (0, 1):
                    raise LangFail("predicate does not answer a boolean")
                (acc if v[1] else rej).update(s.cells[s.idx(m0)][1])
            if acc & rej or (acc | rej) != ALLB:
                raise LangFail("predicate is not a function of the byte alone")
            self._pcls[key] = frozenset(acc)
        return self._pcls[key]

    def summary(self, st, res, name, args, depth):
        a0 = self.deref(st, args[0]) if args else None
        k0 = a0[0] if a0 else None
        one = lambda v: [(st, v)]
        boolv = lambda pairs: [(s, ("int", int(t))) for s, t in pairs]
        # ---- u8 / char predicates, ranges
        m = re.match(r"^is_ascii\w*$", name or "")
        if m and k0 == "byte" and name in absint.ASCII_CLASSES:
            cls = frozenset(x for lo, hi in absint.ASCII_CLASSES[name] for x in range(lo, hi + 1))
            return boolv(self.fork_class(st, a0[1], cls))
        if name in ("eq", "ne", "lt", "le", "gt", "ge") and len(args) == 2:
            return self.binop(st, name.capitalize(), args[0], args[1])
        if name == "new" and "RangeInclusive" in res and len(args) == 2:
            return one(("enum", "std::ops::RangeInclusive", 0, (("start", args[0]), ("end", args[1]))))
        if name == "contains" and k0 == "enum" and "Range" in a0[1] and len(args) == 2:
            x = self.deref(st, args[1])
            flds = dict(a0[3])
            lo, hi = flds.get("start"), flds.get("end")
            if x[0] == "byte" and lo and hi and lo[0] == "int" and hi[0] == "int":
                top = hi[1] if "Inclusive" in a0[1] else hi[1] - 1
                return boolv(self.fork_class(st, x[1], frozenset(range(lo[1], top + 1))))
            raise LangFail("range test")
        if name == "contains" and k0 == "slice" and len(args) == 2:
            x = self.deref(st, args[1])
            if x[0] == "int":
                return boolv((s, mk is not None) for s, mk in self.first(st, a0[1], a0[2], frozenset([x[1]])))
            if x[0] == "byte":
                raise LangFail("contains(input byte)")
        if name == "contains" and k0 == "bytes" and len(args) == 2:
            x = self.deref(st, args[1])
            if x[0] == "byte":
                return boolv(self.fork_class(st, x[1], frozenset(a0[1])))
        # ---- bool / usize helpers
        if name == "then_some" and k0 == "int" and a0[1] in (0, 1) and len(args) == 2:
            return one(_some(args[1]) if a0[1] else _NONE)
        if name == "then" and k0 == "int" and a0[1] in (0, 1) and len(args) == 2:
            return [(s, _some(v)) for s, v in self.apply(st, args[1], [], depth)] if a0[1] else one(_NONE)
        if name in ("checked_sub", "saturating_sub", "checked_add", "saturating_add", "wrapping_add") and len(args) == 2 and k0 in ("int", "lin"):
            y = self.as_num(st, args[1])
            if name.endswith("add"):
                r = _lin_add(a0, y)
                return one(_some(r) if name.startswith("checked") else r)
            out = []
            for s, ge in self.cmp0(st, _lin_add(a0, y, -1), "Ge"):
                r = _lin_add(a0, y, -1)
                if name.startswith("checked"):
                    out.append((s, _some(r) if ge else _NONE))
                else:
                    out.append((s, r if ge else ("int", 0)))
            return out
        if name in ("min", "max") and len(args) == 2 and k0 in ("int", "lin"):
            y = self.as_num(st, args[1])
            return [(s, (a0 if le else y) if name == "min" else (y if le else a0)) for s, le in self.cmp0(st, _lin_add(a0, y, -1), "Le")]
        # ---- slices
        if k0 == "slice":
            a, b = a0[1], a0[2]
            if name == "len":
                return one(_lin([(b, 1), (a, -1)]))
            if name == "is_empty":
                return boolv(self.cmp0(st, _lin([(b, 1), (a, -1)]), "Eq"))
            if name in ("iter", "into_iter"):
                return one(("iter", a, b, False))
            if name in ("split_first", "split_last", "first", "last"):
                right = name in ("split_last", "last")
                out = []
                for s, r in self.pop(st, a, b, right=right):
                    if r is None:
                        out.append((s, _NONE))
                    elif name in ("first", "last"):
                        out.append((s, _some(("byte", r[0]))))
                    else:
                        out.append((s, _some(("tuple", (("byte", r[0]), ("slice", a, r[1]) if right else ("slice", r[1], b))))))
                return out
            if name in ("split", "rsplit", "splitn", "rsplitn", "split_inclusive"):
                if name == "split_inclusive":
                    raise LangFail(name)
                n = None
                pa = args[1]
                if name.endswith("n"):
                    nv = self.deref(st, args[1])
                    if nv[0] != "int":
                        raise LangFail("splitn count")
                    n, pa = nv[1], args[2]
                return one(("split", a, b, self.pred_class(st, pa, depth), 0, n, name.startswith("r")))
            if name in ("split_at", "split_at_checked"):
                out = []
                for s, mk in self.resolve(st, a, self.as_num(st, args[1])):
                    if s.idx(a) <= s.idx(mk) <= s.idx(b):
                        v = ("tuple", (("slice", a, mk), ("slice", mk, b)))
                        out.append((s, _some(v) if name.endswith("checked") else v))
                return out
            if name in ("index", "get") and len(args) == 2:
                rg = self.deref(st, args[1])
                if rg[0] in ("int", "lin"):
                    out = []
                    for s, mk in self.resolve(st, a, rg):
                        if s.idx(a) <= s.idx(mk):
                            for s2, r in self.pop(s, mk, b):
                                if r is not None:
                                    out.append((s2, _some(("byte", r[0])) if name == "get" else ("byte", r[0])))
                                elif name == "get":
                                    out.append((s2, _NONE))
                    return out
                if rg[0] == "enum" and "Range" in rg[1]:
                    flds = dict(rg[3])
                    los = [(st, a)] if "start" not in flds else self.resolve(st, a, self.as_num(st, flds["start"]))
                    out = []
                    for s, lo in los:
                        if "end" not in flds:
                            his = [(s, b)]
                        else:
                            e = self.as_num(s, flds["end"])
                            his = self.resolve(s, a, _lin_add(e, ("int", 1)) if "Inclusive" in rg[1] else e)
                        for s2, hi in his:
                            if s2.idx(a) <= s2.idx(lo) <= s2.idx(hi) <= s2.idx(b):
                                out.append((s2, _some(("slice", lo, hi)) if name == "get" else ("slice", lo, hi)))
                    return out
            if name in ("starts_with", "ends_with", "strip_prefix", "strip_suffix") and len(args) == 2:
                lit = self.deref(st, args[1])
                if lit[0] == "int":
                    lit = ("bytes", bytes([lit[1]]))
                if lit[0] != "bytes":
                    raise LangFail(name + " of a non-constant")
                right = name in ("ends_with", "strip_suffix")
                out = []
                for r in self.eq_bytes(st, a0, lit[1], prefix=True, right=right):
                    if name.startswith("strip"):
                        out.append((r[0], (_some(("slice", a, r[2]) if right else ("slice", r[2], b))) if r[1] else _NONE))
                    else:
                        out.append((r[0], ("int", int(r[1]))))
                return out
        # ---- slice iterators
        if k0 == "iter":
            a, b, rev = a0[1], a0[2], a0[3]
            if name == "rev":
                return one(("iter", a, b, not rev))
            if name in ("as_slice",):
                return one(("slice", a, b))
            if name in ("len", "count"):
                return one(_lin([(b, 1), (a, -1)]))
            if name in ("next", "next_back", "last"):
                right = (name != "next") != rev
                out = []
                for s, r in self.pop(st, a, b, right=right):
                    if r is None:
                        out.append((s, _NONE))
                        continue
                    if name == "last":
                        self.setref(s, args[0], ("iter", b, b, rev))
                    else:
                        self.setref(s, args[0], ("iter", a, r[1], rev) if right else ("iter", r[1], b, rev))
                    out.append((s, _some(("byte", r[0]))))
                return out
            if name in ("all", "any", "position", "find", "rposition", "rfind", "skip_while", "take_while") and len(args) == 2:
                p = self.pred_class(st, args[1], depth)
                if name in ("all", "skip_while", "take_while"):
                    p = ALLB - p
                right = rev != name.startswith("r")
                out = []
                for s, mk in self.first(st, a, b, p, right=right):
                    if name == "skip_while":
                        out.append((s, ("iter", a, b, rev) if mk is None and False else
                                    (("iter", b, b, rev) if mk is None else (("iter", a, self.after(s, mk), rev) if right else ("iter", mk, b, rev)))))
                        continue
                    if name == "take_while":
                        if mk is None:
                            self.setref(s, args[0], ("iter", b, b, rev) if not right else ("iter", a, a, rev))
                            out.append((s, ("iter", a, b, rev)))
                        else:
                            nx = self.after(s, mk)
                            self.setref(s, args[0], ("iter", a, mk, rev) if right else ("iter", nx, b, rev))
                            out.append((s, ("iter", nx, b, rev) if right else ("iter", a, mk, rev)))
                        continue
                    if mk is None:
                        self.setref(s, args[0], ("iter", a, a, rev) if right else ("iter", b, b, rev))
                        v = ("int", 1) if name == "all" else ("int", 0) if name == "any" else _NONE
                    else:
                        nx = self.after(s, mk)
                        self.setref(s, args[0], ("iter", a, mk, rev) if right else ("iter", nx, b, rev))
                        if name in ("all", "any"):
                            v = ("int", int(name == "any"))
                        elif name in ("find", "rfind"):
                            v = _some(("byte", mk))
                        elif rev:
                            v = _some(_lin([(b, 1), (nx, -1)]))
                        else:
                            v = _some(_lin([(mk, 1), (a, -1)]))
                    out.append((s, v))
                return out
        if k0 == "split" and name in ("next", "next_back"):
            _, a, b, cls, done, n, right = a0
            if name == "next_back":
                if n is not None:
                    raise LangFail("next_back on splitn")
                right = not right
            if done:
                return one(_NONE)
            if n is not None and n <= 1:
                if n == 0:
                    return one(_NONE)
                self.setref(st, args[0], ("split", a, b, cls, 1, n, a0[6]))
                return one(_some(("slice", a, b)))
            out = []
            for s, mk in self.first(st, a, b, cls, right=right):
                if mk is None:
                    self.setref(s, args[0], ("split", a, b, cls, 1, n, a0[6]))
                    out.append((s, _some(("slice", a, b))))
                else:
                    nx = self.after(s, mk)
                    n2 = None if n is None else n - 1
                    if right:
                        self.setref(s, args[0], ("split", a, mk, cls, 0, n2, a0[6]))
                        out.append((s, _some(("slice", nx, b))))
                    else:
                        self.setref(s, args[0], ("split", nx, b, cls, 0, n2, a0[6]))
                        out.append((s, _some(("slice", a, mk))))
            return out
        # ---- Option / Result / ControlFlow
        if k0 == "enum" and a0[1] in (_OPT, _RES, _CF):
            adt, vi = a0[1], a0[2]
            good = (vi == 1) if adt == _OPT else (vi == 0)
            pay = a0[3][0][1] if a0[3] else None
            if name in ("is_some", "is_ok"):
                return one(("int", int(good)))
            if name in ("is_none", "is_err"):
                return one(("int", int(not good)))
            if name in ("unwrap", "expect"):
                return one(pay) if good else []
            if name == "unwrap_or":
                return one(pay if good else args[1])
            if name == "unwrap_or_else":
                return one(pay) if good else self.apply(st, args[1], [] if adt == _OPT else [pay], depth)
            if name == "map":
                if not good:
                    return one(a0)
                return [(s, ("enum", adt, vi, (("0", v),))) for s, v in self.apply(st, args[1], [pay], depth)]
            if name == "map_err":
                if good:
                    return one(a0)
                return [(s, ("enum", adt, vi, (("0", v),))) for s, v in self.apply(st, args[1], [pay], depth)]
            if name == "map_or":
                return self.apply(st, args[2], [pay], depth) if good else one(args[1])
            if name == "map_or_else":
                return self.apply(st, args[2], [pay], depth) if good else self.apply(st, args[1], [] if adt == _OPT else [pay], depth)
            if name == "and_then":
                return self.apply(st, args[1], [pay], depth) if good else one(a0)
            if name in ("is_some_and", "is_ok_and"):
                return self.apply(st, args[1], [pay], depth) if good else one(("int", 0))
            if name == "is_none_or":
                return self.apply(st, args[1], [pay], depth) if good else one(("int", 1))
            if name == "filter" and adt == _OPT:
                if not good:
                    return one(a0)
                return [(s, a0 if self.deref(s, v) == ("int", 1) else _NONE) for s, v in self.apply(st, args[1], [pay], depth)]
            if name == "ok_or" and adt == _OPT:
                return one(("enum", _RES, 0, (("0", pay),)) if good else ("enum", _RES, 1, (("0", args[1]),)))
            if name == "ok_or_else" and adt == _OPT:
                if good:
                    return one(("enum", _RES, 0, (("0", pay),)))
                return [(s, ("enum", _RES, 1, (("0", v),))) for s, v in self.apply(st, args[1], [], depth)]
            if name == "ok" and adt == _RES:
                return one(_some(pay) if good else _NONE)
            if name == "err" and adt == _RES:
                return one(_NONE if good else _some(pay))
            if name == "branch":
                return one(("enum", _CF, 0, (("0", pay),)) if good else ("enum", _CF, 1, (("0", a0),)))
            if name == "from_residual":
                return one(a0)
            if name in ("xor", "or", "and", "zip", "or_else"):
                raise LangFail("Option::" + name)
        # ---- values passed through unchanged
        if name in _TRANSPARENT and args:
            if name == "as_slice" and k0 == "iter":
                return one(("slice", a0[1], a0[2]))
            if name in ("clone", "to_owned", "copied", "cloned") and k0 in ("enum", "byte", "int", "lin", "slice", "tuple"):
                return one(a0)
            if name in ("iter", "into_iter") and k0 == "enum" and a0[1] == _OPT:
                raise LangFail("iteration over an Option")
            return one(args[0])
        if name in ("from_utf8", "from_utf8_unchecked") and k0 == "slice":
            raise LangFail("conversion of the input to str")
        # ---- anything else: a value we know nothing about — fine as long as nothing is decided from it and it cannot
        # advance a cursor of ours
        for a_ in args:
            if a_[0] == "ref" and self.deref(st, a_)[0] in ("iter", "split"):
                raise LangFail("cursor handed to %s" % (name or res))
        if any(self.deref(st, a_)[0] in ("iter", "split") for a_ in args) and name not in ("drop",):
            raise LangFail("iterator adaptor %s" % (name or res))
        return one(("opaque", name or res))


# ---- regular-language comparison of shape sets --------------------------------------------------------------------------

def _nfa_step(shapes, conf, byte):
    out = set()
    for si, pos in conf:
        sh = shapes[si]
        if pos < len(sh):
            kind, cls = sh[pos]
            if byte in cls:
                out.add((si, pos if kind == "S" else pos + 1))
    return _nfa_close(shapes, out)


def _nfa_close(shapes, conf):
    conf = set(conf)
    todo = list(conf)
    while todo:
        si, pos = todo.pop()
        sh = shapes[si]
        if pos < len(sh) and sh[pos][0] == "S" and (si, pos + 1) not in conf:
            conf.add((si, pos + 1))
            todo.append((si, pos + 1))
    return frozenset(conf)


def _accepting(shapes, conf):
    return any(pos == len(shapes[si]) for si, pos in conf)


def lang_member(shapes, word):
    conf = _nfa_close(shapes, {(i, 0) for i in range(len(shapes))})
    for ch in word:
        conf = _nfa_step(shapes, conf, ch)
    return _accepting(shapes, conf)


def lang_diff(a, b):
    """None if the shape sets a and b denote the same language, else (word, in_a, in_b) for a shortest distinguishing
    word."""
    classes = {cls for sh in list(a) + list(b) for _, cls in sh}
    sig = {}
    for v in range(256):
        sig.setdefault(tuple(v in c for c in classes), v)
    reps = sorted(sig.values())
    start = (_nfa_close(a, {(i, 0) for i in range(len(a))}), _nfa_close(b, {(i, 0) for i in range(len(b))}))
    seen = {start: None}
    todo = [start]
    while todo:
        nxt = []
        for node in todo:
            ca, cb = node
            if _accepting(a, ca) != _accepting(b, cb):
                w = []
                cur = node
                while seen[cur] is not None:
                    cur, ch = seen[cur]
                    w.append(ch)
                return bytes(reversed(w)), _accepting(a, ca), _accepting(b, cb)
            for ch in reps:
                n2 = (_nfa_step(a, ca, ch), _nfa_step(b, cb, ch))
                if n2 not in seen:
                    seen[n2] = (node, ch)
                    nxt.append(n2)
        todo = nxt
        if len(seen) > 200000:
            raise LangFail("language comparison too large")
    return None


def fmt_shape(sh):
    out = []
    for kind, cls in sh:
        if kind == "S" and not cls:
            continue
        c = "any" if cls == ALLB else "[%s]" % absint.fmt_class(cls)
        out.append(c + ("*" if kind == "S" else ""))
    return " ".join(out) or "ε"


FILE_NAME_SPEC = [(("S", frozenset(STEM)), ("B", frozenset([0x2e])), ("B", frozenset(ALPHA)), ("B", frozenset(ALPHA)),
                   ("B", frozenset(ALPHA)))]
